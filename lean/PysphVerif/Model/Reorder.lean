/-
C17 — model of spatial re-ordering.

Transcribes (pinned tree, CPU path):

* `cyarray.carray.<T>Array.c_align_array(new_indices, stride)`        → `gather`
* `LinkedListNNPS._refresh/_bin` + `get_spatially_ordered_indices`
  (pysph/base/linked_list_nnps.pyx; `BoxSortNNPS` inherits it)        → `llBin`, `llOrder`
* `ZOrderNNPS/ExtendedZOrderNNPS.fill_array` (pids, `compare_sort`) and
  `StratifiedSFCNNPS.fill_array` + `get_spatially_ordered_indices`
  (z_order_nnps.pyx, stratified_sfc_nnps.pyx, z_order.h)              → `sortOrder`
* `CellIndexingNNPS.fill_array/_get_key/_get_id` +
  `get_spatially_ordered_indices` (cell_indexing_nnps.pyx)           → `ciOrder`
* `Octree/CompressedOctree._c_build_tree` (octree.pyx: `pids`) and
  `OctreeNNPS.get_spatially_ordered_indices` (octree_nnps.pyx)       → `octBuild`, `octOrder`
* `NNPS.spatially_order_particles` (nnps_base.pyx)                    → `spatiallyOrderOrig`
  and, with the proposed repair (`pa.align_particles()` after the
  gather, proposed_fixes/C17-reorder-align.diff),                     → `spatiallyOrder`
* `ParticleArray.align_particles` (particle_array.pyx)               → `alignIndex`, `align`
* `Solver.reorder_particles` (solver/solver.py): every array in turn → `reorderAll`

What is a parameter (geometry, belongs to C01): the map particle ↦ cell id /
key / octant digit.  The harness computes it from the positions and the
search structure's public geometry and hands it to the model; the theorems
hold for every such map (with the range conditions stated there).

Values are integers (the harness uses values every C type represents
exactly).  Core Lean only.
-/
namespace PysphVerif.Reorder

/-! ## `c_align_array`: gather with stride -/

/-- the `stride` elements of row `src` of the temp copy -/
def gatherRow {α : Type} [Inhabited α] (temp : List α) (stride src : Nat) : List α :=
  (List.range stride).map (fun j => temp.getD (src * stride + j) default)

/-- body of the outer loop of `c_align_array`: row `i` of the result.
`new_index = new_indices.data[i]`; `if i != new_index` is an optimisation
(the assignment is the identity otherwise). -/
def gatherAt {α : Type} [Inhabited α] (idx : List Nat) (stride : Nat) (temp : List α) (i : Nat) :
    List α :=
  gatherRow temp stride (idx.getD i i)

/-- `arr.c_align_array(new_indices, stride)`:
`temp = copy(data); for i in range(length//stride): for j in range(stride):
data[i*stride+j] = temp[new_indices[i]*stride+j]`; elements beyond
`(length//stride)*stride` are not touched. -/
def gather {α : Type} [Inhabited α] (idx : List Nat) (stride : Nat) (data : List α) : List α :=
  (List.range (data.length / stride)).flatMap (gatherAt idx stride data) ++
    data.drop (data.length / stride * stride)

/-- row `i` (chunk of `stride` consecutive elements) of a flat array -/
def row {α : Type} [Inhabited α] (stride : Nat) (data : List α) (i : Nat) : List α :=
  gatherRow data stride i

/-- the flat array read as rows -/
def rowsOf {α : Type} [Inhabited α] (stride : Nat) (data : List α) : List (List α) :=
  (List.range (data.length / stride)).map (row stride data)

/-! ## LinkedListNNPS: head/next lists -/

/-- `UINT_MAX` is `none` -/
structure LL where
  head : List (Option Nat)
  next : List (Option Nat)
  deriving Repr, DecidableEq

/-- `_refresh`: `head[j] = UINT_MAX` for the `n_cells` cells, `next[j] = UINT_MAX` -/
def llInit (ncells n : Nat) : LL :=
  { head := List.replicate ncells none, next := List.replicate n none }

/-- `_bin` loop body: `next[i] = head[_cid]; head[_cid] = i` -/
def llBinStep (cid : Nat → Nat) (st : LL) (i : Nat) : LL :=
  { head := st.head.set (cid i) (some i),
    next := st.next.set i (st.head.getD (cid i) none) }

/-- `_bin(pa_index, indices = arange(n))` after `_refresh` -/
def llBin (cid : Nat → Nat) (ncells n : Nat) : LL :=
  (List.range n).foldl (llBinStep cid) (llInit ncells n)

/-- `while _next != UINT_MAX: indices.append(_next); _next = next[_next]`
(the fuel only makes the function total; `n` steps always suffice, see
`llWalk_of_chain`) -/
def llWalk (next : List (Option Nat)) : Nat → Option Nat → List Nat
  | 0, _ => []
  | _ + 1, none => []
  | fuel + 1, some i => i :: llWalk next fuel (next.getD i none)

/-- inner part of `get_spatially_ordered_indices` for one cell -/
def llCell (ll : LL) (fuel : Nat) (c : Nat) : List Nat :=
  llWalk ll.next fuel (ll.head.getD c none)

/-- `LinkedListNNPS.get_spatially_ordered_indices`: `for i in range(n_cells)` -/
def llOrderOf (ll : LL) (fuel : Nat) : List Nat :=
  (List.range ll.head.length).flatMap (llCell ll fuel)

def llOrder (cid : Nat → Nat) (ncells n : Nat) : List Nat :=
  llOrderOf (llBin cid ncells n) n

/-! ## ZOrder / ExtendedZOrder / StratifiedSFC: `pids` sorted by key -/

/-- `CompareFunctionWrapper`: `keys[a] < keys[b]` is the strict order; as a
`≤` for the merge sort -/
def keyLe (key : Nat → Nat) (a b : Nat) : Bool := key a ≤ key b

/-- `current_pids[i] = i` then `compare_sort()`.  `std::sort` is not stable:
the order inside a run of equal keys is unspecified; the model uses a stable
sort and the harness canonicalises runs of equal keys (L2 detail). -/
def sortOrder (key : Nat → Nat) (n : Nat) : List Nat :=
  (List.range n).mergeSort (keyLe key)

/-! ## CellIndexingNNPS: particle id packed into the low bits of the key -/

/-- `_get_key(n, i, j, k)`, in `unsigned int` arithmetic; `cell n` stands for
`i + 2^J j + 2^(J+K) k` -/
def ciKey (I : Nat) (cell : Nat → Nat) (n : Nat) : Nat :=
  (n + 2 ^ I * cell n) % 2 ^ 32

/-- `_get_id(key)` -/
def ciId (I : Nat) (key : Nat) : Nat := key % 2 ^ I

def natLe (a b : Nat) : Bool := a ≤ b

/-- `fill_array`: keys of all particles, `sort(keys)`;
`get_spatially_ordered_indices`: `_get_id(keys[j])` for every `j` -/
def ciOrder (I : Nat) (cell : Nat → Nat) (n : Nat) : List Nat :=
  (((List.range n).map (ciKey I cell)).mergeSort natLe).map (ciId I)

/-! ## Octree / CompressedOctree: `pids` = leaves in depth-first octant order -/

/-- `new_indices[oct_id].push_back(q)` for the particles of one octant, in
their incoming order -/
def octPart (digit : Nat → Nat → Nat) (depth : Nat) (ids : List Nat) (o : Nat) : List Nat :=
  ids.filter (fun q => digit depth q == o)

/-- `_c_build_tree`: `digit depth q` is the octant `k+2j+4i` of particle `q` in
the node of depth `depth` that contains it; `stop path` stands for
`eps > EPS_MAX` (always false for the compressed tree); leaves copy their
indices to `pids`; empty octants are skipped; children in octant order. -/
def octBuild (leafMax : Nat) (digit : Nat → Nat → Nat) (stop : List Nat → Bool) :
    Nat → List Nat → List Nat → List Nat
  | 0, _, ids => ids
  | fuel + 1, path, ids =>
    if ids.length < leafMax || stop path then ids
    else (List.range 8).flatMap (fun o =>
      octBuild leafMax digit stop fuel (o :: path) (octPart digit path.length ids o))

/-- `c_build_tree` (indices `0..n-1`) + `get_spatially_ordered_indices` -/
def octOrder (leafMax : Nat) (digit : Nat → Nat → Nat) (stop : List Nat → Bool)
    (fuel n : Nat) : List Nat :=
  octBuild leafMax digit stop fuel [] (List.range n)

/-! ## the particle array, as far as re-ordering sees it -/

structure Col where
  name : String
  stride : Nat
  data : List Int
  deriving Repr, DecidableEq, Inhabited

structure PA where
  /-- `pa.properties` with `pa.stride.get(name, 1)` resolved -/
  props : List Col
  /-- `num_real_particles` -/
  nReal : Nat
  deriving Repr, DecidableEq, Inhabited

/-- `Local = 0` -/
def localTag : Int := 0

def PA.tags (pa : PA) : List Int :=
  match pa.props.find? (fun c => c.name == "tag") with
  | some c => c.data
  | none => []

/-- `get_number_of_particles()` -/
def PA.n (pa : PA) : Nat := pa.tags.length

def gatherCol (idx : List Nat) (c : Col) : Col :=
  { c with data := gather idx c.stride c.data }

/-- `for name, arr in pa.properties.items(): arr.c_align_array(indices, stride)` -/
def PA.gatherAll (pa : PA) (idx : List Nat) : PA :=
  { pa with props := pa.props.map (gatherCol idx) }

/-- `NNPS.spatially_order_particles` as it is on the pinned tree -/
def spatiallyOrderOrig (idx : List Nat) (pa : PA) : PA := pa.gatherAll idx

/-! ### `align_particles` -/

/-- state of the index loop: (index_array so far, next_insert, num_moves) -/
structure AlignSt where
  idx : List Nat
  next : Nat
  moves : Nat
  deriving Repr, DecidableEq

/-- one iteration `i` of the loop of `align_particles` (`i = st.idx.length`) -/
def alignStep (st : AlignSt) (tag : Int) : AlignSt :=
  let i := st.idx.length
  if tag == localTag then
    if i != st.next then
      -- tmp = index[next]; index[next] = i; index[i] = tmp
      { idx := (st.idx.set st.next i) ++ [st.idx.getD st.next 0],
        next := st.next + 1, moves := st.moves + 1 }
    else { idx := st.idx ++ [i], next := st.next + 1, moves := st.moves }
  else { idx := st.idx ++ [i], next := st.next, moves := st.moves }

def alignIndex (tags : List Int) : AlignSt :=
  tags.foldl alignStep { idx := [], next := 0, moves := 0 }

/-- `ParticleArray.align_particles()`; `num_real_particles` is the number of
Local tags (`num_real_particles += 1` in the same branch as `next_insert += 1`) -/
def align (pa : PA) : PA :=
  let st := alignIndex pa.tags
  let pa' : PA := { pa with nReal := st.next }
  if st.moves > 0 then pa'.gatherAll st.idx else pa'

/-- `NNPS.spatially_order_particles` with the proposed repair -/
def spatiallyOrder (idx : List Nat) (pa : PA) : PA := align (spatiallyOrderOrig idx pa)

/-- `Solver.reorder_particles`: array `i` is re-ordered by its own index list -/
def reorderAll (fixed : Bool) (idxs : List (List Nat)) (pas : List PA) : List PA :=
  (List.zip idxs pas).map (fun p => if fixed then spatiallyOrder p.1 p.2 else spatiallyOrderOrig p.1 p.2)

/-! ### what the property talks about -/

/-- particle `i` as a whole: its row in every property -/
def PA.particle (pa : PA) (i : Nat) : List (List Int) :=
  pa.props.map (fun c => row c.stride c.data i)

def PA.particles (pa : PA) : List (List (List Int)) :=
  (List.range pa.n).map pa.particle

/-- real (Local) particles occupy exactly the first `num_real_particles` slots -/
def PA.realFirst (pa : PA) : Bool :=
  (pa.tags.take pa.nReal).all (· == localTag) && (pa.tags.drop pa.nReal).all (· != localTag)
    && pa.nReal ≤ pa.n

/-- every property holds `n` rows of its stride -/
def PA.wf (pa : PA) : Bool :=
  pa.props.all (fun c => c.stride > 0 && c.data.length == pa.n * c.stride) &&
  (pa.props.find? (fun c => c.name == "tag")).any (fun c => c.stride == 1)

def isPermOfRange (idx : List Nat) (n : Nat) : Bool :=
  idx.length == n && (List.range n).all (fun i => idx.count i == 1)

end PysphVerif.Reorder
