/-
C06 — model of `pysph/base/particle_array.pyx` (class ParticleArray).

State = exactly the attributes listed in particle_array.pxd that the property
is about: `properties` (insertion-ordered dict of flat carrays), the sparse
`stride` dict, `default_values`, `constants`, `num_real_particles`,
`output_property_arrays`.  Every mutator is written as the code writes it:
it walks *all* properties and looks the stride up per property with
`self.stride.get(name, 1)`.

cyarray (third party) is modelled: a carray is a flat `List Int`; `remove`
(swap-with-last from the largest index down), `c_align_array` (gather through
a temp copy), `copy_values`, `extend`, `resize`, `set_data` act on the rows
(chunks of `stride` elements) of that flat list.  Reading the flat array as
rows is exact as long as the length is a multiple of the stride — which is the
invariant `Inv` proved in Props/C06.lean for every reachable state, and which
the correspondence check observes on the real arrays after every operation.

Values are integers: the harness only uses values that every C type
(double/float/int/long/unsigned int) represents exactly.

Core Lean only.
-/
namespace PysphVerif.PArray

/-! ## generic row operations (polymorphic: used on rows, particles, indices) -/

/-- cyarray `remove`, one index: overwrite row `i` with the last row, shrink -/
def swapRemove {β : Type} (l : List β) (i : Nat) : List β :=
  if i < l.length then
    match l.getLast? with
    | some last => (l.set i last).dropLast
    | none => l
  else l

/-- cyarray `remove(sorted_indices, input_sorted=1, stride)`: from the largest
index down -/
def removeRows {β : Type} (sortedIdx : List Nat) (l : List β) : List β :=
  sortedIdx.reverse.foldl swapRemove l

/-- `c_align_array` / `copy_values`: row `k` of the result is row `src[k]` -/
def gather {β : Type} (src : List Nat) (l : List β) : List β :=
  src.filterMap (fun i => l[i]?)

/-- insertion sort (numpy.sort of the index list) -/
def insertSorted (x : Nat) : List Nat → List Nat
  | [] => [x]
  | y :: ys => if x ≤ y then x :: y :: ys else y :: insertSorted x ys
def sortNat (l : List Nat) : List Nat := l.foldr insertSorted []

/-! ## flat arrays as rows -/

/-- chunks of `s` consecutive elements (a trailing partial chunk is kept) -/
def rowsOfAux (s : Nat) : Nat → List Int → List (List Int)
  | 0, _ => []
  | fuel + 1, d => if d.isEmpty then [] else d.take s :: rowsOfAux s fuel (d.drop s)

def rowsOf (s : Nat) (d : List Int) : List (List Int) :=
  if s = 0 then [] else rowsOfAux s d.length d

def flat (rows : List (List Int)) : List Int := rows.flatten

/-! ## the particle array -/

structure Col where
  name : String
  ctype : String
  data : List Int
  deriving Repr, DecidableEq, Inhabited

structure PA where
  name : String
  props : List Col
  stride : List (String × Nat)
  defaults : List (String × Int)
  consts : List (String × List Int)
  nReal : Nat
  outputs : List String
  deriving Repr, DecidableEq, Inhabited

/-- tags: Local = 0, Remote = 1, Ghost = 2 -/
def localTag : Int := 0

def uintMax : Int := 4294967295

/-- `ParticleArray()` : `clear()` creates tag/pid/gid -/
def PA.empty (name : String) : PA :=
  { name := name,
    props := [⟨"tag", "int", []⟩, ⟨"pid", "int", []⟩, ⟨"gid", "unsigned int", []⟩],
    stride := [], defaults := [("tag", 0), ("pid", 0), ("gid", uintMax)],
    consts := [], nReal := 0, outputs := [] }

def lookupD {β : Type} (l : List (String × β)) (k : String) (d : β) : β :=
  match l.find? (fun p => p.1 == k) with
  | some p => p.2
  | none => d

def setKey {β : Type} (l : List (String × β)) (k : String) (v : β) : List (String × β) :=
  if l.any (fun p => p.1 == k) then l.map (fun p => if p.1 == k then (k, v) else p)
  else l ++ [(k, v)]

def eraseKey {β : Type} (l : List (String × β)) (k : String) : List (String × β) :=
  l.filter (fun p => !(p.1 == k))

/-- `self.stride.get(name, 1)` -/
def PA.strideOf (pa : PA) (name : String) : Nat := lookupD pa.stride name 1

def PA.defaultOf (pa : PA) (name : String) : Int := lookupD pa.defaults name 0

def PA.col? (pa : PA) (name : String) : Option Col := pa.props.find? (fun (c : Col) => c.name == name)

def PA.hasProp (pa : PA) (name : String) : Bool := pa.props.any (fun (c : Col) => c.name == name)

/-- `get_number_of_particles()` (all particles) -/
def PA.n (pa : PA) : Nat :=
  match pa.col? "tag" with
  | some c => c.data.length
  | none =>
    match pa.props with
    | c :: _ => c.data.length / pa.strideOf c.name
    | [] => 0

def PA.setCol (pa : PA) (c : Col) : PA :=
  if pa.hasProp c.name then
    { pa with props := pa.props.map (fun (c' : Col) => if c'.name == c.name then c else c') }
  else { pa with props := pa.props ++ [c] }

/-- apply a row operation to every property with its own stride -/
def PA.mapRows (pa : PA) (f : List (List Int) → List (List Int)) : PA :=
  { pa with props := pa.props.map (fun (c : Col) =>
      { c with data := flat (f (rowsOf (pa.strideOf c.name) c.data)) }) }

def defaultRow (pa : PA) (name : String) : List Int :=
  List.replicate (pa.strideOf name) (pa.defaultOf name)

/-- cyarray `resize` to `m` rows followed by filling the new rows with the
default (the only way the code grows arrays); shrinking truncates -/
def resizeRows (m : Nat) (fill : List Int) (rows : List (List Int)) : List (List Int) :=
  rows.take m ++ List.replicate (m - rows.length) fill

/-! ### align_particles -/

/-- one iteration of the index-building loop of `align_particles`;
state = (index_array so far, next_insert, num_moves) -/
def alignStep (st : List Nat × Nat × Nat) (it : Nat × Int) : List Nat × Nat × Nat :=
  let (idx, next, moves) := st
  let (i, tag) := it
  if tag == localTag then
    if i != next then
      -- tmp = index[next]; index[next] = i; index[i] = tmp
      ((idx.set next i) ++ [idx.getD next 0], next + 1, moves + 1)
    else (idx ++ [i], next + 1, moves)
  else (idx ++ [i], next, moves)

/-- (index_array, num_real_particles, num_moves) -/
def alignIndex (tags : List Int) : List Nat × Nat × Nat :=
  (List.zip (List.range tags.length) tags).foldl alignStep ([], 0, 0)

def PA.tags (pa : PA) : List Int :=
  match pa.col? "tag" with
  | some c => c.data
  | none => []

def PA.align (pa : PA) : PA :=
  let (idx, nreal, moves) := alignIndex pa.tags
  let pa' : PA := { pa with nReal := nreal }
  if moves > 0 then pa'.mapRows (gather idx) else pa'

/-! ### growing / shrinking -/

/-- `extend(num_particles)` -/
def PA.extend (pa : PA) (k : Nat) : PA :=
  if k = 0 then pa else
  let m := pa.n + k
  { pa with props := pa.props.map (fun (c : Col) =>
      { c with data := flat (resizeRows m (defaultRow pa c.name) (rowsOf (pa.strideOf c.name) c.data)) }) }

/-- `resize(size)` (only the shrinking use is exercised) -/
def PA.resize (pa : PA) (m : Nat) : PA :=
  { pa with props := pa.props.map (fun (c : Col) =>
      { c with data := flat (resizeRows m (defaultRow pa c.name) (rowsOf (pa.strideOf c.name) c.data)) }) }

/-- `add_particles(align, **particle_props)`; `given` maps property names to
flat data.  `none` = the Python code raises. -/
def PA.addParticles (pa : PA) (align : Bool) (given : List (String × List Int)) : Option PA :=
  match given.getLast? with
  | none => some pa
  | some (lastName, lastData) =>
    if !(given.all (fun g => pa.hasProp g.1 || pa.consts.any (fun c => c.1 == g.1))) then none else
    let extra := lastData.length / pa.strideOf lastName
    let oldN := pa.n
    let newN := oldN + extra
    let pa' : PA := { pa with props := pa.props.map (fun (c : Col) =>
      match given.find? (fun g => g.1 == c.name) with
      | some g => { c with data := c.data ++ g.2 }                  -- arr.extend(s_arr)
      | none => { c with data := flat (resizeRows newN (defaultRow pa c.name) (rowsOf (pa.strideOf c.name) c.data)) }) }
    some (if extra > 0 && align then pa'.align else pa')

/-- `remove_particles(indices, align)` -/
def PA.removeParticles (pa : PA) (indices : List Nat) (align : Bool) : Option PA :=
  if indices.length > pa.n then none else
  let sorted := sortNat indices
  let pa' := pa.mapRows (removeRows sorted)
  some (if indices.length > 0 && align then pa'.align else pa')

/-- `remove_tagged_particles(tag, align)` -/
def PA.removeTagged (pa : PA) (tag : Int) (align : Bool) : Option PA :=
  let idx := (List.zip (List.range pa.tags.length) pa.tags).filterMap
    (fun p => if p.2 == tag then some p.1 else none)
  pa.removeParticles idx align

/-- `set_tag(tag_value, indices)` -/
def PA.setTag (pa : PA) (tag : Int) (indices : List Nat) : PA :=
  match pa.col? "tag" with
  | some c => pa.setCol { c with data := indices.foldl (fun d i => d.set i tag) c.data }
  | none => pa

/-! ### properties and constants -/

/-- cyarray `set_data`: copy into the leading part if it fits, else raise -/
def setData (dst src : List Int) : Option (List Int) :=
  if src.length ≤ dst.length then some (src ++ dst.drop src.length) else none

/-- `add_property(name, type, default, data, stride)`.
`dflt = none` is `default=None`; `data = none` is `data=None`. -/
def PA.addProperty (pa : PA) (name ctype : String) (dflt : Option Int)
    (data : Option (List Int)) (stride : Nat) : Option PA :=
  let n := pa.n
  let sizeOk : Bool := match data with
    | none => true
    | some d => n == 0 || d.length == 0 || (n == d.length / stride && d.length % stride == 0)
  if !sizeOk then none else
  let dv : Int := match dflt with
    | some v => v
    | none => if pa.hasProp name then pa.defaultOf name else 0
  let pa1 : PA :=
    { pa with
      defaults := setKey pa.defaults name dv,
      stride := if stride != 1 then setKey pa.stride name stride else pa.stride }
  let noData : Bool := match data with
    | none => true
    | some d => d.length == 0
  if n == 0 then
    if noData then
      if pa1.hasProp name then some pa1
      else some (pa1.setCol ⟨name, ctype, []⟩)
    else
      let d := data.getD []
      let nElem := d.length / stride
      -- resize every existing property and fill it with its default
      let pa2 : PA := { pa1 with props := pa1.props.map (fun (c : Col) =>
        { c with data := flat (List.replicate nElem (defaultRow pa1 c.name)) }) }
      let nreal := if name == "tag" then (d.filter (· == localTag)).length else nElem
      let pa3 : PA := { pa2 with nReal := nreal }
      match pa3.col? name with
      | some c =>
        match setData c.data d with
        | some nd => some (pa3.setCol { c with data := nd })
        | none => none
      | none => some (pa3.setCol ⟨name, ctype, d⟩)
  else
    if noData then
      if pa1.hasProp name then some pa1
      else some (pa1.setCol ⟨name, ctype, List.replicate (n * stride) dv⟩)
    else
      let d := data.getD []
      match pa1.col? name with
      | some c =>
        match setData c.data d with
        | some nd => some (pa1.setCol { c with data := nd })
        | none => none
      | none => some (pa1.setCol ⟨name, ctype, d⟩)

/-- `remove_property(name)` (after the `fix:` commit: the stride entry goes too) -/
def PA.removeProperty (pa : PA) (name : String) : PA :=
  let pa1 := if pa.hasProp name then
      { pa with props := pa.props.filter (fun (c : Col) => !(c.name == name)),
                defaults := eraseKey pa.defaults name,
                stride := eraseKey pa.stride name }
    else pa
  { pa1 with outputs := pa1.outputs.filter (· != name) }

/-- `add_constant(name, data)` -/
def PA.addConstant (pa : PA) (name : String) (data : List Int) : Option PA :=
  if pa.consts.any (fun c => c.1 == name) || pa.hasProp name then none
  else some { pa with consts := pa.consts ++ [(name, data)] }

/-- `set(**{name: data})` on a property -/
def PA.setProp (pa : PA) (name : String) (data : List Int) : Option PA :=
  match pa.col? name with
  | some c =>
    match setData c.data data with
    | some nd => some (pa.setCol { c with data := nd })
    | none => none
  | none =>
    match pa.consts.find? (fun c => c.1 == name) with
    | some c =>
      match setData c.2 data with
      | some nd => some { pa with consts := setKey pa.consts name nd }
      | none => none
    | none => none

def dedup (l : List String) : List String :=
  l.foldl (fun acc x => if acc.contains x then acc else acc ++ [x]) []

/-- `set_output_arrays(props)` -/
def PA.setOutputs (pa : PA) (props : List String) : Option PA :=
  if props.all (fun p => pa.hasProp p || pa.consts.any (fun c => c.1 == p)) then
    some { pa with outputs := props } else none

/-- `add_output_arrays(props)`: `list(set(...))`, order unspecified (compared as a set) -/
def PA.addOutputs (pa : PA) (props : List String) : Option PA :=
  if props.all (fun p => pa.hasProp p || pa.consts.any (fun c => c.1 == p)) then
    some { pa with outputs := dedup (pa.outputs ++ props) } else none

/-! ### operations involving a second array -/

/-- `empty_clone(props)` -/
def PA.emptyClone (pa : PA) (props : Option (List String)) : Option PA :=
  let names := match props with
    | some ps => ps
    | none => pa.props.map Col.name
  if !(names.all pa.hasProp) then none else
  let start : PA := { PA.empty "" with consts := pa.consts }
  let r := names.foldl (fun (acc : Option PA) nm =>
    match acc with
    | none => none
    | some a =>
      match pa.col? nm with
      | some c => a.addProperty nm c.ctype (some (pa.defaultOf nm)) none (pa.strideOf nm)
      | none => none) (some start)
  match r with
  | none => none
  | some a =>
    let outs := match props with
      | none => pa.outputs
      | some ps => dedup (ps.filter (fun p => pa.outputs.contains p))
    some { a with name := pa.name, outputs := outs }

/-- `extract_particles(indices, dest_array, align, props)`: returns the
destination array after the copy -/
def PA.extractInto (pa : PA) (indices : List Nat) (dest : PA) (align : Bool)
    (props : Option (List String)) : Option PA :=
  let names := match props with
    | some ps => ps
    | none => pa.props.map Col.name
  if indices.length == 0 then some dest else
  if !(names.all (fun nm => pa.hasProp nm && dest.hasProp nm)) then none else
  let start := dest.n
  let d1 := dest.extend indices.length
  -- copy_values(index_array, dst, stride, stride*start_idx) with the SOURCE stride
  let d2 : PA := { d1 with props := d1.props.map (fun (c : Col) =>
    if names.contains c.name then
      match pa.col? c.name with
      | some sc =>
        let s := pa.strideOf c.name
        let picked := flat (gather indices (rowsOf s sc.data))
        { c with data := c.data.take (s * start) ++ picked ++ c.data.drop (s * start + picked.length) }
      | none => c
    else c) }
  some (if align then d2.align else d2)

def PA.extract (pa : PA) (indices : List Nat) (align : Bool) (props : Option (List String)) :
    Option PA :=
  match pa.emptyClone props with
  | none => none
  | some d => pa.extractInto indices d align props

/-- `append_parray(parray, align, update_constants)` -/
def PA.appendParray (pa : PA) (src : PA) (align : Bool) (updConsts : Bool) : Option PA :=
  if src.n == 0 then some pa else
  let extra := src.n
  let oldN := pa.n
  let pa1 := pa.extend extra
  let r := src.props.foldl (fun (acc : Option PA) sc =>
    match acc with
    | none => none
    | some a =>
      match a.col? sc.name with
      | some c =>
        let s := a.strideOf sc.name
        -- nparr_dest[old*stride:] = nparr_source   (numpy broadcasting needs equal length)
        if c.data.length - oldN * s == sc.data.length then
          some (a.setCol { c with data := c.data.take (oldN * s) ++ sc.data })
        else none
      | none =>
        let s := src.strideOf sc.name
        match a.addProperty sc.name sc.ctype (some (src.defaultOf sc.name)) none s with
        | none => none
        | some a' =>
          match a'.col? sc.name with
          | some c =>
            if c.data.length - oldN * s == sc.data.length then
              some (a'.setCol { c with data := c.data.take (oldN * s) ++ sc.data })
            else none
          | none => none) (some pa1)
  match r with
  | none => none
  | some a =>
    let a1 := if updConsts then
        { a with consts := src.consts.foldl (fun cs c =>
            if cs.any (fun x => x.1 == c.1) then cs else cs ++ [c]) a.consts }
      else a
    some (if extra > 0 && align then a1.align else a1)

/-- `ensure_properties(src, props)` -/
def PA.ensureProperties (pa : PA) (src : PA) (props : Option (List String)) : Option PA :=
  let names := match props with
    | some [] => src.props.map Col.name       -- `props if props else …`
    | some ps => ps
    | none => src.props.map Col.name
  names.foldl (fun (acc : Option PA) nm =>
    match acc with
    | none => none
    | some a =>
      if a.hasProp nm then some a else
      match src.col? nm with
      | some sc => a.addProperty nm sc.ctype (some (src.defaultOf nm)) none (src.strideOf nm)
      | none => none) (some pa)

/-- `pickle.loads(pickle.dumps(pa))` : `__reduce__` then `__setstate__` on a
fresh `ParticleArray()` -/
def PA.pickle (pa : PA) : Option PA :=
  -- `__setstate__` empties `properties`/`default_values` of the fresh object
  let start : PA := { name := "", props := [], stride := [], defaults := [], consts := [],
                      nReal := 0, outputs := [] }
  let r := pa.props.foldl (fun (acc : Option PA) c =>
    match acc with
    | none => none
    | some a => a.addProperty c.name c.ctype (some (pa.defaultOf c.name)) (some c.data)
                  (pa.strideOf c.name)) (some { start with name := pa.name })
  match r with
  | none => none
  | some a =>
    let r2 := pa.consts.foldl (fun (acc : Option PA) c =>
      match acc with
      | none => none
      | some a => a.addConstant c.1 c.2) (some a)
    match r2 with
    | none => none
    | some a2 => some { a2 with nReal := (pa.tags.filter (· == localTag)).length }

end PysphVerif.PArray

/-! ## the state machine over a pool of arrays

`State` is a list of arrays addressed by position.  `Op` lists the public
operations; `validOp` is the decidable reading of "valid arguments" in the
property statement (what the docstrings require: data lengths that are
multiples of the stride and equal for all given properties, a property is
re-added only with its own stride, `tag` is never removed, cross-array copies
between properties of equal stride).  `applyOp` performs a valid operation and
leaves the state unchanged otherwise (and when the Python code raises). -/
namespace PysphVerif.PArray

abbrev State := List PA

inductive Op where
  | addParticles (s : Nat) (align : Bool) (given : List (String × List Int))
  | removeParticles (s : Nat) (indices : List Nat) (align : Bool)
  | removeTagged (s : Nat) (tag : Int) (align : Bool)
  | extend (s : Nat) (k : Nat)
  | resize (s : Nat) (m : Nat)
  | align (s : Nat)
  | setTag (s : Nat) (tag : Int) (indices : List Nat)
  | addProperty (s : Nat) (name ctype : String) (dflt : Option Int) (data : Option (List Int))
      (stride : Nat)
  | removeProperty (s : Nat) (name : String)
  | addConstant (s : Nat) (name : String) (data : List Int)
  | setProp (s : Nat) (name : String) (data : List Int)
  | setOutputs (s : Nat) (props : List String)
  | addOutputs (s : Nat) (props : List String)
  | emptyClone (s : Nat) (props : Option (List String))          -- result appended to the pool
  | extract (s : Nat) (indices : List Nat) (align : Bool) (props : Option (List String))
  | extractInto (s dest : Nat) (indices : List Nat) (align : Bool) (props : Option (List String))
  | append (s src : Nat) (align updConsts : Bool)
  | ensure (s src : Nat) (props : Option (List String))
  | pickle (s : Nat)                                              -- result appended to the pool
  | new (name : String)                                           -- `ParticleArray(name=…)`
  deriving Repr

def setAt (st : State) (k : Nat) (r : Option PA) : State :=
  match r with
  | some pa => st.set k pa
  | none => st

def pushOpt (st : State) (r : Option PA) : State :=
  match r with
  | some pa => st ++ [pa]
  | none => st

/-- same stride for the named properties in two arrays -/
def sameStrides (a b : PA) (names : List String) : Bool :=
  names.all (fun nm => a.strideOf nm == b.strideOf nm)

def validOp (st : State) : Op → Bool
  | .addParticles s _ given =>
    match st[s]? with
    | some pa =>
      match given.getLast? with
      | none => true
      | some (ln, ld) =>
        let k := ld.length / pa.strideOf ln
        given.all (fun g => pa.hasProp g.1 && g.2.length == k * pa.strideOf g.1) &&
        (given.map (·.1)).Nodup
    | none => false
  | .addProperty s name _ _ data stride =>
    match st[s]? with
    | some pa =>
      stride ≥ 1 && (!pa.hasProp name || stride == 1 || stride == pa.strideOf name) &&
      (pa.hasProp name || stride == 1 || !(pa.stride.any (fun p => p.1 == name))) &&
      (match data with
       | none => true
       | some d => d.length % (if pa.hasProp name then pa.strideOf name else stride) == 0 &&
                   (pa.n == 0 || d.length == 0 || !pa.hasProp name ||
                    d.length == pa.n * pa.strideOf name) &&
                   (!(pa.n == 0) || !pa.hasProp name || stride == pa.strideOf name || d.length == 0))
    | none => false
  | .removeProperty s name => (st[s]?).isSome && name != "tag"
  | .extractInto s dest _ _ props =>
    match st[s]?, st[dest]? with
    | some pa, some d =>
      s != dest &&
      sameStrides pa d (match props with | some ps => ps | none => pa.props.map Col.name)
    | _, _ => false
  | .append s src _ _ =>
    match st[s]?, st[src]? with
    | some pa, some sp => s != src && sameStrides pa sp (sp.props.map Col.name) &&
        sp.props.all (fun c => !(pa.consts.any (fun k => k.1 == c.name)))
    | _, _ => false
  | .ensure s src _ => (st[s]?).isSome && (st[src]?).isSome
  | .removeParticles s _ _ | .removeTagged s _ _ | .extend s _ | .resize s _ | .align s
  | .setTag s _ _ | .addConstant s _ _ | .setProp s _ _ | .setOutputs s _ | .addOutputs s _
  | .emptyClone s _ | .extract s _ _ _ | .pickle s => (st[s]?).isSome
  | .new _ => true

def applyOp (st : State) (op : Op) : State :=
  if !validOp st op then st else
  match op with
  | .addParticles s al given => match st[s]? with
    | some pa => setAt st s (pa.addParticles al given) | none => st
  | .removeParticles s idx al => match st[s]? with
    | some pa => setAt st s (pa.removeParticles idx al) | none => st
  | .removeTagged s t al => match st[s]? with
    | some pa => setAt st s (pa.removeTagged t al) | none => st
  | .extend s k => match st[s]? with
    | some pa => st.set s (pa.extend k) | none => st
  | .resize s m => match st[s]? with
    | some pa => st.set s (pa.resize m) | none => st
  | .align s => match st[s]? with
    | some pa => st.set s pa.align | none => st
  | .setTag s t idx => match st[s]? with
    | some pa => st.set s (pa.setTag t idx) | none => st
  | .addProperty s nm ct df da sd => match st[s]? with
    | some pa => setAt st s (pa.addProperty nm ct df da sd) | none => st
  | .removeProperty s nm => match st[s]? with
    | some pa => st.set s (pa.removeProperty nm) | none => st
  | .addConstant s nm d => match st[s]? with
    | some pa => setAt st s (pa.addConstant nm d) | none => st
  | .setProp s nm d => match st[s]? with
    | some pa => setAt st s (pa.setProp nm d) | none => st
  | .setOutputs s ps => match st[s]? with
    | some pa => setAt st s (pa.setOutputs ps) | none => st
  | .addOutputs s ps => match st[s]? with
    | some pa => setAt st s (pa.addOutputs ps) | none => st
  | .emptyClone s ps => match st[s]? with
    | some pa => pushOpt st (pa.emptyClone ps) | none => st
  | .extract s idx al ps => match st[s]? with
    | some pa => pushOpt st (pa.extract idx al ps) | none => st
  | .extractInto s d idx al ps => match st[s]?, st[d]? with
    | some pa, some dd => setAt st d (pa.extractInto idx dd al ps) | _, _ => st
  | .append s src al up => match st[s]?, st[src]? with
    | some pa, some sp => setAt st s (pa.appendParray sp al up) | _, _ => st
  | .ensure s src ps => match st[s]?, st[src]? with
    | some pa, some sp => setAt st s (pa.ensureProperties sp ps) | _, _ => st
  | .pickle s => match st[s]? with
    | some pa => pushOpt st pa.pickle | none => st
  | .new nm => st ++ [PA.empty nm]

/-- every state reachable from the empty pool -/
def run (ops : List Op) : State := ops.foldl applyOp []

end PysphVerif.PArray
