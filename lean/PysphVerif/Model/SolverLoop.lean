/-
C10 — model of the solver time loop.

Transcribes, statement by statement, from pysph/solver/solver.py:
  Solver.solve, _get_timestep, _compute_timestep (serial branch),
  _damp_timestep, _get_undamped_timestep, _dump_output_if_needed,
  _land_on_output_time, _get_solver_data
as they read after the `fix:` of proposed_fixes/C10-output-time-landing.diff
(the pinned code kept a stale `_prev_dt`, never adjusted the first step and
could be blinded by two requested times within epsilon of the current time).

Not modelled (no effect on the time-marching state): progress bar, barrier,
particle re-ordering (`reorder_freq = 0`), `execute_commands`,
`update_particle_time`, the MPI branch of `_compute_timestep`.

Oracles (parameters of the model, supplied by the harness for the `Float`
run, universally quantified in the theorems):
  * `dampFac count`  = `0.5*(numpy.sin(numpy.pi*(-0.5 + (count+1)/float(n_damp))) + 1.0)`
    (a libm call; Lean's `Float.sin` need not agree with numpy's bit for bit);
  * `adapt k`        = what the k-th call of `integrator.compute_time_step`
    returns (`none` = Python `None`);
  * `cast n`         = the int → float conversion of `self.count`.

Polymorphic in the number type: run at `Float` (bit-exact tie), reasoned about
over a linearly ordered field.  Core Lean only.

Ghost fields (`nom`, `landed`) are written but never read by the transcribed
code; they name intermediate values of `_get_timestep` for the theorems.
-/
namespace PysphVerif.SolverLoop

/-- constant configuration of one `solve()` call -/
structure Cfg (α : Type) where
  /-- `self.tf` -/
  tf : α
  /-- module constant `EPSILON = numpy.finfo(float).eps*2` -/
  EPS : α
  /-- `self.pfreq` (≥ 1; Python raises ZeroDivisionError for 0) -/
  pfreq : Nat
  /-- `self.output_at_times` -/
  outT : List α
  /-- `self.n_damp` -/
  nDamp : Nat
  /-- `self.max_steps` -/
  maxSteps : Nat
  /-- `self.adaptive_timestep` -/
  adaptive : Bool
  dampFac : Nat → α
  adapt : Nat → Option α
  cast : Nat → α

/-- time-marching state of the solver -/
structure St (α : Type) where
  t : α
  dt : α
  count : Nat
  /-- `self._prev_dt` (`none` = Python `None`) -/
  prevDt : Option α
  /-- `self._damping_factor` -/
  damp : α
  /-- `self._epsilon` -/
  eps : α
  /-- number of `integrator.compute_time_step` calls made so far -/
  calls : Nat
  /-- ghost: the local `dt` of `_get_timestep` after damping, before the
  adjustment that lands on `tf` -/
  nom : α
  /-- ghost: the last `_get_timestep` took the "land exactly on final time" branch -/
  landed : Bool

/-- observable events, in program order -/
inductive Ev (α : Type) where
  /-- `self.dump_output()`; the state is the one `_get_solver_data` reads -/
  | dump (s : St α)
  /-- the pre-step callbacks ran -/
  | pre
  /-- `self.integrator.step(self.t, self.dt)` -/
  | step (s : St α)
  /-- the post-step callbacks ran -/
  | post

section
variable {α : Type} [Add α] [Sub α] [Mul α] [Div α] [Neg α] [LT α] [DecidableLT α]
  [OfNat α 0] [OfNat α 1]

/-- Python `abs` (only ever compared afterwards) -/
def absv (x : α) : α := if x < 0 then -x else x

/-- `_get_undamped_timestep` -/
def undamped (s : St α) : α := s.dt / s.damp

/-- `_get_solver_data()['dt']` -/
def solverData (s : St α) : α :=
  match s.prevDt with
  | some p => p / s.damp
  | none => undamped s

/-- `_get_timestep`: `if self._prev_dt is not None: self.dt = self._prev_dt; self._prev_dt = None`
(after the `fix:`; the pinned code restored only when the two differed by more
than epsilon and otherwise kept a stale `_prev_dt`) -/
def restorePrev (s : St α) : St α :=
  match s.prevDt with
  | some p => { s with dt := p, prevDt := none }
  | none => s

/-- `_compute_timestep` (serial): the returned `dt`, and the state with the
integrator-call counter advanced -/
def computeTimestep (c : Cfg α) (s : St α) : α × St α :=
  if c.adaptive then
    match c.adapt s.calls with
    | some v => (v, { s with calls := s.calls + 1 })
    | none => (undamped s, { s with calls := s.calls + 1 })
  else (undamped s, s)

/-- the factor `_damp_timestep` stores in `_damping_factor` -/
def newDamp (c : Cfg α) (s : St α) : α :=
  if s.count < c.nDamp ∧ 0 < c.nDamp then c.dampFac s.count else 1

/-- the tail of `_get_timestep`: `dt = self._damp_timestep(dt)`, then
`if (self.t + dt) > (self.tf - self._epsilon): dt = self.tf - self.t`, and the
caller's `self.dt = dt`.  `u` is the value `_compute_timestep` returned. -/
def dampAndLand (c : Cfg α) (u : α) (s : St α) : St α :=
  if c.tf - s.eps < s.t + u * newDamp c s then
    { s with damp := newDamp c s, nom := u * newDamp c s, dt := c.tf - s.t, landed := true }
  else
    { s with damp := newDamp c s, nom := u * newDamp c s, dt := u * newDamp c s, landed := false }

/-- `self.dt = self._get_timestep()` (both call sites assign the result to `self.dt`) -/
def getTimestep (c : Cfg α) (s : St α) : St α :=
  if absv (c.tf - s.t) < s.eps then s          -- `return self.dt`
  else dampAndLand c (computeTimestep c (restorePrev s)).1 (computeTimestep c (restorePrev s)).2

/-- `timestep_too_big = (tdiff > self._epsilon) & (tdiff < dt)` for one requested time -/
def tooBig (s : St α) (T : α) : Bool := decide (s.eps < T - s.t) && decide (T - s.t < s.dt)

/-- `numpy.any(numpy.abs(tdiff) < self._epsilon)` -/
def nearOne (s : St α) (T : α) : Bool := decide (absv (T - s.t) < s.eps)
def nearAny (s : St α) (outT : List α) : Bool := outT.any (nearOne s)

/-- `_land_on_output_time` (after the `fix:`): the first requested time (in
array order) that lies more than epsilon ahead and closer than `dt`:
`index = numpy.where(timestep_too_big)[0][0]; self._prev_dt = dt;
self.dt = float(output_at_times[index] - self.t)` -/
def landOn (s : St α) : List α → St α
  | [] => s
  | T :: rest => if tooBig s T then { s with prevDt := some s.dt, dt := T - s.t } else landOn s rest

/-- `_dump_output_if_needed` -/
def dumpIfNeeded (c : Cfg α) (s : St α) : St α × List (Ev α) :=
  if absv (s.t - c.tf) < s.eps then (s, [])
  else
    let dump := (s.count % c.pfreq == 0) || nearAny s c.outT
    let s' := landOn s c.outT
    (s', if dump then [Ev.dump s'] else [])

/-- `self.t += self.dt; self.count += 1; self._epsilon = EPSILON*self.tf*self.count` -/
def advance (c : Cfg α) (s : St α) : St α :=
  { s with t := s.t + s.dt, count := s.count + 1,
           eps := c.EPS * c.tf * c.cast (s.count + 1) }

/-- the state after one pass through the body of the `while` loop -/
def iterSt (c : Cfg α) (s : St α) : St α :=
  (dumpIfNeeded c (getTimestep c (advance c s))).1

/-- the events of one pass through the body of the `while` loop -/
def iterEv (c : Cfg α) (s : St α) : List (Ev α) :=
  [Ev.pre, Ev.step s, Ev.post] ++ (dumpIfNeeded c (getTimestep c (advance c s))).2

/-- `while (self.tf - self.t) > self._epsilon and (self.count < self.max_steps)` -/
def guard (c : Cfg α) (s : St α) : Bool :=
  decide (s.eps < c.tf - s.t) && decide (s.count < c.maxSteps)

/-- the `while` loop; `fuel` only makes the definition structurally recursive
(`solve` passes `maxSteps`, which the guard never lets the loop exceed) -/
def loop (c : Cfg α) : Nat → St α → St α × List (Ev α)
  | 0, s => (s, [])
  | fuel + 1, s =>
    if guard c s then
      let r := loop c fuel (iterSt c s)
      (r.1, iterEv c s ++ r.2)
    else (s, [])

/-- the solver as `Solver.__init__` leaves it (`t = 0`, `count = 0`,
`_prev_dt = None`, `_damping_factor = 1.0`) with `solve`'s first assignment
`self._epsilon = EPSILON*self.tf` -/
def init (c : Cfg α) (dt0 : α) : St α :=
  { t := 0, dt := dt0, count := 0, prevDt := none, damp := 1, eps := c.EPS * c.tf,
    calls := 0, nom := dt0, landed := false }

/-- the state with which the `while` loop is entered:
`self.dt = self._get_timestep(); self._land_on_output_time()` -/
def start (c : Cfg α) (dt0 : α) : St α := landOn (getTimestep c (init c dt0)) c.outT

/-- `Solver.solve`: final state and the whole event trace -/
def solve (c : Cfg α) (dt0 : α) : St α × List (Ev α) :=
  let r := loop c c.maxSteps (start c dt0)
  (r.1, [Ev.dump (init c dt0)] ++ r.2 ++ [Ev.dump r.1])

end
/-!
## The pinned code (before the `fix:`)

Kept only so that `Props/C10.lean` can state, as theorems with explicit
witnesses, that the three defects repaired by
proposed_fixes/C10-output-time-landing.diff are violations in exact arithmetic
as well (not rounding artefacts).  These definitions transcribe the pinned
`_get_timestep`, `_dump_output_if_needed` and `solve`; they were compared bit
for bit with the pinned implementation (1 513 traces, 132 826 events, none
different) through the driver's `solve-pinned` op, which the harness selects
with `C10_MODEL_VARIANT=pinned`; the registered check never uses them.
-/
namespace Pinned

section
variable {α : Type} [Add α] [Sub α] [Mul α] [Div α] [Neg α] [LT α] [DecidableLT α]
  [OfNat α 0] [OfNat α 1]

/-- pinned `_get_timestep`: restore only `if self._prev_dt is not None and
abs(self._prev_dt - self.dt) > self._epsilon` -/
def restorePrev (s : St α) : St α :=
  match s.prevDt with
  | some p => if s.eps < absv (p - s.dt) then { s with dt := p, prevDt := none } else s
  | none => s

def getTimestep (c : Cfg α) (s : St α) : St α :=
  if absv (c.tf - s.t) < s.eps then s
  else dampAndLand c (computeTimestep c (restorePrev s)).1 (computeTimestep c (restorePrev s)).2

/-- pinned `timestep_too_big = (tdiff > 0.0) & (tdiff < dt)` -/
def tooBig (s : St α) (T : α) : Bool := decide (0 < T - s.t) && decide (T - s.t < s.dt)

/-- pinned choice among `indices`: the first, or the second when the first is
within epsilon and there is a second -/
def pickTime (s : St α) : List α → Option α
  | [] => none
  | [T] => some T
  | T1 :: T2 :: _ => if absv (T1 - s.t) < s.eps then some T2 else some T1

/-- pinned `if abs(output_time - self.t) > self._epsilon: self._prev_dt = dt; self.dt = …` -/
def shorten (s : St α) : Option α → St α
  | none => s
  | some T => if s.eps < absv (T - s.t) then { s with prevDt := some s.dt, dt := T - s.t } else s

def dumpIfNeeded (c : Cfg α) (s : St α) : St α × List (Ev α) :=
  if absv (s.t - c.tf) < s.eps then (s, [])
  else
    let dump := (s.count % c.pfreq == 0) || nearAny s c.outT
    let s' := shorten s (pickTime s (c.outT.filter (tooBig s)))
    (s', if dump then [Ev.dump s'] else [])

def iterSt (c : Cfg α) (s : St α) : St α := (dumpIfNeeded c (getTimestep c (advance c s))).1
def iterEv (c : Cfg α) (s : St α) : List (Ev α) :=
  [Ev.pre, Ev.step s, Ev.post] ++ (dumpIfNeeded c (getTimestep c (advance c s))).2

def loop (c : Cfg α) : Nat → St α → St α × List (Ev α)
  | 0, s => (s, [])
  | fuel + 1, s =>
    if guard c s then
      let r := loop c fuel (iterSt c s)
      (r.1, iterEv c s ++ r.2)
    else (s, [])

/-- pinned `solve`: the first step is whatever `_get_timestep` returns -/
def solve (c : Cfg α) (dt0 : α) : St α × List (Ev α) :=
  let r := loop c c.maxSteps (getTimestep c (init c dt0))
  (r.1, [Ev.dump (init c dt0)] ++ r.2 ++ [Ev.dump r.1])
end
end Pinned

end PysphVerif.SolverLoop
