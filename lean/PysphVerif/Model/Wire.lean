/-
Wire format helpers for the line protocol between the Python harness and the
Lean model driver.  Core Lean only (no Mathlib) so that the driver links.

* rationals travel as `p/q` or `p` (decimal integers, optional leading `-`)
* doubles travel as 16 hex digits of their IEEE bit pattern (`xHHHH…`)
* lists are comma separated; the empty list is `_`
-/
namespace PysphVerif.Wire

def parseInt? (s : String) : Option Int := s.toInt?

def parseNat? (s : String) : Option Nat := s.toNat?

def parseRat? (s : String) : Option Rat :=
  match s.splitOn "/" with
  | [p] => (parseInt? p).map (fun n => (n : Rat))
  | [p, q] => do
      let n ← parseInt? p
      let d ← parseNat? q
      if d = 0 then none else some (mkRat n d)
  | _ => none

def showRat (r : Rat) : String :=
  if r.den = 1 then toString r.num else s!"{r.num}/{r.den}"

def hexDigit? (c : Char) : Option Nat :=
  if '0' ≤ c ∧ c ≤ '9' then some (c.toNat - '0'.toNat)
  else if 'a' ≤ c ∧ c ≤ 'f' then some (c.toNat - 'a'.toNat + 10)
  else if 'A' ≤ c ∧ c ≤ 'F' then some (c.toNat - 'A'.toNat + 10)
  else none

def parseHex? (s : String) : Option Nat :=
  if s.isEmpty then none else
  s.toList.foldl (fun acc c => do
    let a ← acc
    let d ← hexDigit? c
    pure (a * 16 + d)) (some 0)

/-- `xHHHHHHHHHHHHHHHH` → Float with that bit pattern. -/
def parseFloatBits? (s : String) : Option Float :=
  match s.toList with
  | 'x' :: rest => (parseHex? (String.ofList rest)).map (fun n => Float.ofBits n.toUInt64)
  | _ => none

def hexOfNat (n : Nat) (digits : Nat) : String :=
  let rec go (k : Nat) (n : Nat) (acc : List Char) : List Char :=
    match k with
    | 0 => acc
    | k+1 =>
      let d := n % 16
      let c := if d < 10 then Char.ofNat ('0'.toNat + d) else Char.ofNat ('a'.toNat + d - 10)
      go k (n / 16) (c :: acc)
  String.ofList (go digits n [])

def showFloatBits (f : Float) : String := "x" ++ hexOfNat f.toBits.toNat 16

def parseList? {α} (p : String → Option α) (s : String) : Option (List α) :=
  if s = "_" then some [] else (s.splitOn ",").mapM p

def showList {α} (sh : α → String) (l : List α) : String :=
  if l.isEmpty then "_" else ",".intercalate (l.map sh)

/-- split a line on single blanks, dropping empty tokens -/
def tokens (line : String) : List String :=
  (line.trimAscii.toString.splitOn " ").filter (· ≠ "")

/-- `key=value` tokens into an association list -/
def kvs (toks : List String) : List (String × String) :=
  toks.filterMap (fun t => match t.splitOn "=" with
    | [k, v] => some (k, v)
    | _ => none)

def lookup (kv : List (String × String)) (k : String) : Option String :=
  (kv.find? (·.1 = k)).map (·.2)

end PysphVerif.Wire
