/-
C15 — support definitions for the generated model `Gen/Riemann.lean`
(translation of `pysph/sph/gas_dynamics/riemann_solver.py`).

Core Lean only.  The generated definitions are polymorphic in the number type
`α` through the core classes `Add Sub Mul Div Neg NatCast LT LE` (+ decidable
comparisons); the three operations that are not field operations travel in an
`Ops α` record so that the same text is *run* at `Float` (`floatOps`) and
*reasoned about* over an ordered field with an abstract `sqrt`/`pow`.

Python semantics transcribed here:
* `max(a, b)` returns `b` only when `b > a`; `min(a, b)` returns `b` only when
  `b < a` (this fixes the NaN / signed-zero behaviour too);
* a solver writes `result[0], result[1]` and returns an `int`; a function
  that falls off its end returns `None`, encoded as code `-1`.
-/
namespace PysphVerif.Riemann

/-- the non-field operations the solvers use: `math.sqrt`, `**`, `abs` -/
structure Ops (α : Type) where
  sqrt : α → α
  pow : α → α → α
  abs : α → α

/-- what a solver leaves behind: the return code and `result[0:2]` -/
structure Res (α : Type) where
  code : Int
  r0 : α
  r1 : α

/-- Python `None` as a return code -/
def codeNone : Int := -1

section
variable {α : Type} [LT α] [DecidableLT α]

/-- Python `max(a, b)` -/
def pymax (a b : α) : α := if a < b then b else a
/-- Python `min(a, b)` -/
def pymin (a b : α) : α := if b < a then b else a
end

/-- `float(n)` for the integer and dyadic literals of the source -/
instance : NatCast Float := ⟨Float.ofNat⟩

/-- IEEE double instance used by the driver -/
def floatOps : Ops Float := ⟨Float.sqrt, Float.pow, Float.abs⟩

end PysphVerif.Riemann
