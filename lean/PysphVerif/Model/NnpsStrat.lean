import PysphVerif.Model.NnpsZOrder
/-
C01 — the stratified classes: StratifiedHashNNPS and StratifiedSFCNNPS as they are in the tree
now (after the `fix:` commits 80a08e4, e6756a6, d4481f1, 5a8837a, d2cb9a8).

Transcribes
  pysph/base/stratified_hash_nnps.pyx :
    _refresh            (interval_size = (cell_size - hmin)/num_levels + EPS, one HashTable per
                         array and level)
    _get_hash_id        (level of a particle: floor((radius_scale*h - hmin)/interval_size))
    _set_h_max / _get_h_max (per-level cell size: the UPPER END of the level's interval,
                         stored divided by radius_scale and multiplied back)
    _bin                (particle hashed at its level by its cell of size h_max(level)/H)
    find_nearest_neighbors (for every non-empty level: mask half-width
                         ceil(fmax(radius_scale*h, h_max(level))*H/h_max(level)), `_neighbor_boxes`
                         = the mask cells with non-negative coordinates, chain lookup)
  pysph/base/stratified_sfc_nnps.pyx :
    _get_level          (num_levels - min(num_levels, ceil(log2((cell_size+EPS)/radius_scale/h))))
    fill_array          (cell sizes cell_size/2^(num_levels-1-level), keys
                         (level << max_num_bits) + get_key(cell at the particle's level), sorted;
                         key_to_idx per level)
    _cell_hmax, _get_H, _neighbor_boxes_asym
    _fill_nbr_boxes     (one segment of nbr_boxes per (level, key of the finest-level cell), made
                         by whoever comes first: the array's own particles in sorted order, then
                         the particles of the other arrays)
    find_nearest_neighbors (segment of (level of q, finest-level key of q); walk every run)
The chained hash table is `HTable` of Model/NnpsStore.lean.  Core Lean only.
-/
namespace PysphVerif.Nnps

/-! ## StratifiedHashNNPS -/

section hashstore
variable {α : Type} [LT α] [DecidableLT α]

/-- what `_bin` adds to the table of level `l`: the particles of that level, in index order, with
their cell at that level's cell size -/
def stratItems (n : Nat) (levelOf : Nat → Nat) (cellAtL : Nat → Nat → Cell) (hAt : Nat → α)
    (l : Nat) : List (Cell × Nat × α) :=
  ((List.range n).filter (fun i => levelOf i = l)).map (fun i => (cellAtL l i, i, hAt i))

/-- `_neighbor_boxes(i, j, k, x, y, z, H)`: the mask cells `±H` with non-negative coordinates -/
def stratBoxes (Hq : Nat) (cq : Cell) : List Cell :=
  ((hMaskExact Hq).map (Cell.add cq)).filter nonnegCell

/-- one iteration of `for i in range(self.num_levels)` in `find_nearest_neighbors`:
`if hash_level.number_of_particles() == 0: continue`, else all boxes of the level's mask -/
def stratLevelCands (hash : Cell → Nat) (n : Nat) (levelOf : Nat → Nat)
    (cellAtL : Nat → Nat → Cell) (hAt : Nat → α) (Hq : Nat → Nat) (cq : Nat → Cell) (l : Nat) :
    List Nat :=
  if (stratItems n levelOf cellAtL hAt l).isEmpty then []
  else (stratBoxes (Hq l) (cq l)).flatMap
    (HTable.indices hash (HTable.build hash (stratItems n levelOf cellAtL hAt l)))

/-- candidates of `StratifiedHashNNPS.find_nearest_neighbors` for given level / cell / mask
functions, in visiting order -/
def stratHashCandsGen (hash : Cell → Nat) (L n : Nat) (levelOf : Nat → Nat)
    (cellAtL : Nat → Nat → Cell) (hAt : Nat → α) (Hq : Nat → Nat) (cq : Nat → Cell) : List Nat :=
  (List.range L).flatMap (stratLevelCands hash n levelOf cellAtL hAt Hq cq)

end hashstore

section hashnum
variable {α : Type} [Add α] [Sub α] [Mul α] [Div α] [LT α] [DecidableLT α] [OfNat α 1] [NatCast α]

/-- `self.interval_size = (self.cell_size - self.hmin)/self.num_levels + EPS` (`hmin` is already
`radius_scale*min h`) -/
def stratInterval (cs hmin eps : α) (L : Nat) : α := (cs - hmin) / (L : α) + eps

/-- `_get_hash_id(h)`: `<int> floor((radius_scale*h - hmin)/interval_size)` (used as an index) -/
def stratLevel (fl : α → Int) (rs hmin ivl h : α) : Nat := (fl ((rs * h - hmin) / ivl)).toNat

/-- `_set_h_max`: `current_cells[idx] = (hmin + (idx + 1)*interval_size)/radius_scale` -/
def stratCell (rs hmin ivl : α) (l : Nat) : α := (hmin + ((l : α) + 1) * ivl) / rs

/-- `_get_h_max(current_cells, idx)`: `radius_scale*current_cells[idx]` -/
def stratHmaxLevel (rs hmin ivl : α) (l : Nat) : α := rs * stratCell rs hmin ivl l

/-- `H = <int> ceil(fmax(radius_scale*h, hmax_level)*self.H/hmax_level)` -/
def stratHq (cl : α → Int) (rs hmin ivl : α) (H : Nat) (hq : α) (l : Nat) : Nat :=
  (cl (fmaxA (rs * hq) (stratHmaxLevel rs hmin ivl l) * (H : α) / stratHmaxLevel rs hmin ivl l)).toNat

/-- **StratifiedHashNNPS**: candidates for destination particle `q` against source array `src`
(`o` = `xmin`, `cs` = `cell_size`, `hmin` = `self.hmin`, `eps` = 1e-6, `L` = `num_levels`) -/
def stratHashCands (fl cl : α → Int) (hash : Cell → Nat) (rs cs hmin eps : α) (L H : Nat)
    (o : Pt α) (src : List (Pt α)) (q : Pt α) [OfNat α 0] : List Nat :=
  let ivl := stratInterval cs hmin eps L
  stratHashCandsGen hash L src.length
    (fun j => stratLevel fl rs hmin ivl (hAtOf src j))
    (fun l j => cellAtOf fl (stratHmaxLevel rs hmin ivl l / (H : α)) o src j)
    (hAtOf src) (stratHq cl rs hmin ivl H q.h)
    (fun l => cell3 fl (stratHmaxLevel rs hmin ivl l / (H : α)) o q)

end hashnum

/-! ## StratifiedSFCNNPS (asymmetric mode — the only one the constructor can select:
`__cinit__` does not take the `asymmetric` keyword) -/

/-- one particle array as `fill_array` sees it: the level of every particle (`_get_level(h)`), its
integer cell at EVERY level's cell size (`find_cell_id_raw(x - xmin, radius_scale*current_cells[k])`),
and the pids in the order `compare_sort` left them -/
structure SIn where
  n : Nat
  levelOf : Nat → Nat
  cellAtL : Nat → Nat → Cell
  pids : List Nat

/-- after `fill_array`: `keys` are the sorted full keys, `maxKey` is `max_keys[pa_index]` -/
structure SArr where
  n : Nat
  levelOf : Nat → Nat
  cellAtL : Nat → Nat → Cell
  pids : List Nat
  keys : List Nat
  maxKey : Nat

/-- `get_key(c_x, c_y, c_z)` of the cell at the particle's own level (`key & strip_mask`) -/
def sfcSkey (levelOf : Nat → Nat) (cellAtL : Nat → Nat → Cell) (p : Nat) : Nat :=
  zKey (cellAtL (levelOf p) p)
/-- `current_keys[i] = level_padded + key`, `level_padded = level << max_num_bits` -/
def sfcFkey (B : Nat) (levelOf : Nat → Nat) (cellAtL : Nat → Nat → Cell) (p : Nat) : Nat :=
  levelOf p * 2 ^ B + sfcSkey levelOf cellAtL p

def SArr.skey (a : SArr) (p : Nat) : Nat := sfcSkey a.levelOf a.cellAtL p
def SArr.fkey (B : Nat) (a : SArr) (p : Nat) : Nat := sfcFkey B a.levelOf a.cellAtL p

/-- `fill_array`: keys, `max_key = 1 + max over the particles of the key without level bits` -/
def sfcFill (B : Nat) (inp : SIn) : SArr :=
  { n := inp.n, levelOf := inp.levelOf, cellAtL := inp.cellAtL, pids := inp.pids,
    keys := inp.pids.map (sfcFkey B inp.levelOf inp.cellAtL),
    maxKey := (List.range inp.n).foldl (fun m i => max m (sfcSkey inp.levelOf inp.cellAtL i)) 0 + 1 }

/-- `get_idx(key, max_key, key_to_idx[level])`: -1 for `key >= max_key`, else the entry the loop
over the sorted keys wrote at the run start with these level bits and this stripped key (for
stripped keys below `2^max_num_bits` that is the first position of the full key) -/
def SArr.getIdx (B : Nat) (a : SArr) (l ks : Nat) : Option Nat :=
  if a.maxKey ≤ ks then none else firstIdx a.keys (l * 2 ^ B + ks)

section sfc
variable {α : Type} [Mul α] [Div α] [LT α] [DecidableLT α] [OfNat α 0] [DecidableEq α]

/-- one array's part of `_cell_hmax(level, key)`: `fmax` over the run of that level and key -/
def sfcCellHmaxArr (B : Nat) (a : SArr) (hAt : Nat → α) (l ks : Nat) (m : α) : α :=
  match a.getIdx B l ks with
  | none => m
  | some j => ((a.pids.drop j).takeWhile (fun p => decide (a.fkey B p = l * 2 ^ B + ks))).foldl
      (fun m p => fmaxA m (hAt p)) m

/-- `_cell_hmax(level, key)`: largest `h` among the particles of all arrays binned at that level
in that cell -/
def sfcCellHmax (B : Nat) (ah : List (SArr × (Nat → α))) (l ks : Nat) : α :=
  ah.foldl (fun m x => sfcCellHmaxArr B x.1 x.2 l ks m) 0

/-- the segment of `nbr_boxes` made for one representative particle: for every level `k`
(`if current_cells[k] == 0: continue`) `_neighbor_boxes_asym` around the representative's cell at
level `k` with `H = _get_H(hmax_cell, current_cells[k]) = ceil(hmax_cell/current_cells[k])` -/
def sfcSegment (cl : α → Int) (B L : Nat) (cells : Nat → α) (a : SArr) (hmaxCell : α)
    (repCell : Nat → Cell) : List Nat :=
  (List.range L).flatMap (fun k =>
    if cells k = 0 then []
    else (((maskZ (cl (hmaxCell / cells k)).toNat).map (Cell.add (repCell k))).filter
      nonnegCell).filterMap (fun b => a.getIdx B k (zKey b)))

/-- the segment a writer (array, pid) makes in the tables of source array `a` -/
def sfcWriterSeg (cl : α → Int) (B L : Nat) (cells : Nat → α) (ah : List (SArr × (Nat → α)))
    (a : SArr) (w : SArr × Nat) : List Nat :=
  sfcSegment cl B L cells a (sfcCellHmax B ah (w.1.levelOf w.2) (w.1.skey w.2))
    (fun k => w.1.cellAtL k w.2)

/-- `key_to_nbr_idx[level][key_bottom]` / `key_to_nbr_length[…]` together with the slice of
`nbr_boxes` they point at: `none` is -1.  A writer only writes where nothing was written
(`if current_key_to_nbr_idx_level[key_bottom] == -1` / `!= -1: continue`) -/
def sfcTabStep (seg : SArr × Nat → List Nat) (tbl : Nat → Nat → Option (List Nat))
    (w : SArr × Nat) : Nat → Nat → Option (List Nat) :=
  fun l k =>
    if l = w.1.levelOf w.2 ∧ k = zKey (w.1.cellAtL 0 w.2) then
      (match tbl l k with
       | some sg => some sg
       | none => some (seg w))
    else tbl l k

/-- the order in which `_fill_nbr_boxes` meets the representatives for source array `s`: its own
particles in sorted order, then those of the other arrays in array order -/
def sfcWriters (as : List SArr) (s : Nat) (a : SArr) : List (SArr × Nat) :=
  a.pids.map (fun p => (a, p)) ++
    ((List.range as.length).filter (fun d => d ≠ s)).flatMap (fun d =>
      match as[d]? with
      | some o => o.pids.map (fun p => (o, p))
      | none => [])

def sfcTable (seg : SArr × Nat → List Nat) (as : List SArr) (s : Nat) (a : SArr) :
    Nat → Nat → Option (List Nat) :=
  (sfcWriters as s a).foldl (sfcTabStep seg) (fun _ _ => none)

/-- `while idx < num_particles and self.current_keys[idx] == key: pid = current_pids[idx]` -/
def sfcRun (B : Nat) (a : SArr) (start : Nat) : List Nat :=
  (a.pids.drop start).takeWhile (fun p => decide (a.fkey B p = a.keys.getD start 0))

/-- **StratifiedSFCNNPS**: candidates of `find_nearest_neighbors(i)` with context (s, d); `hs` are
the smoothing lengths per array, `cells k` is `current_cells[k]` (cell size of level `k` divided by
`radius_scale`) -/
def sfcCands (cl : α → Int) (B L : Nat) (cells : Nat → α) (ins : List SIn) (hs : List (Nat → α))
    (s d i : Nat) : List Nat :=
  let as := ins.map (sfcFill B)
  match as[s]?, as[d]? with
  | some a, some b =>
    if a.pids.isEmpty then []
    else
      match sfcTable (sfcWriterSeg cl B L cells (as.zip hs) a) as s a (b.levelOf i)
          (zKey (b.cellAtL 0 i)) with
      | none => []
      | some sg => sg.flatMap (sfcRun B a)
  | _, _ => []

end sfc

/-! ### the level function and cell sizes of StratifiedSFCNNPS (exact-arithmetic reading) -/
section sfcnum
variable {α : Type} [Add α] [Mul α] [Div α] [LT α] [DecidableLT α] [OfNat α 1] [OfNat α 2]

def pow2 : Nat → α
  | 0 => 1
  | n + 1 => 2 * pow2 n

def ceilLog2Aux (r : α) : Nat → Nat → Nat
  | 0, m => m
  | fuel + 1, m => if (pow2 m : α) < r then ceilLog2Aux r fuel (m + 1) else m

/-- `ceil(log2(r))` for `r > 0` read exactly: the least natural `m` with `r ≤ 2^m` (0 for
`r ≤ 1`; the code only meets `r > 1`), searched up to 64 -/
def ceilLog2 (r : α) : Nat := ceilLog2Aux r 64 0

/-- `_get_level` as it was before its `fix:` commit:
`num_levels - min(num_levels, ceil(log2((cell_size + EPS)/radius_scale/h)))`
(kept for the counterexample `sfc_level_eps_sliver`) -/
def sfcLevelOf (rs cs eps : α) (L : Nat) (h : α) : Nat := L - min L (ceilLog2 ((cs + eps) / rs / h))

/-- `_get_level` of the code (repaired by the `fix:` commit, see
`proposed_fixes/C01-stratsfc-level-eps.diff`):
`num_levels - min(num_levels, fmax(1, ceil(log2(cell_size/radius_scale/h))))` -/
def sfcLevelOfFixed (rs cs : α) (L : Nat) (h : α) : Nat := L - min L (max 1 (ceilLog2 (cs / rs / h)))

/-- `current_cells[k] = (cell_size/radius_scale)/2**(num_levels - k - 1)` -/
def sfcCell (rs cs : α) (L k : Nat) : α := (cs / rs) / pow2 (L - k - 1)

/-- a particle array given by its points, for `sfcCands`: `lev` is the level as a function of `h`,
`size k` the cell size of level `k` -/
def sInOfPtsGen [Sub α] [OfNat α 0] (fl : α → Int) (size : Nat → α) (lev : α → Nat) (o : Pt α)
    (srt : (Nat → Nat) → Nat → List Nat) (B : Nat) (arr : List (Pt α)) : SIn :=
  { n := arr.length,
    levelOf := fun j => lev (hAtOf arr j),
    cellAtL := fun k j => cellAtOf fl (size k) o arr j,
    pids := srt (sfcFkey B (fun j => lev (hAtOf arr j)) (fun k j => cellAtOf fl (size k) o arr j))
      arr.length }

/-- … with the cell sizes of the code and the level function before its repair -/
def sInOfPts [Sub α] [OfNat α 0] (fl : α → Int) (rs cs eps : α) (L : Nat) (o : Pt α)
    (srt : (Nat → Nat) → Nat → List Nat) (B : Nat) (arr : List (Pt α)) : SIn :=
  sInOfPtsGen fl (fun k => rs * sfcCell rs cs L k) (sfcLevelOf rs cs eps L) o srt B arr

/-- … with the cell sizes and the level function of the code -/
def sInOfPtsFixed [Sub α] [OfNat α 0] (fl : α → Int) (rs cs : α) (L : Nat) (o : Pt α)
    (srt : (Nat → Nat) → Nat → List Nat) (B : Nat) (arr : List (Pt α)) : SIn :=
  sInOfPtsGen fl (fun k => rs * sfcCell rs cs L k) (sfcLevelOfFixed rs cs L) o srt B arr

end sfcnum

end PysphVerif.Nnps
