/-
C13 — model of the small dense linear-algebra helpers.

Transcribes, statement by statement, pysph/sph/wc/linalg.py :
  identity, dot, mat_mult, mat_vec_mult, augmented_matrix, gj_solve
on flat row-major arrays with the index arithmetic of the source
(`a[n*i + j]`, `m[nt*row + col]`).

`gjSolve` is the REPAIRED `gj_solve` (proposed_fixes/C13-gj-pivot.diff: the
search for the largest pivot and a real exchange of whole rows happen inside
the elimination loop).  `gjSolveOrig` keeps the pinned code's pre-pass, in which
`bigrow = row` is assigned before the "swap", so that one element is exchanged
with itself and no row ever moves (DESIGN §7 F5); it shares the elimination and
back-substitution with `gjSolve`.

Polymorphic in the number type: *run* at `Float` (bit-exact tie to the Python
code: `+ * / neg abs < ==` are the IEEE operations in both) and *reasoned about*
over a linearly ordered field.  The literal `1e-12` (both occurrences) is the
parameter `tol`.  Python lists are `Array`s; an index outside the array (Python:
IndexError) does not occur when `n*(n+nb) ≤ len(m)` and `n*nb ≤ len(result)`,
which `sizesOk` states and the driver checks.  Core Lean only.
-/
namespace PysphVerif.GaussJordan

section
variable {α : Type} [Add α] [Mul α] [Div α] [Neg α] [OfNat α 0] [OfNat α 1]
  [LT α] [DecidableLT α] [BEq α]

/-- `a[i]` -/
def rd (a : Array α) (i : Nat) : α := a.getD i 0
/-- `a[i] = v` -/
def wr (a : Array α) (i : Nat) (v : α) : Array α := a.setIfInBounds i v

/-- Python `abs` on floats -/
def absv (x : α) : α := if x < 0 then -x else x

/-! ### identity, dot, mat_mult, mat_vec_mult, augmented_matrix -/

/-- body of `for j in range(n)` in `identity` -/
def identityCell (n i : Nat) (a : Array α) (j : Nat) : Array α :=
  if i = j then wr a (n*i + j) 1 else wr a (n*i + j) 0
/-- body of `for i in range(n)` in `identity` -/
def identityRow (n : Nat) (a : Array α) (i : Nat) : Array α :=
  (List.range n).foldl (identityCell n i) a
/-- `identity(a, n)` -/
def identity (a : Array α) (n : Nat) : Array α :=
  (List.range n).foldl (identityRow n) a

/-- `result += a[i]*b[i]` -/
def dotStep (a b : Array α) (s : α) (i : Nat) : α := s + rd a i * rd b i
/-- `dot(a, b, n)` -/
def dot (a b : Array α) (n : Nat) : α := (List.range n).foldl (dotStep a b) 0

/-- `s += a[n*i + j] * b[n*j + k]` -/
def mmStep (a b : Array α) (n i k : Nat) (s : α) (j : Nat) : α :=
  s + rd a (n*i + j) * rd b (n*j + k)
/-- body of `for k in range(n)` in `mat_mult` -/
def mmCell (a b : Array α) (n i : Nat) (r : Array α) (k : Nat) : Array α :=
  wr r (n*i + k) ((List.range n).foldl (mmStep a b n i k) 0)
def mmRow (a b : Array α) (n : Nat) (r : Array α) (i : Nat) : Array α :=
  (List.range n).foldl (mmCell a b n i) r
/-- `mat_mult(a, b, n, result)` -/
def matMult (a b : Array α) (n : Nat) (result : Array α) : Array α :=
  (List.range n).foldl (mmRow a b n) result

/-- `s += a[n*i + j] * b[j]` -/
def mvStep (a b : Array α) (n i : Nat) (s : α) (j : Nat) : α :=
  s + rd a (n*i + j) * rd b j
def mvRow (a b : Array α) (n : Nat) (r : Array α) (i : Nat) : Array α :=
  wr r i ((List.range n).foldl (mvStep a b n i) 0)
/-- `mat_vec_mult(a, b, n, result)` -/
def matVecMult (a b : Array α) (n : Nat) (result : Array α) : Array α :=
  (List.range n).foldl (mvRow a b n) result

/-- `result[nt*i + j] = A[nmax * i + j]` -/
def augA (A : Array α) (nmax nt i : Nat) (r : Array α) (j : Nat) : Array α :=
  wr r (nt*i + j) (rd A (nmax*i + j))
/-- `result[nt*i + n + j] = b[na*i + j]` -/
def augB (b : Array α) (n na nt i : Nat) (r : Array α) (j : Nat) : Array α :=
  wr r (nt*i + n + j) (rd b (na*i + j))
def augRow (A b : Array α) (n na nmax : Nat) (r : Array α) (i : Nat) : Array α :=
  (List.range na).foldl (augB b n na (n + na) i)
    ((List.range n).foldl (augA A nmax (n + na) i) r)
/-- `augmented_matrix(A, b, n, na, nmax, result)` -/
def augmentedMatrix (A b : Array α) (n na nmax : Nat) (result : Array α) : Array α :=
  (List.range n).foldl (augRow A b n na nmax) result

/-! ### gj_solve -/

/-- `if abs(m[nt*row + col]) > abs(m[nt*bigrow + col]): bigrow = row` -/
def pivotStep (m : Array α) (nt col : Nat) (bigrow row : Nat) : Nat :=
  if absv (rd m (nt*bigrow + col)) < absv (rd m (nt*row + col)) then row else bigrow
/-- `bigrow = col; for row in range(col + 1, colrange): …` -/
def pivotRow (m : Array α) (nt n col : Nat) : Nat :=
  (List.range' (col + 1) (n - (col + 1))).foldl (pivotStep m nt col) col

/-- `temp = m[nt*r1 + j]; m[nt*r1 + j] = m[nt*r2 + j]; m[nt*r2 + j] = temp` -/
def swapStep (nt r1 r2 : Nat) (m : Array α) (j : Nat) : Array α :=
  let temp := rd m (nt*r1 + j)
  let m1 := wr m (nt*r1 + j) (rd m (nt*r2 + j))
  wr m1 (nt*r2 + j) temp
/-- `if bigrow != rrcol: for j in range(augCol): <swapStep>` -/
def swapRows (nt augCol r1 r2 : Nat) (m : Array α) : Array α :=
  if r2 = r1 then m else (List.range augCol).foldl (swapStep nt r1 r2) m

/-- `m[nt*rr + j] = m[nt*rr + j] + cc * m[nt*rrcol + j]` -/
def axpyStep (nt rr rrcol : Nat) (cc : α) (m : Array α) (j : Nat) : Array α :=
  wr m (nt*rr + j) (rd m (nt*rr + j) + cc * rd m (nt*rrcol + j))
def axpyRow (nt augCol rr rrcol : Nat) (cc : α) (m : Array α) : Array α :=
  (List.range augCol).foldl (axpyStep nt rr rrcol cc) m

/-- body of `for rr in range(rrcol + 1, eqns)`; `none` = `return 1.0` taken -/
def elimStep (tol : α) (nt augCol rrcol : Nat) (st : Option (Array α)) (rr : Nat) :
    Option (Array α) :=
  match st with
  | none => none
  | some m =>
    let dnr := rd m (nt*rrcol + rrcol)
    if absv dnr < tol then none
    else
      let cc := -(rd m (nt*rr + rrcol)) / dnr
      some (axpyRow nt augCol rr rrcol cc m)

def elimBelow (tol : α) (n nt augCol rrcol : Nat) (m : Array α) : Option (Array α) :=
  (List.range' (rrcol + 1) (n - (rrcol + 1))).foldl (elimStep tol nt augCol rrcol) (some m)

/-- body of `for rrcol in range(0, colrange)` of the repaired code:
pivot search, row exchange, elimination below the pivot -/
def fwdStep (tol : α) (n nb : Nat) (st : Option (Array α)) (rrcol : Nat) : Option (Array α) :=
  match st with
  | none => none
  | some m =>
    let nt := n + nb
    let bigrow := pivotRow m nt n rrcol
    let m1 := swapRows nt nt rrcol bigrow m
    elimBelow tol n nt nt rrcol m1

/-- forward elimination of the repaired code -/
def forward (tol : α) (n nb : Nat) (m : Array α) : Option (Array α) :=
  (List.range n).foldl (fwdStep tol n nb) (some m)

/-- body of `for rrcol …` of the pinned code (no pivoting inside the loop) -/
def fwdStepOrig (tol : α) (n nb : Nat) (st : Option (Array α)) (rrcol : Nat) :
    Option (Array α) :=
  match st with
  | none => none
  | some m => elimBelow tol n (n + nb) (n + nb) rrcol m

/-- inner body of the pinned code's pre-pass: `bigrow = row` comes first, so
`m[nt*row+col]` is exchanged with itself -/
def prepassStep (nt col : Nat) (st : Nat × Array α) (row : Nat) : Nat × Array α :=
  let (bigrow, m) := st
  if absv (rd m (nt*bigrow + col)) < absv (rd m (nt*row + col)) then
    let bigrow := row
    let temp := rd m (nt*row + col)
    let m1 := wr m (nt*row + col) (rd m (nt*bigrow + col))
    (bigrow, wr m1 (nt*bigrow + col) temp)
  else (bigrow, m)
def prepassCol (n nt : Nat) (m : Array α) (col : Nat) : Array α :=
  ((List.range' (col + 1) (n - (col + 1))).foldl (prepassStep nt col) (col, m)).2
/-- the pinned code's "pivoting" pre-pass -/
def prepass (n nt : Nat) (m : Array α) : Array α :=
  (List.range n).foldl (prepassCol n nt) m

/-- `m[nt*rb + backCol] = m[nt*rb + backCol] / m[nt*rb + rb]`, `backCol` descending -/
def scaleStep (nt augCol rb : Nat) (m : Array α) (backColr : Nat) : Array α :=
  let backCol := rb + augCol - backColr - 1
  wr m (nt*rb + backCol) (rd m (nt*rb + backCol) / rd m (nt*rb + rb))
def scaleRow (nt augCol rb : Nat) (m : Array α) : Array α :=
  (List.range' rb (augCol - rb)).foldl (scaleStep nt augCol rb) m

/-- `kk = -m[nt*kup + rb] / m[nt*rb + rb]; m[nt*kup + kleft] += kk*m[nt*rb + kleft]` -/
def upStep (nt augCol rb kup : Nat) (m : Array α) (kleftr : Nat) : Array α :=
  let kleft := rb + augCol - kleftr - 1
  let kk := -(rd m (nt*kup + rb)) / rd m (nt*rb + rb)
  wr m (nt*kup + kleft) (rd m (nt*kup + kleft) + kk * rd m (nt*rb + kleft))
/-- body of `for kupr in range(rb)` -/
def upRow (nt augCol rb : Nat) (m : Array α) (kupr : Nat) : Array α :=
  let kup := rb - kupr - 1
  (List.range' rb (augCol - rb)).foldl (upStep nt augCol rb kup) m
def upAll (nt augCol rb : Nat) (m : Array α) : Array α :=
  if rb = 0 then m else (List.range rb).foldl (upRow nt augCol rb) m

/-- body of `for rbr in range(eqns)`; `none` = `return 1.0` (singular) -/
def backStep (tol : α) (n nb : Nat) (st : Option (Array α)) (rbr : Nat) : Option (Array α) :=
  match st with
  | none => none
  | some m =>
    let nt := n + nb
    let augCol := n + nb
    let rb := n - rbr - 1
    if rd m (nt*rb + rb) == 0 then
      if tol < absv (rd m (nt*rb + augCol - 1)) then none else some m
    else
      some (upAll nt augCol rb (scaleRow nt augCol rb m))

def backSubst (tol : α) (n nb : Nat) (m : Array α) : Option (Array α) :=
  (List.range n).foldl (backStep tol n nb) (some m)

/-- `result[nb*i + j] = m[nt*i + n + j]` -/
def copyCell (m : Array α) (n nb i : Nat) (r : Array α) (j : Nat) : Array α :=
  wr r (nb*i + j) (rd m ((n + nb)*i + n + j))
def copyRow (m : Array α) (n nb : Nat) (r : Array α) (i : Nat) : Array α :=
  (List.range nb).foldl (copyCell m n nb i) r
def copyOut (m : Array α) (n nb : Nat) (result : Array α) : Array α :=
  (List.range n).foldl (copyRow m n nb) result

/-- what `gj_solve` leaves behind: the return value (`false` = `0.0`, `true` =
`1.0`), the augmented matrix `m` as mutated (when it got to the end), `result` -/
structure Outcome (α : Type) where
  singular : Bool
  m : Option (Array α)
  result : Array α

def finish (tol : α) (n nb : Nat) (fw : Option (Array α)) (result : Array α) : Outcome α :=
  match fw with
  | none => ⟨true, none, result⟩
  | some m1 =>
    match backSubst tol n nb m1 with
    | none => ⟨true, none, result⟩
    | some m2 => ⟨false, some m2, copyOut m2 n nb result⟩

/-- `gj_solve(m, n, nb, result)` — repaired code -/
def gjSolve (tol : α) (m : Array α) (n nb : Nat) (result : Array α) : Outcome α :=
  finish tol n nb (forward tol n nb m) result

/-- `gj_solve(m, n, nb, result)` — pinned code (pre-pass that moves nothing) -/
def gjSolveOrig (tol : α) (m : Array α) (n nb : Nat) (result : Array α) : Outcome α :=
  finish tol n nb ((List.range n).foldl (fwdStepOrig tol n nb) (some (prepass n (n + nb) m))) result

/-- the arrays are large enough for every index the code touches -/
def sizesOk (m : Array α) (n nb : Nat) (result : Array α) : Bool :=
  decide (n * (n + nb) ≤ m.size) && decide (n * nb ≤ result.size)

end
end PysphVerif.GaussJordan
