import PysphVerif.Model.Nnps
/-
C01 — who owns the memory a neighbour query writes to.

Transcribes
  cyarray/carray.pyx : UIntArray.c_set_view (`_old_data = data` on the first view,
      `data = array; length = n`), c_reset (`length = 0`, `data = _old_data` when a view),
      `length = 0` (what `prealloc=True` does), c_append (`data[length] = v; length += 1`)
  pysph/base/nnps_base.pyx : NeighborCache.get_neighbors_raw (fill on a miss, then
      `nbrs.c_set_view(&neighbors[tid].data[start], end - start)`: the caller's array becomes a
      VIEW of the cache's per-thread buffer, nothing is copied),
      NNPSBase.get_nearest_particles_no_cache (`if prealloc: nbrs.length = 0 else: nbrs.c_reset()`,
      then `find_nearest_neighbors(d_idx, nbrs)` appends), NNPS.get_nearest_particles (cached or
      not by `use_cache`), NNPS.set_use_cache / NeighborCache.update (reset)

State: any number of neighbour caches (one per NNPS object and (dst, src) pair, numbered) and any
number of caller-side output arrays.  An output array either uses its own buffer or is a view into
a buffer of one cache.  `find c d` is what `find_nearest_neighbors` appends for destination `d` in
the context of cache `c` (an (object, dst, src) triple).  Core Lean only.
-/
namespace PysphVerif.Nnps

/-- a caller's `UIntArray nbrs` -/
structure Scratch where
  /-- contents of the array's own buffer -/
  own : List Nat
  /-- `_old_data != NULL`: `data` points into buffer `t` of cache `c` at offset `off` -/
  view : Option (Nat × Nat × Nat)
  length : Nat

def Scratch.fresh : Scratch := { own := [], view := none, length := 0 }

structure AState where
  caches : Nat → Cache
  arrs : Nat → Scratch

def AState.init : AState := { caches := fun _ => Cache.reset, arrs := fun _ => Scratch.fresh }

/-- the calls a user of the query API can make -/
inductive AOp where
  /-- `get_nearest_particles` with the cache on / `NeighborCache.get_neighbors`:
  cache `c`, destination `d`, output array `a` -/
  | cached (c d a : Nat)
  /-- `get_nearest_particles_no_cache(…, prealloc = !detach)` (also `get_nearest_particles` with
  the cache off: `detach = true`) in the context `c`, destination `d`, output array `a` -/
  | direct (detach : Bool) (c d a : Nat)
  /-- `set_use_cache(True)` / `update()` of an object whose caches are numbered `lo … hi-1` -/
  | reset (lo hi : Nat)

/-- `memcpy` of `f` to `buf[off …]` (a write past the end extends the list: the model of a buffer
whose allocation is larger than its length) -/
def writeAt (buf : List Nat) (off : Nat) (f : List Nat) : List Nat :=
  buf.take off ++ f ++ buf.drop (off + f.length)

/-- what the caller reads: `nbrs.data[0 … length)` -/
def AState.read (s : AState) (a : Nat) : List Nat :=
  match (s.arrs a).view with
  | none => (s.arrs a).own.take (s.arrs a).length
  | some (c, t, off) => (((s.caches c).bufs t).drop off).take (s.arrs a).length

/-- `get_neighbors_raw(d, nbrs)` on cache `c` -/
def stepCached (find : Nat → Nat → List Nat) (s : AState) (c d a : Nat) : AState :=
  let C' := Cache.fillGuarded (find c) (s.caches c) (0, d)
  { caches := fun e => if e = c then C' else s.caches e,
    arrs := fun b => if b = a then
        { own := (s.arrs a).own, view := some (c, C'.tid d, C'.start d),
          length := C'.stop d - C'.start d }
      else s.arrs b }

/-- the array after `c_reset()` (`detach`) or `length = 0` -/
def emptied (detach : Bool) (A : Scratch) : Scratch :=
  if detach then { own := A.own, view := none, length := 0 }
  else { own := A.own, view := A.view, length := 0 }

/-- `get_nearest_particles_no_cache`: empty the array, then append `find c d` to wherever its
`data` pointer points -/
def stepDirect (find : Nat → Nat → List Nat) (s : AState) (detach : Bool) (c d a : Nat) : AState :=
  let A := emptied detach (s.arrs a)
  let f := find c d
  match A.view with
  | none =>
    { caches := s.caches,
      arrs := fun b => if b = a then { own := f, view := none, length := f.length } else s.arrs b }
  | some (c', t, off) =>
    { caches := fun e => if e = c' then
          { bufs := fun u => if u = t then writeAt ((s.caches c').bufs t) off f
                             else (s.caches c').bufs u,
            start := (s.caches c').start, stop := (s.caches c').stop, tid := (s.caches c').tid,
            cached := (s.caches c').cached }
        else s.caches e,
      arrs := fun b => if b = a then { own := A.own, view := A.view, length := f.length }
                       else s.arrs b }

def stepReset (s : AState) (lo hi : Nat) : AState :=
  { caches := fun e => if lo ≤ e ∧ e < hi then Cache.reset else s.caches e, arrs := s.arrs }

/-- one call: new state and what the caller reads from the output array right after it -/
def AState.step (find : Nat → Nat → List Nat) (s : AState) : AOp → AState × List Nat
  | AOp.cached c d a => (stepCached find s c d a, (stepCached find s c d a).read a)
  | AOp.direct detach c d a =>
    (stepDirect find s detach c d a, (stepDirect find s detach c d a).read a)
  | AOp.reset lo hi => (stepReset s lo hi, [])

/-- a whole history: final state and the list read after every call -/
def AState.run (find : Nat → Nat → List Nat) : AState → List AOp → AState × List (List Nat)
  | s, [] => (s, [])
  | s, op :: ops =>
    let r := s.step find op
    let rest := AState.run find r.1 ops
    (rest.1, r.2 :: rest.2)

/-- what the property demands of each call -/
def AOp.expected (find : Nat → Nat → List Nat) : AOp → List Nat
  | AOp.cached c d _ => find c d
  | AOp.direct _ c d _ => find c d
  | AOp.reset _ _ => []

/-- a call is safe when it is not "keep the pointer (`prealloc`) on an array that is a view":
`prealloc = True` promises that the caller pre-allocated the array -/
def AOp.safe (s : AState) : AOp → Bool
  | AOp.direct false _ _ a => (s.arrs a).view.isNone
  | _ => true

/-- every call of the history is safe in the state it is made in -/
def AState.safeRun (find : Nat → Nat → List Nat) : AState → List AOp → Bool
  | _, [] => true
  | s, op :: ops => op.safe s && AState.safeRun find (s.step find op).1 ops

end PysphVerif.Nnps
