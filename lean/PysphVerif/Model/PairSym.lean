/-
C09 — support definitions for the generated model `Gen/C09Equations.lean`
(translation of the `loop` bodies of the pair-symmetric momentum equations and
of the precomputed-symbol code blocks of `pysph/sph/equation.py`).

Core Lean only (the driver links against it).  Generated definitions are
polymorphic in the number type `α` through the core classes
`Add Sub Mul Div Neg NatCast LT LE` (+ decidable comparisons); the operations
that are not field operations travel in an `Ops α` record and the SPH kernel in
a `Kern α` record, so that the same text is *run* at `Float` and *reasoned
about* over an ordered field with abstract `sqrt/abs/pow` and an abstract
kernel (C08 is about the kernels; C09 needs only the shape of the gradient).

Python semantics transcribed here:
* `max(a, b)` returns `b` only when `b > a`; `min(a, b)` returns `b` only when
  `b < a`.
-/
namespace PysphVerif.PairSym

/-- the non-field operations the loop bodies use: `sqrt`, `abs`, `pow` -/
structure Ops (α : Type) where
  sqrt : α → α
  abs : α → α
  pow : α → α → α

/-- The kernel object as the generated group code uses it:
`KERNEL(XIJ, r, h)`, `GRADIENT(XIJ, r, h, out)` (three components),
`DWDQ(r, h)`, `GRADH(XIJ, r, h)` and the constant `DELTAP`. -/
structure Kern (α : Type) where
  kernel : α → α → α → α → α → α
  gx : α → α → α → α → α → α
  gy : α → α → α → α → α → α
  gz : α → α → α → α → α → α
  dwdq : α → α → α
  gradh : α → α → α → α → α → α
  deltap : α

section
variable {α : Type} [LT α] [DecidableLT α]

/-- Python `max(a, b)` -/
def pymax (a b : α) : α := if a < b then b else a
/-- Python `min(a, b)` -/
def pymin (a b : α) : α := if b < a then b else a
end

/-- `float(n)` for the integer literals of the source (scoped: only where
`PysphVerif.PairSym` is opened) -/
scoped instance instNatCastFloat : NatCast Float := ⟨Float.ofNat⟩

/-- IEEE double instance used by the driver -/
def floatOps : Ops Float := ⟨Float.sqrt, Float.abs, Float.pow⟩

/-- safe positional access used by the generated dispatchers (lengths are
checked before any access, the default is never observed) -/
def nth {α : Type} (z : α) (l : List α) (i : Nat) : α := l.getD i z

end PysphVerif.PairSym
