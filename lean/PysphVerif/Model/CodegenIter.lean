import PysphVerif.Model.Codegen
/-!
# C02 model, part 3 — iterated groups and the binding of the array wrappers

Core Lean only.  Two pieces of `pysph/sph` that decide *how often* the methods of a
group run and *into which ParticleArray objects* the generated `compute` reads and writes:

* §8 iterated groups: `Group.get_converged_condition` (equation.py),
  `AccelerationEvalCythonHelper.get_iteration_init` / `get_iteration_check` and the
  position of the two in the template (`while True:` around the whole group);
* §9 `ParticleArrayWrapper.__init__` / `set_array` and
  `AccelerationEval.update_particle_arrays` (acceleration_eval_cython.mako).
-/
namespace PysphVerif.Codegen

/-! ## 8. iterated groups -/

/-- what the generator can see of an equation object when it writes the break test:
its `var_name`, and whether `converged` is found in the `__dict__` of the object's OWN
class (`ownDict`) — the pinned generator does not look at the latter. -/
structure ConvEq where
  var : Name
  ownDict : Bool
  deriving Repr, DecidableEq

/-- a top-level group: a group of equations, or a parent of sub-groups -/
inductive IterGroup where
  | leaf (eqs : List ConvEq)
  | parent (subs : List (List ConvEq))
  deriving Repr

/-- the equation objects of a group, sub-groups included, in order -/
def IterGroup.equations : IterGroup → List ConvEq
  | .leaf eqs => eqs
  | .parent subs => subs.flatten

/-- `'(self.%s.converged() > 0)' % equation.var_name` -/
def convFactor (v : Name) : String := "(self." ++ v ++ ".converged() > 0)"

/-- `Group.get_converged_condition` of a group of equations: `for equation in
self.equations: code.append(...)`, `' & '.join(code)` — the names polled -/
def polledLeaf (eqs : List ConvEq) : List Name := eqs.map (·.var)

/-- `Group.get_converged_condition`: with sub-groups,
`' & '.join(g.get_converged_condition() for g in self.equations)` -/
def polled : IterGroup → List Name
  | .leaf eqs => polledLeaf eqs
  | .parent subs => (subs.map polledLeaf).flatten

/-- the text of the condition (for groups whose sub-groups all hold equations) -/
def convergedCondition (g : IterGroup) : String :=
  " & ".intercalate ((polled g).map convFactor)

/-- a generator that polls only the equations whose own class `__dict__` defines
`converged` (NOT the pinned code: the variant the theorems below separate it from) -/
def polledOwnDict (g : IterGroup) : List Name :=
  (g.equations.filter (·.ownDict)).map (·.var)

/-- value of the convergence factor after a sweep: `&` evaluates every operand;
`st v` = "`self.v.converged() > 0`" -/
def allConverged (names : List Name) (st : Name → Bool) : Bool :=
  names.all st

/-- the generated loop (`get_iteration_init`, the group's text, `get_iteration_check`):
```
_iteration_count = 1
while True:
    <group>
    if ((_iteration_count >= min_iterations)
       and (<cond> or (_iteration_count == max_iterations))):
        _iteration_count = 1; break
    _iteration_count += 1
```
`conv k` = value of `<cond>` after sweep `k`; result = number of sweeps made
(`none`: the fuel ran out). -/
def iterateFrom (fuel mn mx : Nat) (conv : Nat → Bool) (count : Nat) : Option Nat :=
  match fuel with
  | 0 => none
  | fuel + 1 =>
    if mn ≤ count ∧ (conv count = true ∨ count = mx) then some count
    else iterateFrom fuel mn mx conv (count + 1)

/-- sweeps of an iterated group with `1 ≤ max_iterations` -/
def sweeps (mn mx : Nat) (conv : Nat → Bool) : Option Nat :=
  iterateFrom mx mn mx conv 1

/-- sweeps of a group whose equations' `converged()` after sweep `k` are `st k` -/
def groupSweeps (names : List Name) (mn mx : Nat) (st : Nat → Name → Bool) : Option Nat :=
  sweeps mn mx (fun k => allConverged names (st k))

/-! ## 9. which ParticleArray the wrapper attributes refer into -/

/-- a `ParticleArray` object as `set_array` sees it: identity, property names,
constant names -/
structure PArrObj where
  id : Nat
  props : List Name
  consts : List Name
  deriving Repr

/-- a `ParticleArrayWrapper`: attribute name ↦ identity of the ParticleArray whose
carray the attribute holds (`none`: attribute never set) -/
abbrev Wrapper := Name → Option Nat

/-- `setattr(self, prop, pa.get_carray(prop))` -/
def bindAttr (w : Wrapper) (n : Name) (pa : Nat) : Wrapper :=
  fun k => if k = n then some pa else w k

def bindAll (w : Wrapper) (names : List Name) (pa : Nat) : Wrapper :=
  names.foldl (fun w n => bindAttr w n pa) w

/-- `ParticleArrayWrapper.set_array(pa)`: the properties ∪ {tag, pid, gid}, then the
constants -/
def setArray (w : Wrapper) (pa : PArrObj) : Wrapper :=
  bindAll (bindAll w (pa.props ++ ["tag", "pid", "gid"]) pa.id) pa.consts pa.id

/-- `ParticleArrayWrapper.__init__(pa, index)`: `self.set_array(pa)` -/
def initWrapper (pa : PArrObj) : Wrapper := setArray (fun _ => none) pa

/-- `AccelerationEval.update_particle_arrays` for one name: `getattr(self, name).set_array(pa)` -/
def rebindHistory (first : PArrObj) (later : List PArrObj) : Wrapper :=
  later.foldl setArray (initWrapper first)

/-- a wrapper that binds the constants in `__init__` only (NOT the pinned code) -/
def setArrayPropsOnly (w : Wrapper) (pa : PArrObj) : Wrapper :=
  bindAll w (pa.props ++ ["tag", "pid", "gid"]) pa.id

def rebindHistoryConstsOnce (first : PArrObj) (later : List PArrObj) : Wrapper :=
  later.foldl setArrayPropsOnly (initWrapper first)

end PysphVerif.Codegen
