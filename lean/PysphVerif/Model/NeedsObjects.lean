import PysphVerif.Model.NeedsCodegen
/-
C20 — object identity in the set-up API of the integrator.

  pysph/sph/integrator.py : Integrator.__init__(self, **kw): `self.steppers = kw`
  pysph/sph/integrator_cython_helper.py :
      get_array_declarations   `for dest in self.object.steppers:` … check
      get_array_setup(dest, m) `n = dst.<n[2:]>.data`
      get_stepper_init         `self.<dest>_stepper = Cls(**steppers[dest].__dict__)`

A stepper OBJECT (`step = WCSPHStep()`) knows its class and its methods, not the
array it will step.  The user hands objects to KEYWORDS: `Integrator(fluid=step,
solid=step)` gives one object to two arrays, `Integrator(fluid=WCSPHStep(),
solid=WCSPHStep())` two objects of one class.  Everything the code generator does
with steppers ranges over the keywords of `self.object.steppers` — i.e. over
(array, stepper) PAIRS — never over the distinct objects: one compiled stepper
per keyword, one pointer set-up per keyword, and therefore one property check per
keyword.  `StepperSetup.pairs` is that expansion; the `Stepper` records of
`Model/Needs.lean` are its elements.

`checkSetupPerObject` is NOT the code: it is the reading "a shared stepper has
the same arguments, check it once", kept here so that `Props/C20.lean` can state
why it is wrong (`per_object_check_incomplete`) and exactly when it differs
(`per_object_check_agrees_when_unshared`).

Core Lean only.
-/
namespace PysphVerif.Needs

/-- a stepper object as the user creates it -/
structure StepObj where
  /-- `stepper.__class__.__name__` -/
  cls : Name
  /-- attributes `x.startswith('stage') or x == 'initialize'` with their arguments -/
  methods : List (Name × List Name)
  /-- `x[3:]` for `x.startswith('py_stage')` -/
  pyStages : List Name
  deriving Repr

/-- the object seen from the keyword `dest` it was given to: `steppers[dest]` -/
def StepObj.on (o : StepObj) (dest : Name) : Stepper :=
  { dest := dest, cls := o.cls, methods := o.methods, pyStages := o.pyStages }

/-- `Integrator(**kw)`: the distinct stepper objects, and for every keyword (in
keyword order) which object it was given; two keywords with the same index were
given one and the same object -/
structure StepperSetup where
  objs : List StepObj
  kw : List (Name × Nat)
  deriving Repr

/-- every keyword refers to an object (always so in Python) -/
def StepperSetup.wf (s : StepperSetup) : Bool :=
  s.kw.all (fun k => decide (k.2 < s.objs.length))

def pairOf (objs : List StepObj) (k : Name × Nat) : Option Stepper :=
  (objs[k.2]?).map (fun o => o.on k.1)

/-- `self.object.steppers.items()`: the (array, stepper) pairs -/
def pairsOf (objs : List StepObj) (kw : List (Name × Nat)) : List Stepper :=
  kw.filterMap (pairOf objs)

def StepperSetup.pairs (s : StepperSetup) : List Stepper := pairsOf s.objs s.kw

/-- the code: `_check_integrator_steppers`, then for every wrapped method
`for dest in self.object.steppers: … self._check_arrays_for_properties(dest, s | d)` -/
def checkSetup (arrs : List PArr) (s : StepperSetup) : SVerdict :=
  checkSteppers arrs s.pairs

/-- the pointers the generated integrator binds: `get_array_setup(dest, method)`
is rendered once per keyword -/
def setupBindings (s : StepperSetup) : List (Name × Name × Name) :=
  stepperBindings s.pairs

/-- the keywords that are the FIRST to carry their object (`seen`: objects met
under earlier keywords) -/
def firstPerObject : List Nat → List (Name × Nat) → List (Name × Nat)
  | _, [] => []
  | seen, k :: rest =>
    if seen.contains k.2 then firstPerObject seen rest
    else k :: firstPerObject (k.2 :: seen) rest

/-- NOT the code: the property check run once per stepper object (under the first
keyword that carries it) instead of once per keyword; names, wrapped methods and
bindings as in the code -/
def checkSetupPerObject (arrs : List PArr) (s : StepperSetup) : SVerdict :=
  match checkStepperNames arrs s.pairs with
  | SVerdict.ok =>
    firstSError (checkStepperDecl arrs (pairsOf s.objs (firstPerObject [] s.kw)))
      (wrapperNames s.pairs)
  | v => v

end PysphVerif.Needs
