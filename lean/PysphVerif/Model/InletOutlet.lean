/-
C16 — model of the inlet/outlet bookkeeping.

Transcribes, statement by statement,
  pysph/sph/bc/inlet_outlet_manager.py : IOEvaluate.initialize/loop,
      InletBase.update, OutletBase.update   (families donothing, mod_donothing,
      characteristic, mirror-inlet, hybrid-outlet: their Inlet/Outlet classes
      are empty subclasses)
  pysph/sph/bc/hybrid/inlet.py  : Inlet.update   (uref averaging + the same body)
  pysph/sph/bc/mirror/outlet.py : Outlet.update, Outlet._get_ghost_xyz
  pysph/base/particle_array.pyx : extract_particles, remove_particles,
      add_particles, align_particles, `pa.<prop>` (the real-particle view
      `_get_real_particle_prop`), get_property_arrays(only_real=True)
  cyarray BaseArray.remove / c_align_array / copy_values (third party, modelled
      as in Model/PArray.lean: swap-with-last from the largest index down,
      gather through an index array)

A particle array is the list of its particles (records); a record carries the
properties the bookkeeping reads or writes (`x y z u disp ioid tag`) and two
passive integer properties (`lbl`, `pay`) standing for "all the other
properties" — the harness stores a unique label in `lbl`.

Polymorphic in the number type: run at `Float` (bit-exact tie) and at `Rat`
(exact, dyadic geometry), reasoned about for every `α`.  Core Lean only.
-/
namespace PysphVerif.InletOutlet

structure Particle (α : Type) where
  x : α
  y : α
  z : α
  u : α
  disp : α
  ioid : Int
  tag : Int
  lbl : Int
  pay : Int
  deriving Repr, DecidableEq

/-- the `props` list of `extract_particles` restricted to the modelled
properties: `true` = the property is in the list -/
structure Mask where
  x : Bool
  y : Bool
  z : Bool
  u : Bool
  disp : Bool
  ioid : Bool
  tag : Bool
  lbl : Bool
  pay : Bool
  deriving Repr, DecidableEq

/-- `props=None`: every property of the source -/
def Mask.all : Mask := ⟨true, true, true, true, true, true, true, true, true⟩

/-- interface plane and zone: refpoint, outward normal, zone length, the
literal `0.000001` of `IOEvaluate.loop`, and `IOEvaluate`'s default
`maxdist=1000.0` used for the fluid array -/
structure Zone (α : Type) where
  px : α
  py : α
  pz : α
  nx : α
  ny : α
  nz : α
  len : α
  eps : α
  big : α
  deriving Repr

/-! ## ParticleArray pieces (generic in the row type) -/

/-- cyarray `remove`, one index: overwrite row `i` with the last row, shrink -/
def swapRemove {β : Type} (l : List β) (i : Nat) : List β :=
  if i < l.length then
    match l.getLast? with
    | some last => (l.set i last).dropLast
    | none => l
  else l

/-- cyarray `remove(sorted_indices, input_sorted=1, stride)`: from the largest
index down -/
def removeRows {β : Type} (sortedIdx : List Nat) (l : List β) : List β :=
  sortedIdx.reverse.foldl swapRemove l

/-- `c_align_array` / `copy_values`: row `k` of the result is row `src[k]` -/
def gather {β : Type} (src : List Nat) (l : List β) : List β :=
  src.filterMap (fun i => l[i]?)

/-- `np.where(cond)[0]` with the running index made explicit -/
def whereFrom {β : Type} (pred : β → Bool) : Nat → List β → List Nat
  | _, [] => []
  | i, p :: ps => if pred p then i :: whereFrom pred (i + 1) ps else whereFrom pred (i + 1) ps

/-- one iteration of the index-building loop of `align_particles`;
state = (index_array so far, next_insert, num_moves) -/
def alignStep (st : List Nat × Nat × Nat) (it : Nat × Bool) : List Nat × Nat × Nat :=
  if it.2 then
    if it.1 != st.2.1 then
      -- tmp = index[next]; index[next] = i; index[i] = tmp
      ((st.1.set st.2.1 it.1) ++ [st.1.getD st.2.1 0], st.2.1 + 1, st.2.2 + 1)
    else (st.1 ++ [it.1], st.2.1 + 1, st.2.2)
  else (st.1 ++ [it.1], st.2.1, st.2.2)

/-- (index_array, num_real_particles, num_moves) from the `tag == Local` flags -/
def alignIndex (locals : List Bool) : List Nat × Nat × Nat :=
  (List.zip (List.range locals.length) locals).foldl alignStep ([], 0, 0)

section
variable {α : Type}

def isLocal (p : Particle α) : Bool := p.tag == 0

/-- `num_real_particles` as `align_particles` leaves it -/
def nReal (l : List (Particle α)) : Nat := (l.filter isLocal).length

/-- `pa.<prop>` (`__getattr__` → `_get_real_particle_prop`): the first
`num_real_particles` entries.  All mutators of ParticleArray end with
`align_particles`, so `num_real_particles` is current (C06). -/
def realView (l : List (Particle α)) : List (Particle α) := l.take (nReal l)

/-- `align_particles` -/
def align (l : List (Particle α)) : List (Particle α) :=
  if (alignIndex (l.map isLocal)).2.2 > 0 then gather (alignIndex (l.map isLocal)).1 l else l

/-- what `extract_particles(…, dest_array, props)` leaves in one new slot of
the destination: the listed properties from the source particle, the others
keep the destination's default (`dest_array.extend`) -/
def copyInto (m : Mask) (dflt p : Particle α) : Particle α :=
  { x := if m.x then p.x else dflt.x,
    y := if m.y then p.y else dflt.y,
    z := if m.z then p.z else dflt.z,
    u := if m.u then p.u else dflt.u,
    disp := if m.disp then p.disp else dflt.disp,
    ioid := if m.ioid then p.ioid else dflt.ioid,
    tag := if m.tag then p.tag else dflt.tag,
    lbl := if m.lbl then p.lbl else dflt.lbl,
    pay := if m.pay then p.pay else dflt.pay }

/-- `src.extract_particles(idx, dest_array=dst, props=…)` (align=True) -/
def extractInto (m : Mask) (dflt : Particle α) (src : List (Particle α)) (idx : List Nat)
    (dst : List (Particle α)) : List (Particle α) :=
  if idx.length = 0 then dst
  else align (dst ++ (gather idx src).map (copyInto m dflt))

/-- `pa.remove_particles(idx)` for an ascending index list (`np.where` output:
`numpy.sort` is the identity on it); `none` = raises ValueError -/
def removeParticles (idx : List Nat) (l : List (Particle α)) : Option (List (Particle α)) :=
  if idx.length > l.length then none
  else some (if idx.length > 0 then align (removeRows idx l) else removeRows idx l)

/-- `pa.add_particles(**given)` where `given` already holds whole records -/
def addParticles (given : List (Particle α)) (l : List (Particle α)) : List (Particle α) :=
  if given.length > 0 then align (l ++ given) else l ++ given

/-- `pa.x[idx] op= …` on the real-particle view: apply `f` at every listed
index; `none` = numpy IndexError (an index beyond the view) -/
def modifyAt (f : Particle α → Particle α) (idx : List Nat) (l : List (Particle α)) :
    Option (List (Particle α)) :=
  if idx.all (fun i => decide (i < nReal l)) then some (idx.foldl (fun acc i => acc.modify i f) l)
  else none

def ioidIs (k : Int) (p : Particle α) : Bool := p.ioid == k

end

/-! ## numerics -/
section
variable {α : Type} [Add α] [Sub α] [Mul α] [Neg α] [LT α] [DecidableLT α]
  [OfNat α 1] [OfNat α 2]

/-- signed distance of `IOEvaluate.loop` -/
def signedDist (zn : Zone α) (p : Particle α) : α :=
  (p.x - zn.px) * zn.nx + (p.y - zn.py) * zn.ny + (p.z - zn.pz) * zn.nz

/-- the `if/elif/else` of `IOEvaluate.loop` -/
def zoneId (eps maxdist d : α) : Int :=
  if eps < d ∧ d - maxdist < eps then 1
  else if eps < d - maxdist then 2
  else 0

/-- `IOEvaluate.initialize` + `loop` for one particle (real=False: every
particle of the array) -/
def evalOne (zn : Zone α) (maxdist : α) (p : Particle α) : Particle α :=
  { p with disp := signedDist zn p, ioid := zoneId zn.eps maxdist (signedDist zn p) }

/-- `x += length*xn; y += length*yn; z += length*zn` -/
def shiftUp (zn : Zone α) (p : Particle α) : Particle α :=
  { p with x := p.x + zn.len * zn.nx, y := p.y + zn.len * zn.ny, z := p.z + zn.len * zn.nz }

/-- `x -= length*xn; …` (ghost of the inlet) -/
def shiftDown (zn : Zone α) (p : Particle α) : Particle α :=
  { p with x := p.x - zn.len * zn.nx, y := p.y - zn.len * zn.ny, z := p.z - zn.len * zn.nz }

/-- mirror `Outlet._get_ghost_xyz` followed by `pa_add.u = -1. * pa_add.u` -/
def reflect (zn : Zone α) (p : Particle α) : Particle α :=
  { p with x := p.x - 2 * signedDist zn p * zn.nx,
           y := p.y - 2 * signedDist zn p * zn.ny,
           z := p.z - 2 * signedDist zn p * zn.nz,
           u := (-1 : α) * p.u }

/-- the arrays one inlet / outlet pair works on.  `ghostIn`/`ghostOut` are
`none` when `ghost_pa is None` (a ParticleArray object is always truthy). -/
structure State (α : Type) where
  inlet : List (Particle α)
  ghostIn : Option (List (Particle α))
  fluid : List (Particle α)
  outlet : List (Particle α)
  ghostOut : Option (List (Particle α))
  /-- constants `uref` of inlet and fluid (hybrid family) -/
  urefIn : α
  urefFluid : α

/-- the part of `InletBase.update` after the `stage in active_stages` test.
`dF` = default values of the fluid array. `none` = the Python code raises. -/
def inletBody (zn : Zone α) (dF : Particle α) (s : State α) : Option (State α) :=
  -- self.io_eval.evaluate(): group 1 on the inlet (maxdist=length), group 2 on the fluid
  let inlet1 := s.inlet.map (evalOne zn zn.len)
  let fluid1 := s.fluid.map (evalOne zn zn.big)
  -- io_id = inlet_pa.ioid; all_idx = np.where(io_id == 0)[0]
  let idx := whereFrom (ioidIs 0) 0 (realView inlet1)
  -- inlet_pa.extract_particles(all_idx, dest_pa)
  let fluid2 := extractInto Mask.all dF inlet1 idx fluid1
  -- inlet_pa.x[all_idx] += self.length * self.xn ...
  match modifyAt (shiftUp zn) idx inlet1 with
  | none => none
  | some inlet2 =>
    match s.ghostIn with
    | none => some { s with inlet := inlet2, fluid := fluid2 }
    | some g =>
      -- if ghost_pa: ghost_pa.x[all_idx] -= self.length * self.xn ...
      match modifyAt (shiftDown zn) idx g with
      | none => none
      | some g2 => some { s with inlet := inlet2, fluid := fluid2, ghostIn := some g2 }

/-- `InletBase.update(time, dt, stage)`; `active` = `stage in self.active_stages` -/
def inletUpdate (zn : Zone α) (dF : Particle α) (active : Bool) (s : State α) :
    Option (State α) :=
  if active then inletBody zn dF s else some s

/-- hybrid `Inlet.update`: `dest_pa.uref[0] = 0.5*(inlet_pa.uref[0] + dest_pa.uref[0])`
on every call, then the same body -/
def hybridInletUpdate (half : α) (zn : Zone α) (dF : Particle α) (active : Bool)
    (s : State α) : Option (State α) :=
  let s1 : State α := { s with urefFluid := half * (s.urefIn + s.urefFluid) }
  if active then inletBody zn dF s1 else some s1

/-- body of `OutletBase.update`; `m` = `props_to_copy`, `dO` = default values
of the outlet array -/
def outletBody (zn : Zone α) (m : Mask) (dO : Particle α) (s : State α) : Option (State α) :=
  let outlet1 := s.outlet.map (evalOne zn zn.len)
  let fluid1 := s.fluid.map (evalOne zn zn.big)
  -- io_id = source_pa.ioid; all_idx = np.where(io_id == 1)[0]
  let idx := whereFrom (ioidIs 1) 0 (realView fluid1)
  -- source_pa.extract_particles(all_idx, dest_array=outlet_pa, props=props_to_copy)
  let outlet2 := extractInto m dO fluid1 idx outlet1
  -- source_pa.remove_particles(all_idx)
  match removeParticles idx fluid1 with
  | none => none
  | some fluid2 =>
    -- io_id = outlet_pa.ioid; all_idx = np.where(io_id == 2)[0]; outlet_pa.remove_particles
    let idx2 := whereFrom (ioidIs 2) 0 (realView outlet2)
    match removeParticles idx2 outlet2 with
    | none => none
    | some outlet3 => some { s with fluid := fluid2, outlet := outlet3 }

def outletUpdate (zn : Zone α) (m : Mask) (dO : Particle α) (active : Bool) (s : State α) :
    Option (State α) :=
  if active then outletBody zn m dO s else some s

/-- body of mirror `Outlet.update`.  `pa_add` is a fresh array holding only the
listed properties (plus `tag/pid/gid` of a new ParticleArray, tag Local);
`add_particles` fills the others with the receiving array's defaults (`dO`
for the outlet, `dG` for its ghost).  With a ghost array the reflection needs
`x y z u` among the copied properties (else AttributeError). -/
def mirrorOutletBody (zn : Zone α) (m : Mask) (dO dG : Particle α) (s : State α) :
    Option (State α) :=
  let outlet1 := s.outlet.map (evalOne zn zn.len)
  let fluid1 := s.fluid.map (evalOne zn zn.big)
  let idx := whereFrom (ioidIs 1) 0 (realView fluid1)
  -- pa_add = source_pa.extract_particles(all_idx, props=props_to_copy)   (aligned)
  let picked := gather idx fluid1
  let addO := if idx.length = 0 then []
    else realView (align (picked.map (copyInto m { dO with tag := 0 })))
  -- outlet_pa.add_particles(**pa_add.get_property_arrays())
  let outlet2 := addParticles addO outlet1
  -- if ghost_pa: if len(all_idx) > 0: reflect, negate u, ghost_pa.add_particles(...)
  let ghost2 : Option (Option (List (Particle α))) :=
    match s.ghostOut with
    | none => some none
    | some g =>
      if idx.length > 0 then
        if m.x && m.y && m.z && m.u then
          let addG := realView (align (picked.map
            (fun p => copyInto m { dG with tag := 0 } (reflect zn p))))
          some (some (addParticles addG g))
        else none
      else some (some g)
  match ghost2 with
  | none => none
  | some gh2 =>
    match removeParticles idx fluid1 with
    | none => none
    | some fluid2 =>
      let idx2 := whereFrom (ioidIs 2) 0 (realView outlet2)
      match removeParticles idx2 outlet2 with
      | none => none
      | some outlet3 =>
        match gh2 with
        | none => some { s with fluid := fluid2, outlet := outlet3 }
        | some g2 =>
          -- if ghost_pa: ghost_pa.remove_particles(all_idx)   (the SAME index list)
          match removeParticles idx2 g2 with
          | none => none
          | some g3 => some { s with fluid := fluid2, outlet := outlet3, ghostOut := some g3 }

def mirrorOutletUpdate (zn : Zone α) (m : Mask) (dO dG : Particle α) (active : Bool)
    (s : State α) : Option (State α) :=
  if active then mirrorOutletBody zn m dO dG s else some s

end

end PysphVerif.InletOutlet
