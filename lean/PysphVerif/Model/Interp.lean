import PysphVerif.Model.GaussJordan
/-
C14 — model of the interpolation equations and of the Interpolator's bindings.

Transcribes pysph/tools/interpolator.py :
  InterpolateFunction ('shepard'), InterpolateSPH ('sph'),
  SPLASHInterpolateProperty ('splash'), SPLASHInterpolatePropertyNormalized
  ('splash_norm'), SPHFirstOrderApproximationPreStep + SPHFirstOrderApproximation
  ('order1', with pysph/sph/basic_equations.py SummationDensity in front), and
  Interpolator.__init__/set_interpolation_points/update_particle_arrays/update/
  interpolate together with SPHEvaluator.update_particle_arrays/update
  (pysph/tools/sph_evaluator.py) as a state machine over object identities,
  and the staging loop of `Interpolator.interpolate` (requested property ->
  `temp_prop` of every source array, `0.0` for an array without the property)
  over histories that include earlier `interpolate` calls, and the index maps
  between the caller's N-d coordinate arrays, the target particles
  (`_create_particle_array`: `ravel`) and the returned array (`interpolate`:
  `result.shape = self.shape; squeeze`) (end of this file).

The compiled evaluator (acceleration_eval_cython.mako) runs, for one group and
one destination particle: `initialize`, then for every source array in the order
of `sources=` and every neighbour in the order the neighbour structure returns
them `loop`, then `post_loop`.  So a destination sees ONE list of neighbour
records (`Nbr`), the concatenation over the source arrays, and every method is a
left fold over it.  What `loop` reads of a neighbour:
  `w`   the kernel value handed to it (WIJ = W(r, (h_i+h_j)/2) for shepard, sph
        and order1, WI = W(r, h_i) for splash, WJ = W(r, h_j) for splash_norm),
  `dw*` DWIJ (gradient of W at HIJ), `s*` the source position (XIJ = d − s),
  `m`, `rho`, and `f` = `s_temp_prop[s_idx]`.
Kernel values are inputs (C08 is about the kernels); everything after them is
arithmetic, so the same definitions run at `Float` (bit-exact tie to the compiled
code) and are reasoned about over an ordered field.

`order1` is the REPAIRED code (proposed_fixes/C14-order1-psph-reset.diff):
`initialize` resets all four components of `p_sph`/`prop`; the pinned code reset
only three, so `p_sph[4i+3]` kept accumulating over `interpolate` calls.
The linear solver is `gj_solve` of linalg.py (`gjSolve` of Model/GaussJordan.lean,
property C13).
Core Lean only.
-/
namespace PysphVerif.Interp

/-- what one `loop` call reads of neighbour `s_idx` -/
structure Nbr (α : Type) where
  w : α
  dw0 : α
  dw1 : α
  dw2 : α
  sx : α
  sy : α
  sz : α
  m : α
  rho : α
  f : α

/-- destination position `d_x, d_y, d_z` -/
structure Pos (α : Type) where
  x : α
  y : α
  z : α

section
variable {α : Type} [Add α] [Sub α] [Mul α] [Div α] [Neg α] [OfNat α 0]
  [LT α] [DecidableLT α]

/-! ### shepard : `InterpolateFunction` -/

/-- `(d_prop[d_idx], d_number_density[d_idx])` -/
structure Acc2 (α : Type) where
  prop : α
  den : α

/-- `loop`: `d_number_density += WIJ; d_prop += WIJ*s_temp_prop[s_idx]` -/
def shepardStep (a : Acc2 α) (nb : Nbr α) : Acc2 α :=
  { den := a.den + nb.w, prop := a.prop + nb.w * nb.f }

/-- `post_loop`: `if d_number_density > 1e-12: d_prop /= d_number_density` -/
def normPost (tol : α) (a : Acc2 α) : α :=
  if tol < a.den then a.prop / a.den else a.prop

/-- `initialize; loop over all neighbours; post_loop` of `InterpolateFunction` -/
def shepard (tol : α) (nbrs : List (Nbr α)) : α :=
  normPost tol (nbrs.foldl shepardStep ⟨0, 0⟩)

/-! ### sph : `InterpolateSPH`, splash : `SPLASHInterpolateProperty` -/

/-- `d_prop += s_m[s_idx]/s_rho[s_idx]*WIJ*s_temp_prop[s_idx]` -/
def sphStep (acc : α) (nb : Nbr α) : α := acc + nb.m / nb.rho * nb.w * nb.f
def sph (nbrs : List (Nbr α)) : α := nbrs.foldl sphStep 0

/-- `d_prop += (s_m[s_idx]/s_rho[s_idx])*WI*s_temp_prop[s_idx]` (`w` is WI) -/
def splashStep (acc : α) (nb : Nbr α) : α := acc + (nb.m / nb.rho) * nb.w * nb.f
def splash (nbrs : List (Nbr α)) : α := nbrs.foldl splashStep 0

/-! ### user-supplied equations that read array CONSTANTS

`Interpolator(..., equations=[...])` and `SPHEvaluator(arrays, equations, ...)`
run whatever equations the caller hands over.  The probe equations of
harness/c14.py (`RefDensitySum`, `RefDensitySumGain`) are the SPH sum with the
reference density `rho0` -- a CONSTANT of the source array (`pa.add_constant`),
read as `s_rho0[0]` -- in place of the per-particle density, times a constant
`gain` of the destination array (`d_gain[0]`; `1` for the Interpolator, whose
target array has no constants):

    d_prop[d_idx] += d_gain[0]*s_m[s_idx]/s_rho0[0]*WIJ*s_temp_prop[s_idx]

The `rho` of a neighbour record carries `s_rho0[0]` of the neighbour's array. -/

def sphConstStep (gain : α) (acc : α) (nb : Nbr α) : α :=
  acc + gain * nb.m / nb.rho * nb.w * nb.f
def sphConst (gain : α) (nbrs : List (Nbr α)) : α := nbrs.foldl (sphConstStep gain) 0

/-! ### splash_norm : `SPLASHInterpolatePropertyNormalized` -/

/-- `common = (m/rho)*WJ; d_unity += common; d_prop += common*s_temp_prop` -/
def splashNormStep (a : Acc2 α) (nb : Nbr α) : Acc2 α :=
  { den := a.den + (nb.m / nb.rho) * nb.w,
    prop := a.prop + (nb.m / nb.rho) * nb.w * nb.f }

/-- `post_loop`: `if d_unity > 1e-12: d_prop /= d_unity` -/
def splashNorm (tol : α) (nbrs : List (Nbr α)) : α :=
  normPost tol (nbrs.foldl splashNormStep ⟨0, 0⟩)

/-! ### SummationDensity (first group of 'order1', `real=False`) -/

/-- `d_rho[d_idx] += s_m[s_idx]*WIJ` -/
def rhoStep (acc : α) (nb : Nbr α) : α := acc + nb.m * nb.w
def summationDensity (nbrs : List (Nbr α)) : α := nbrs.foldl rhoStep 0

/-! ### order1 : moment matrix, right-hand side, solve -/

/-- `XIJ[k] = d − s` -/
def xij (d : Pos α) (nb : Nbr α) (k : Nat) : α :=
  match k with
  | 0 => d.x - nb.sx
  | 1 => d.y - nb.sy
  | _ => d.z - nb.sz

/-- `DWIJ[k]` -/
def dwij (nb : Nbr α) (k : Nat) : α :=
  match k with
  | 0 => nb.dw0
  | 1 => nb.dw1
  | _ => nb.dw2

/-- `Vj = s_m[s_idx] / s_rho[s_idx]` -/
def vol (nb : Nbr α) : α := nb.m / nb.rho

/-- what `SPHFirstOrderApproximationPreStep.loop` adds to `d_moment[16*d_idx + 4*r + c]`:
`WIJ*Vj`, `-XIJ[c-1]*WIJ*Vj`, `DWIJ[r-1]*Vj`, `-XIJ[c-1]*DWIJ[r-1]*Vj` -/
def momentTerm (d : Pos α) (r c : Nat) (nb : Nbr α) : α :=
  match r, c with
  | 0, 0 => nb.w * vol nb
  | 0, c + 1 => -(xij d nb c) * nb.w * vol nb
  | r + 1, 0 => dwij nb r * vol nb
  | r + 1, c + 1 => -(xij d nb c) * dwij nb r * vol nb

def momentStep (d : Pos α) (r c : Nat) (acc : α) (nb : Nbr α) : α :=
  acc + momentTerm d r c nb

/-- `d_moment[16*d_idx + 4*r + c]` after `initialize` and all `loop` calls -/
def momentEntry (d : Pos α) (nbrs : List (Nbr α)) (r c : Nat) : α :=
  nbrs.foldl (momentStep d r c) 0

/-- what `SPHFirstOrderApproximation.loop` adds to `d_p_sph[4*d_idx + r]`:
`pj*WIJ*Vj`, `pj*DWIJ[r-1]*Vj` -/
def psphTerm (r : Nat) (nb : Nbr α) : α :=
  match r with
  | 0 => nb.f * nb.w * vol nb
  | r + 1 => nb.f * dwij nb r * vol nb

def psphStep (r : Nat) (acc : α) (nb : Nbr α) : α := acc + psphTerm r nb

/-- `d_p_sph[4*d_idx + r]` after `initialize` (all four reset) and all `loop` calls -/
def psphEntry (nbrs : List (Nbr α)) (r : Nat) : α := nbrs.foldl (psphStep r) 0

/-- the PINNED code (before the `fix:` commit): `initialize` ran `for i in range(3)`,
so `d_p_sph[4*d_idx + 3]` was not reset and every compute started its loop from
the value `prev` the previous compute on the same points had left there -/
def psphEntryOrig (prev : α) (nbrs : List (Nbr α)) (r : Nat) : α :=
  nbrs.foldl (psphStep r) (if r = 3 then prev else 0)

/-- the flat 16-entry `a_mat` and 4-entry `b` of `post_loop` -/
def momentFlat (d : Pos α) (nbrs : List (Nbr α)) : Array α :=
  Array.ofFn (n := 16) (fun i => momentEntry d nbrs (i.val / 4) (i.val % 4))
def psphFlat (nbrs : List (Nbr α)) : Array α :=
  Array.ofFn (n := 4) (fun i => psphEntry nbrs i.val)

end

section
variable {α : Type} [Add α] [Mul α] [Div α] [Neg α] [OfNat α 0] [OfNat α 1]
  [LT α] [DecidableLT α] [BEq α]

/-- `SPHFirstOrderApproximation.post_loop` from `a_mat`, `b` on:
`aug_mat = 0; res = 0; n = dim+1; augmented_matrix(a_mat, b, n, 1, 4, aug_mat);
gj_solve(aug_mat, n, 1, res); d_prop[4*d_idx + i] = res[i]` — the four numbers
left in `d_prop`.  (`gj_solve` after `fix: gj_solve exchanges whole rows when
pivoting`: `gjSolve`.) -/
def order1Post (tol : α) (dim : Nat) (aMat b : Array α) : Array α :=
  let n := dim + 1
  let aug := GaussJordan.augmentedMatrix aMat b n 1 4 (Array.replicate 20 0)
  (GaussJordan.gjSolve tol aug n 1 (Array.replicate 4 0)).result

end

section
variable {α : Type} [Add α] [Sub α] [Mul α] [Div α] [Neg α] [OfNat α 0] [OfNat α 1]
  [LT α] [DecidableLT α] [BEq α]

/-- the four components `d_prop[4*d_idx .. 4*d_idx+3]` 'order1' leaves for one
destination: value, d/dx, d/dy, d/dz -/
def order1 (tol : α) (dim : Nat) (d : Pos α) (nbrs : List (Nbr α)) : Array α :=
  order1Post tol dim (momentFlat d nbrs) (psphFlat nbrs)

end

/-! ### The Interpolator's bindings

Objects (particle arrays, the array of interpolation points) are identities
`Nat`; `ver` is a version counter per object that the environment bumps when it
changes an object in place (moves particles, changes `h`, …).  The neighbour
structure remembers which objects it was built over and which versions it has
last binned (`NNPS.update`); the compiled evaluator holds its own references
(`update_particle_arrays` → `set_array` per array name). -/

inductive Method where
  | shepard | sph | order1 | splash | splashNorm
  deriving DecidableEq, Repr

structure NnpsState where
  /-- `nnps.particles` : source arrays then the points array -/
  objs : List Nat
  /-- versions of those objects at the last `update` -/
  seen : List Nat
  deriving DecidableEq, Repr

structure IState where
  /-- `self.particle_arrays` -/
  arrays : List Nat
  /-- `self.pa` -/
  pts : Nat
  /-- `self.nnps` -/
  nnps : NnpsState
  /-- arrays the compiled evaluator reads (`c_acceleration_eval.<name>.array`) -/
  evalObjs : List Nat
  /-- arrays whose CONSTANTS the compiled evaluator reads: the generated loops
  take `s_<const>`/`d_<const>` from carray attributes of the same
  `ParticleArrayWrapper`, which `set_array(pa)` binds next to the property
  carrays (`for prop in pa.constants.keys(): setattr(self, prop, pa.get_carray(prop))`) -/
  evalConsts : List Nat
  /-- `func_eval.nnps` is `self.nnps` -/
  evalNnpsCurrent : Bool
  /-- current version of every object (environment) -/
  ver : Nat → Nat

inductive Op where
  /-- `set_interpolation_points(x, y, z)` creating points object `p` -/
  | setPoints (p : Nat)
  /-- `update_particle_arrays(arrays)` -/
  | updateArrays (arrays : List Nat)
  /-- `update()` -/
  | update
  /-- the caller changes object `o` in place (moves particles, changes `h`: what
  the neighbour structure was built from) -/
  | mutate (o : Nat)
  /-- the caller changes DATA of object `o` in place that the neighbour structure
  does not depend on: masses, densities, values of the interpolated properties,
  constants.  Nothing the `Interpolator` holds changes (it keeps references, not
  copies): no version the NNPS has binned is bumped. -/
  | touch (o : Nat)
  /-- `SPHEvaluator.update_particle_arrays(arrays)` (sph_evaluator.py; `arrays`
  includes the destination array) -/
  | evalUpdateArrays (objs : List Nat)
  deriving DecidableEq, Repr

/-- `_create_nnps(arrays)`: a new NNPS over `arrays` (its constructor bins the
current particles), then `func_eval.set_nnps` -/
def createNnps (s : IState) (objs : List Nat) : IState :=
  { s with nnps := { objs := objs, seen := objs.map s.ver }, evalNnpsCurrent := true }

/-- `AccelerationEval.update_particle_arrays(arrays)` (acceleration_eval.py ->
acceleration_eval_cython.mako): `for pa in particle_arrays: getattr(self, pa.name).set_array(pa)`;
`ParticleArrayWrapper.set_array(pa)` sets `self.array = pa` and re-binds the
carray of every property and of every constant of `pa` -/
def setArrays (s : IState) (objs : List Nat) : IState :=
  { s with evalObjs := objs, evalConsts := objs }

/-- `update_particle_arrays(particle_arrays)`:
`_set_particle_arrays; arrays = self.particle_arrays + [self.pa];
_create_nnps(arrays); func_eval.update_particle_arrays(arrays)` -/
def updateParticleArrays (s : IState) (arrays : List Nat) : IState :=
  let s1 := { s with arrays := arrays }
  let objs := s1.arrays ++ [s1.pts]
  let s2 := createNnps s1 objs
  setArrays s2 objs

/-- `set_interpolation_points`: `self.pa = _create_particle_array(...)`
(`func_eval` exists already), then `update_particle_arrays(self.particle_arrays)` -/
def setInterpolationPoints (s : IState) (p : Nat) : IState :=
  updateParticleArrays { s with pts := p } s.arrays

/-- `update()`: `nnps.update_domain(); nnps.update()` re-bins the current
particles of the objects the nnps holds -/
def updateOp (s : IState) : IState :=
  { s with nnps := { s.nnps with seen := s.nnps.objs.map s.ver } }

/-- `SPHEvaluator.update_particle_arrays(arrays)`:
`_create_nnps(arrays); func_eval.update_particle_arrays(arrays)` -/
def evalUpdateParticleArrays (s : IState) (objs : List Nat) : IState :=
  setArrays (createNnps s objs) objs

def bump (ver : Nat → Nat) (o : Nat) : Nat → Nat :=
  fun x => if x = o then ver x + 1 else ver x

def step (s : IState) : Op → IState
  | Op.setPoints p => setInterpolationPoints s p
  | Op.updateArrays as => updateParticleArrays s as
  | Op.update => updateOp s
  | Op.mutate o => { s with ver := bump s.ver o }
  | Op.touch _ => s
  | Op.evalUpdateArrays objs => evalUpdateParticleArrays s objs

/-- `Interpolator.__init__(arrays, x=…)`: `_set_particle_arrays`, then
`set_interpolation_points` which also compiles the evaluator over
`arrays + [pa]` -/
def init (arrays : List Nat) (p : Nat) : IState :=
  setInterpolationPoints
    { arrays := arrays, pts := p, nnps := ⟨[], []⟩, evalObjs := [], evalConsts := [],
      evalNnpsCurrent := false, ver := fun _ => 0 } p

/-- `SPHEvaluator.__init__(arrays, equations, …)`: the evaluator is compiled over
`arrays` (one `ParticleArrayWrapper(pa, index)` per array, whose `__init__` calls
`set_array(pa)`), then `_create_nnps(arrays)`.  (`self.arrays` is not used afterwards;
`arrays`/`pts` of the state are the source arrays / destination by convention:
the destination is the last array.) -/
def initEval (objs : List Nat) : IState :=
  createNnps
    { arrays := objs.dropLast, pts := objs.getLastD 0, nnps := ⟨[], []⟩, evalObjs := objs,
      evalConsts := objs, evalNnpsCurrent := false, ver := fun _ => 0 } objs

def run (s : IState) (ops : List Op) : IState := ops.foldl step s

/-- what `interpolate` works on: the objects whose `temp_prop` it fills
(`self.particle_arrays`), the objects the evaluator reads, the objects the
neighbour lists were computed from and whether those lists are of the current
versions -/
structure Reads where
  filled : List Nat
  evaluated : List Nat
  binned : List Nat
  result : Nat
  neighboursCurrent : Bool
  /-- the objects whose constants the evaluator reads -/
  constants : List Nat
  deriving DecidableEq, Repr

def interpolateReads (s : IState) : Reads :=
  { filled := s.arrays, evaluated := s.evalObjs, binned := s.nnps.objs,
    result := s.pts,
    neighboursCurrent := s.evalNnpsCurrent && decide (s.nnps.seen = s.nnps.objs.map s.ver),
    constants := s.evalConsts }

/-- the value of a constant as the compiled loop of the `k`-th array name reads
it: from the carray the wrapper holds (`cval o` = the value stored in object `o`) -/
def constRead {γ : Type} (s : IState) (cval : Nat → γ) (k : Nat) : Option γ :=
  (s.evalConsts[k]?).map cval

/-! ### Staging: what `interpolate(prop)` writes into `temp_prop`

`Interpolator.interpolate` (interpolator.py) starts with

    for array in self.particle_arrays:
        if prop not in array.properties:
            data = 0.0
        else:
            data = array.get(prop, only_real_particles=False)
        array.get('temp_prop', only_real_particles=False)[:] = data

and only then calls `func_eval.compute`; the equations read `s_temp_prop` (the
`f` of a neighbour record), never the property itself.  `temp_prop` is a
property of the SOURCE array (added by `_set_particle_arrays` only when the
array does not have it already, so an array may arrive with any contents), it
survives from one `interpolate` call to the next, and the assignment `[:] = data`
overwrites ALL its entries: with the array of values when the array owns `prop`,
with the scalar `0.0` broadcast over all entries when it does not. -/

/-- a source array as the staging loop sees it: the number of particles
(`only_real_particles=False`: all of them) and the property table -/
structure ArrData (α : Type) where
  n : Nat
  props : List (String × List α)

section
variable {α : Type} [OfNat α 0]

/-- `data` of the staging loop, as the new contents of `temp_prop`:
`array.get(prop)` when `prop in array.properties`, else `0.0` broadcast over
the `n` entries -/
def stagedValues (a : ArrData α) (prop : String) : List α :=
  match a.props.lookup prop with
  | some v => v
  | none => List.replicate a.n 0

/-- contents of `temp_prop` per object identity -/
abbrev Temp (α : Type) := Nat → List α

/-- one iteration of the staging loop: `array.get('temp_prop')[:] = data`
overwrites the `temp_prop` of array `o`, nothing else -/
def stageStep (env : Nat → ArrData α) (prop : String) (temp : Temp α) (o : Nat) : Temp α :=
  fun x => if x = o then stagedValues (env o) prop else temp x

/-- the staging loop over `self.particle_arrays` -/
def stage (env : Nat → ArrData α) (prop : String) (arrays : List Nat) (temp : Temp α) : Temp α :=
  arrays.foldl (stageStep env prop) temp

/-- bindings plus the contents of every object's `temp_prop` -/
structure HState (α : Type) where
  s : IState
  temp : Temp α

/-- a history step: a binding operation (does not touch any `temp_prop`:
`_set_particle_arrays` adds a zeroed `temp_prop` only to an array that has none;
what an array brings along is part of the arbitrary initial `temp`), or
`interpolate(prop)` with the arrays' data `env` at the time of the call -/
inductive HOp (α : Type) where
  | bind (op : Op)
  | interp (env : Nat → ArrData α) (prop : String)

def hstep (h : HState α) : HOp α → HState α
  | HOp.bind op => { h with s := step h.s op }
  | HOp.interp env prop => { h with temp := stage env prop h.s.arrays h.temp }

def hrun (h : HState α) (ops : List (HOp α)) : HState α := ops.foldl hstep h

/-- the binding operations of a history -/
def bindOps : List (HOp α) → List Op
  | [] => []
  | HOp.bind op :: rest => op :: bindOps rest
  | HOp.interp _ _ :: rest => bindOps rest

end

/-! ### Target points: `ravel` on the way in, `result.shape = self.shape` on the way out

`set_interpolation_points(x, y, z)` (interpolator.py) keeps `self.shape = x.shape`
and hands the coordinate arrays to `_create_particle_array`, which makes ONE
target particle per element: `xr = x.ravel(); yr = y.ravel(); zr = z.ravel()`,
`get_particle_array(name='interpolate', x=xr, y=yr, z=zr, …)`.  `ndarray.ravel()`
(default `order='C'`) lists the elements in LOGICAL row-major order — the last
index varies fastest — whatever the memory layout of the array is (C ordered,
Fortran ordered, a transposed view, a strided slice, negative strides).
`interpolate` copies the per-particle values (`self.pa.prop`, or
`self.pa.prop[comp::4]` for order1) into a fresh 1-D array, assigns
`result.shape = self.shape` (a fresh array is C contiguous: element `idx` of the
reshaped array is the flat element with the row-major index of `idx`) and returns
`result.squeeze()` (axes of length 1 dropped).

An array argument is modelled as numpy holds it: a buffer, an offset and one
stride per axis (both counted in elements, strides may be negative); `elem` is
`x[idx]`.  The memory layout enters ONLY through `elem`. -/

/-- number of elements of an array of shape `sh` -/
def size : List Nat → Nat
  | [] => 1
  | n :: ns => n * size ns

/-- `idx` is a valid multi-index of an array of shape `sh` -/
def inBounds : List Nat → List Nat → Bool
  | [], [] => true
  | n :: ns, i :: is => decide (i < n) && inBounds ns is
  | _, _ => false

/-- row-major (C order) flat index of `idx` in an array of shape `sh`:
`np.ravel_multi_index(idx, sh)` -/
def ravelIndex : List Nat → List Nat → Nat
  | _ :: ns, i :: is => i * size ns + ravelIndex ns is
  | _, _ => 0

/-- the multi-index whose row-major flat index is `k`: `np.unravel_index(k, sh)` -/
def unravel : List Nat → Nat → List Nat
  | [], _ => []
  | _ :: ns, k => (k / size ns) :: unravel ns (k % size ns)

/-- `Σ_a idx[a]·strides[a]` -/
def memOffset : List Int → List Nat → Int
  | s :: ss, i :: is => (i : Int) * s + memOffset ss is
  | _, _ => 0

/-- a numpy array as it lies in memory (offset and strides in elements) -/
structure NdView (α : Type) where
  shape : List Nat
  strides : List Int
  offset : Int
  buf : List α

section
variable {α : Type} [OfNat α 0]

/-- `x[idx]` -/
def NdView.elem (v : NdView α) (idx : List Nat) : α :=
  v.buf.getD (v.offset + memOffset v.strides idx).toNat 0

/-- `x.ravel()`: the elements in logical row-major order -/
def ravelC (v : NdView α) : List α :=
  (List.range (size v.shape)).map (fun k => v.elem (unravel v.shape k))

def mkPos (xy : α × α) (z : α) : Pos α := ⟨xy.1, xy.2, z⟩

/-- `_create_particle_array(x, y, z)`: target particle `i` sits at
`(x.ravel()[i], y.ravel()[i], z.ravel()[i])` -/
def targetPoints (x y z : NdView α) : List (Pos α) :=
  List.zipWith mkPos (List.zip (ravelC x) (ravelC y)) (ravelC z)

end

/-- `result.shape = sh; result[idx]` for a fresh (C contiguous) flat `result` -/
def reshapedGet {β : Type} (flat : List β) (sh idx : List Nat) : Option β :=
  flat[ravelIndex sh idx]?

/-- shape of `a.squeeze()` -/
def squeezeShape : List Nat → List Nat
  | [] => []
  | n :: ns => if n = 1 then squeezeShape ns else n :: squeezeShape ns

/-- the index of `a` that `a.squeeze()[idx']` stands for: 0 on the dropped axes -/
def unsqueeze : List Nat → List Nat → List Nat
  | [], _ => []
  | n :: ns, idx' =>
    if n = 1 then 0 :: unsqueeze ns idx'
    else match idx' with
      | i :: is => i :: unsqueeze ns is
      | [] => []

section
variable {α : Type} [OfNat α 0]

/-- `interpolate(...)[idx]` BEFORE the squeeze, when the evaluator leaves
`value p` for a target particle at position `p` (all target particles carry the
same `h`, the source arrays are the same for all of them: what a particle gets
is a function of where it is):
`result = self.pa.prop.copy(); result.shape = self.shape` -/
def interpolateGet {β : Type} (value : Pos α → β) (x y z : NdView α) (idx : List Nat) : Option β :=
  reshapedGet ((targetPoints x y z).map value) x.shape idx

/-- `interpolate(...)[idx']`: the squeezed result -/
def interpolateSqueezedGet {β : Type} (value : Pos α → β) (x y z : NdView α)
    (idx' : List Nat) : Option β :=
  interpolateGet value x y z (unsqueeze x.shape idx')

/-- all multi-indices of shape `sh` in row-major order -/
def allIndices (sh : List Nat) : List (List Nat) :=
  (List.range (size sh)).map (unravel sh)

end

/-! ### The target particles' smoothing length and the dtype of the caller's arrays

`_create_particle_array(x, y, z)` (interpolator.py):

    xr = x.ravel(); yr = y.ravel(); zr = z.ravel()
    hmax = self._get_max_h_in_arrays()
    h = hmax*np.ones_like(xr)
    pa = get_particle_array(name='interpolate', x=xr, y=yr, z=zr, h=h, ...)

    def _get_max_h_in_arrays(self):
        hmax = -1.0
        for array in self.particle_arrays:
            hmax = max(array.h.max(), hmax)
        return hmax

`x` is `np.asarray(<what the caller passed>)`: its dtype `β` is the caller's
(float64, float32, int64, int32: `np.mgrid[1:6, 1:6]`, `np.arange(n)`, a list of
Python ints).  `np.ones_like(xr)` is an array of ones OF THAT DTYPE; the product
with the float64 scalar `hmax` is a float64 array (numpy promotes float64 with
every integer and smaller float dtype to float64): entry `hmax * float64(1)`.
`get_particle_array` stores every property as double: the coordinates are
converted, `cast : β → α` below (exact for the four dtypes).  `array.h` is the
array's view of its real particles (`only_real_particles=True`). -/

section TargetH
variable {α : Type} [LT α] [DecidableLT α]

/-- one step of `ndarray.max()` -/
def maxStep (acc x : α) : α := if acc < x then x else acc

/-- `array.h.max()`; `none`: numpy raises ValueError on an empty array -/
def npMax : List α → Option α
  | [] => none
  | x :: xs => some (xs.foldl maxStep x)

/-- Python's `max(a, b)`: `b` only if `b > a` -/
def pyMax (a b : α) : α := if a < b then b else a

/-- the loop of `_get_max_h_in_arrays`: `hmax = max(array.h.max(), hmax)` per array -/
def maxHLoop : List (List α) → α → Option α
  | [], hmax => some hmax
  | h :: rest, hmax =>
    match npMax h with
    | none => none
    | some m => maxHLoop rest (pyMax m hmax)

/-- `_get_max_h_in_arrays()` over the real-particle `h` of every source array -/
def maxHInArrays [Neg α] [OfNat α 1] (hs : List (List α)) : Option α := maxHLoop hs (-1)

/-- `np.ones_like(xr)`: ones of the dtype of `xr` -/
def onesLike {β : Type} [OfNat β 1] (xr : List β) : List β := xr.map (fun _ => 1)

/-- `hmax*ones`: float64 scalar times an array of dtype `β`, promoted entry by entry -/
def scalarTimes {β : Type} [Mul α] (cast : β → α) (hmax : α) (ones : List β) : List α :=
  ones.map (fun o => hmax * cast o)

/-- the `h` of the target particles made from the raveled coordinate array `xr` -/
def targetH {β : Type} [OfNat β 1] [Mul α] (cast : β → α) (hmax : α) (xr : List β) : List α :=
  scalarTimes cast hmax (onesLike xr)

/-- `_create_particle_array`'s `h`, from the sources' real-particle `h` lists -/
def createTargetH {β : Type} [OfNat β 1] [Mul α] [Neg α] [OfNat α 1] (cast : β → α)
    (hs : List (List α)) (xr : List β) : Option (List α) :=
  (maxHInArrays hs).map (fun hmax => targetH cast hmax xr)

end TargetH

/-- the double coordinates of the target particles made from a coordinate array
of dtype `β`: `get_particle_array(x=x.ravel())` converts to double -/
def castRavel {α β : Type} [OfNat β 0] (cast : β → α) (v : NdView β) : List α :=
  (ravelC v).map cast

/-! ### order1 as three groups over the density the source arrays SHARE

`Interpolator._get_equations` ('order1') builds three groups,

    Group([SummationDensity(dest=name, sources=names) for name in names], real=False),
    Group([SPHFirstOrderApproximationPreStep(dest='interpolate', sources=names, dim)], real=True),
    Group([SPHFirstOrderApproximation(dest='interpolate', sources=names, dim)], real=True)

and `interpolate` runs `func_eval.compute` = all of them, in this order, on every
call.  Group 1 WRITES `rho` of the source arrays; groups 2 and 3 read `s_m/s_rho`.
`rho`, `m`, `temp_prop` live in the source arrays: the caller may change them in
place between two calls and any other evaluator built over the same arrays
writes them too (an order1 one with another kernel leaves ITS summation density
there).  Source particles are numbered `0, 1, …` over all source arrays. -/

/-- a source particle as neighbour of a target point: its index `k` among the
source particles (all arrays, in the order of `names`, real or not) and the
kernel values / source position of the pair -/
structure PtNbr (α : Type) where
  k : Nat
  w : α
  dw0 : α
  dw1 : α
  dw2 : α
  sx : α
  sy : α
  sz : α

/-- kernel values among the SOURCE particles as one evaluator sees them (ITS
kernel, the present positions and smoothing lengths): the particles it iterates
over (`ids`, all of them: the group is `real=False`) and per particle `j` the
neighbours `(k, W_jk)` in the order the loop visits them -/
structure SrcGeo (α : Type) where
  ids : List Nat
  nbrs : Nat → List (Nat × α)

/-- what the source arrays hold per particle — state SHARED by the caller and
every evaluator built over the arrays: `m`, `rho`, `temp_prop` -/
structure Store (α : Type) where
  m : Nat → α
  rho : Nat → α
  f : Nat → α

section
variable {α : Type} [Add α] [Sub α] [Mul α] [Div α] [Neg α] [OfNat α 0] [OfNat α 1]
  [LT α] [DecidableLT α] [BEq α]

/-- the record `SummationDensity.loop` reads of source neighbour `k` (only `s_m`, `WIJ`) -/
def rhoNbr (st : Store α) (kw : Nat × α) : Nbr α :=
  { w := kw.2, dw0 := 0, dw1 := 0, dw2 := 0, sx := 0, sy := 0, sz := 0,
    m := st.m kw.1, rho := st.rho kw.1, f := st.f kw.1 }

/-- `d_rho[d_idx]` of source particle `j` after `SummationDensity` -/
def densityAt (st : Store α) (g : SrcGeo α) (j : Nat) : α :=
  summationDensity ((g.nbrs j).map (rhoNbr st))

/-- group 1 of 'order1' (`SummationDensity(dest=name, sources=names) for name in names`,
`real=False`): OVERWRITES `rho` of every source particle; `m`, `temp_prop` stay -/
def group1 (g : SrcGeo α) (st : Store α) : Store α :=
  { st with rho := fun j => if j ∈ g.ids then densityAt st g j else st.rho j }

/-- the record the loops of groups 2 and 3 read of neighbour `p`: kernel values of
the pair, `s_m`, `s_rho`, `s_temp_prop` from the arrays AS THEY ARE when the group runs -/
def ptNbr (st : Store α) (p : PtNbr α) : Nbr α :=
  { w := p.w, dw0 := p.dw0, dw1 := p.dw1, dw2 := p.dw2, sx := p.sx, sy := p.sy, sz := p.sz,
    m := st.m p.k, rho := st.rho p.k, f := st.f p.k }

/-- group 2 (`SPHFirstOrderApproximationPreStep`): `d_moment` of one point -/
def group2 (st : Store α) (d : Pos α) (pn : List (PtNbr α)) : Array α :=
  momentFlat d (pn.map (ptNbr st))

/-- group 3 (`SPHFirstOrderApproximation`): `d_p_sph`, then `post_loop` solves
against the `d_moment` group 2 left -/
def group3 (tol : α) (dim : Nat) (st : Store α) (aMat : Array α) (pn : List (PtNbr α)) : Array α :=
  order1Post tol dim aMat (psphFlat (pn.map (ptNbr st)))

/-- `func_eval.compute` of an order1 Interpolator for one target point: ALL three
groups run on EVERY call (no group has a `condition`), in this order, on the
arrays as the call finds them.  Returns what it leaves in the arrays and the four
numbers of the point. -/
def order1Compute (tol : α) (dim : Nat) (g : SrcGeo α) (d : Pos α) (pn : List (PtNbr α))
    (st : Store α) : Store α × Array α :=
  let st1 := group1 g st
  (st1, group3 tol dim st1 (group2 st1 d pn) pn)

/-- what may happen to the shared arrays between two `interpolate` calls of one
Interpolator without any call of its API: the caller changes masses, densities
or the interpolated values in place; ANOTHER order1 evaluator over the same arrays
(another kernel: another `SrcGeo`) computes; any evaluator stages `temp_prop` -/
inductive SOp (α : Type) where
  | setM (m : Nat → α)
  | setRho (rho : Nat → α)
  | setF (f : Nat → α)
  | otherOrder1 (g : SrcGeo α)

def sstep (st : Store α) : SOp α → Store α
  | SOp.setM m => { st with m := m }
  | SOp.setRho r => { st with rho := r }
  | SOp.setF f => { st with f := f }
  | SOp.otherOrder1 g => group1 g st

def srun (st : Store α) (ops : List (SOp α)) : Store α := ops.foldl sstep st

/-- ops that leave masses and staged values alone (they only write `rho`) -/
def SOp.rhoOnly : SOp α → Bool
  | SOp.setRho _ => true
  | SOp.otherOrder1 _ => true
  | _ => false

end

end PysphVerif.Interp
