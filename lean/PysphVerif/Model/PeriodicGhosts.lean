/-
C09 — the periodic images of a closed system.

With a periodic `DomainManager` the closed system of the property is the set
of real particles of all arrays TOGETHER WITH their periodic images: the sums
`sum m a` run over the real particles, a real particle near a face interacts
with the image of a particle near the opposite face, and the reaction on that
particle comes from the image of the first one.  Momentum is conserved only if
both images exist.  This file transcribes the part of
`pysph/base/nnps_base.pyx` that decides which images exist:

* `CPUDomainManager._compute_cell_size_for_binning`: `cell_size =
  radius_scale * hmax`, `hmax` the largest `h` over ALL arrays (`1.0` when
  that is below `1e-6`);
* `CPUDomainManager._create_ghosts_periodic`: per array, per periodic axis,
  every particle within `n_layers * cell_size` of the low (high) face gets an
  image translated by `+(max - min)` (`-(max - min)`); the y pass first
  replicates the images made so far (corners), then the real particles; the z
  pass likewise.

The depth of the layer is the same for every array.  (Sizing it from the
array's own largest `h` — `ownDepth` below — loses the image of a fine
particle that a coarse particle of another array interacts with; see
`Props/C09.lean`, `own_h_image_depth_loses_reaction`.)

Polymorphic over the number type: run at `Float` by the driver (bit-exact tie
with the real `DomainManager`), reasoned about over ordered fields.
Core Lean only.
-/
namespace PysphVerif.PeriodicGhosts

variable {α : Type}

/-- a particle: the real particle it is (an image of), and its position -/
structure Pt (α : Type) where
  id : Nat
  x : α
  y : α
  z : α

/-- `if _hmax > hmax: hmax = _hmax` -/
def hmaxStep [LT α] [DecidableLT α] (acc h : α) : α := if acc < h then h else acc

/-- `_compute_cell_size_for_binning`: `hmaxs` = `h.maximum` of every array,
`start` = `-1.0`, `tiny` = `1e-6`, `one` = `1.0` -/
def cellSize [Mul α] [LT α] [DecidableLT α] (k start tiny one : α) (hmaxs : List α) : α :=
  let c := k * hmaxs.foldl hmaxStep start
  if c < tiny then one else c

/-- `cell_size = self.n_layers * self.cell_size` (local of `_create_ghosts_periodic`) -/
def depth [Mul α] (nLayers cell : α) : α := nLayers * cell

/-- NOT the code: the layer sized from the array's own largest `h` -/
def ownDepth [Mul α] (nLayers k hmaxOwn : α) : α := nLayers * (k * hmaxOwn)

/-- `(xi - xmin) <= cell_size`: gets an image beyond the high face -/
def lowSel [Sub α] [LE α] [DecidableLE α] (lo d x : α) : Bool := decide (x - lo ≤ d)

/-- `(xmax - xi) <= cell_size`: gets an image beyond the low face -/
def highSel [Sub α] [LE α] [DecidableLE α] (hi d x : α) : Bool := decide (hi - x ≤ d)

def addX [Add α] (t : α) (p : Pt α) : Pt α := { p with x := p.x + t }
def addY [Add α] (t : α) (p : Pt α) : Pt α := { p with y := p.y + t }
def addZ [Add α] (t : α) (p : Pt α) : Pt α := { p with z := p.z + t }

def lowX [Sub α] [LE α] [DecidableLE α] (lo d : α) (p : Pt α) : Bool := lowSel lo d p.x
def highX [Sub α] [LE α] [DecidableLE α] (hi d : α) (p : Pt α) : Bool := highSel hi d p.x
def lowY [Sub α] [LE α] [DecidableLE α] (lo d : α) (p : Pt α) : Bool := lowSel lo d p.y
def highY [Sub α] [LE α] [DecidableLE α] (hi d : α) (p : Pt α) : Bool := highSel hi d p.y
def lowZ [Sub α] [LE α] [DecidableLE α] (lo d : α) (p : Pt α) : Bool := lowSel lo d p.z
def highZ [Sub α] [LE α] [DecidableLE α] (hi d : α) (p : Pt α) : Bool := highSel hi d p.z

/-- `if periodic_in_x:` block: `x_low` translated by `+xtranslate`, then
`x_high` by `-xtranslate` (`xtranslate = xmax - xmin`) -/
def passX [Add α] [Sub α] [Neg α] [LE α] [DecidableLE α] (lo hi d : α) (reals : List (Pt α)) :
    List (Pt α) :=
  (reals.filter (lowX lo d)).map (addX (hi - lo)) ++
  (reals.filter (highX hi d)).map (addX (-(hi - lo)))

/-- `if periodic_in_y:` block: the images made so far (`low` up, `high` down:
the corners), then the real `y_high` down and `y_low` up -/
def passY [Add α] [Sub α] [Neg α] [LE α] [DecidableLE α] (lo hi d : α) (g reals : List (Pt α)) :
    List (Pt α) :=
  g ++ (g.filter (lowY lo d)).map (addY (hi - lo)) ++
  (g.filter (highY hi d)).map (addY (-(hi - lo))) ++
  (reals.filter (highY hi d)).map (addY (-(hi - lo))) ++
  (reals.filter (lowY lo d)).map (addY (hi - lo))

/-- `if periodic_in_z:` block -/
def passZ [Add α] [Sub α] [Neg α] [LE α] [DecidableLE α] (lo hi d : α) (g reals : List (Pt α)) :
    List (Pt α) :=
  g ++ (g.filter (lowZ lo d)).map (addZ (hi - lo)) ++
  (g.filter (highZ hi d)).map (addZ (-(hi - lo))) ++
  (reals.filter (highZ hi d)).map (addZ (-(hi - lo))) ++
  (reals.filter (lowZ lo d)).map (addZ (hi - lo))

/-- the box and the flags of the manager -/
structure Box (α : Type) where
  xmin : α
  xmax : α
  ymin : α
  ymax : α
  zmin : α
  zmax : α
  px : Bool
  py : Bool
  pz : Bool

/-- `_create_ghosts_periodic` for one array: the images appended to it, in the
order of the code; `d` is the common depth -/
def ghosts [Add α] [Sub α] [Neg α] [LE α] [DecidableLE α] (b : Box α) (d : α)
    (reals : List (Pt α)) : List (Pt α) :=
  let g1 := if b.px then passX b.xmin b.xmax d reals else []
  let g2 := if b.py then passY b.ymin b.ymax d g1 reals else g1
  if b.pz then passZ b.zmin b.zmax d g2 reals else g2

/-- the whole decision for one array of a system: cell size from every
array's `h.maximum`, common depth, images -/
def ghostsOfArray [Add α] [Sub α] [Neg α] [Mul α] [LT α] [DecidableLT α] [LE α] [DecidableLE α]
    (b : Box α) (nLayers k start tiny one : α) (hmaxs : List α) (reals : List (Pt α)) :
    List (Pt α) :=
  ghosts b (depth nLayers (cellSize k start tiny one hmaxs)) reals

end PysphVerif.PeriodicGhosts
