-- Root of the PysphVerif library: models, drivers, lemmas and property theorems.
import PysphVerif.Model.Wire
import PysphVerif.Model.AdaptDt
import PysphVerif.Driver.C19
import PysphVerif.Props.C19
