-- Root of the PysphVerif library: models, lemmas and property theorems
-- (drivers are separate executables: lake build model_cXX).
import PysphVerif.Model.Wire
import PysphVerif.Props.C01
import PysphVerif.Props.C02
import PysphVerif.Props.C03
import PysphVerif.Props.C04
import PysphVerif.Props.C05
import PysphVerif.Props.C06
import PysphVerif.Props.C07
import PysphVerif.Props.C08
import PysphVerif.Props.C09
import PysphVerif.Props.C10
import PysphVerif.Props.C11
import PysphVerif.Props.C12
import PysphVerif.Props.C13
import PysphVerif.Props.C14
import PysphVerif.Props.C15
import PysphVerif.Props.C16
import PysphVerif.Props.C17
import PysphVerif.Props.C18
import PysphVerif.Props.C19
import PysphVerif.Props.C20
