"""C20 correspondence + property oracle: incomplete problems are rejected at
set-up.

impl : pysph.sph.acceleration_eval.AccelerationEval(...) (which runs
       check_equation_array_properties on every equation), then either
       SPHCompiler(a_eval, integrator)._get_code() (the observation point of
       the property: IntegratorCythonHelper.__init__ + the rendered templates,
       no C compilation) or the same helper methods called directly
       (_check_integrator_steppers, get_array_declarations ->
       _check_arrays_for_properties)                (scratch build of /repo)
model: lean PysphVerif.Model.Needs through model_c20 (verdict + named items,
       pointer set-up of the generated code, precomputed closure)
oracle: the property statement evaluated independently of the model:
       (a) needs are recomputed here (explicit: co_varnames of the five
           methods; implicit: own fixpoint over the *code strings* of
           precomputed_symbols()); if something is missing / misspelt the real
           code must raise RuntimeError naming the equation (stepper) and
           exactly what is missing for it;
       (b) when the real code accepts, every `x = dst.<p>.data` /
           `x = src.<p>.data` line the real code generator emits must refer to
           a property or constant the array has.
"""
import contextlib
import importlib
import io
import json
import os
import pkgutil
import random
import re
import sys

import hcommon as H

H.assert_scratch_import()
from pysph.base.particle_array import ParticleArray  # noqa: E402
from pysph.base.kernels import CubicSpline  # noqa: E402
from pysph.sph import equation as EQ  # noqa: E402
from pysph.sph.equation import (Equation, Group, BasicCodeBlock,  # noqa: E402
                                Context, MultiStageEquations)
from pysph.sph.acceleration_eval import (AccelerationEval,  # noqa: E402
                                         make_acceleration_evals)
from pysph.sph.acceleration_eval_cython_helper import (  # noqa: E402
    AccelerationEvalCythonHelper)
from pysph.sph.integrator_cython_helper import (  # noqa: E402
    IntegratorCythonHelper)
from pysph.sph.integrator import EulerIntegrator  # noqa: E402
from pysph.sph.integrator_step import IntegratorStep  # noqa: E402
from pysph.sph.sph_compiler import SPHCompiler  # noqa: E402
from inspect import getfullargspec  # noqa: E402

METHODS = ('initialize', 'initialize_pair', 'loop', 'loop_all', 'post_loop')
KERNEL = CubicSpline(dim=2)
DEFAULT_PROPS = ('tag', 'pid', 'gid')
REAL_TABLE = Group.pre_comp
IDENT = re.compile(r'[A-Za-z_]\w*')
WORK = {'dir': '.', 'n': 0}


@contextlib.contextmanager
def quiet():
    with contextlib.redirect_stdout(io.StringIO()):
        yield


# --------------------------------------------------------------------------
# shipped classes

def _allsub(c):
    out = set()
    for s in c.__subclasses__():
        out.add(s)
        out |= _allsub(s)
    return out


def shipped():
    import pysph.sph
    failed = []
    for m in pkgutil.walk_packages(pysph.sph.__path__, 'pysph.sph.'):
        if '.tests' in m.name:
            continue
        try:
            with quiet(), contextlib.redirect_stderr(io.StringIO()):
                importlib.import_module(m.name)
        except BaseException as e:     # noqa
            failed.append('%s (%s)' % (m.name, type(e).__name__))
    ok = lambda c: (c.__module__.startswith('pysph.sph.') and  # noqa
                    '.tests' not in c.__module__)
    eqs = sorted((c for c in _allsub(Equation) if ok(c)),
                 key=lambda c: (c.__module__, c.__name__))
    sts = sorted((c for c in _allsub(IntegratorStep) if ok(c)),
                 key=lambda c: (c.__module__, c.__name__))
    return eqs, sts, failed


def load_cls(spec):
    mod, name = spec.split(':')
    return getattr(importlib.import_module(mod), name)


def code_args(fn):
    """argument names of a plain function, read off the code object
    (independent of inspect.getfullargspec, which the code under test uses)"""
    fn = getattr(fn, '__func__', fn)
    co = fn.__code__
    return [a for a in co.co_varnames[:co.co_argcount] if a != 'self']


# --------------------------------------------------------------------------
# building the objects of a case

def gen_module(case):
    """write the synthetic Equation / IntegratorStep classes of `case` to a
    module file (the code generator wants real source files) and import it"""
    lines = ['from pysph.sph.equation import Equation',
             'from pysph.sph.integrator_step import IntegratorStep', '']
    for e in case['eqs']:
        if 'shipped' in e:
            continue
        lines.append('class %s(Equation):' % e['cls'])
        if not e['methods']:
            lines.append('    pass')
        for m in METHODS:
            if m in e['methods']:
                lines.append('    def %s(%s):' % (
                    m, ', '.join(['self'] + e['methods'][m])))
                lines.append('        pass')
        lines.append('')
    done = set()
    for s in case.get('steppers') or []:
        if 'shipped' in s or s['cls'] in done:
            continue
        done.add(s['cls'])         # one class may step several arrays
        lines.append('class %s(IntegratorStep):' % s['cls'])
        if not s['methods'] and not s['py']:
            lines.append('    pass')
        for m in sorted(s['methods']):
            lines.append('    def %s(%s):' % (
                m, ', '.join(['self'] + s['methods'][m])))
            lines.append('        pass')
        for m in s['py']:
            lines.append('    def py_%s(self, dst, t, dt):' % m)
            lines.append('        pass')
        lines.append('')
    WORK['n'] += 1
    name = 'c20gen_%d_%d' % (os.getpid(), WORK['n'])
    path = os.path.join(WORK['dir'], name + '.py')
    with open(path, 'w') as fh:
        fh.write('\n'.join(lines) + '\n')
    if WORK['dir'] not in sys.path:
        sys.path.insert(0, WORK['dir'])
    importlib.invalidate_caches()
    return importlib.import_module(name)


def make_table(spec):
    c = Context()
    for key, code, vec in spec:
        c[key] = BasicCodeBlock(code=code,
                                **{key: [0.0, 0.0, 0.0] if vec else 0.0})
    return c


@contextlib.contextmanager
def table_installed(case):
    """Group.pre_comp is the class attribute every (Cython)Group reads"""
    if case.get('table') is None:
        yield REAL_TABLE
        return
    tbl = make_table(case['table'])
    old = Group.pre_comp
    Group.pre_comp = tbl
    try:
        yield tbl
    finally:
        Group.pre_comp = old


def build_arrays(case):
    pas = []
    for a in case['arrays']:
        pa = ParticleArray(name=a['name'])
        for p in a['props']:
            if p not in pa.properties:
                pa.add_property(p)
        for c in a['consts']:
            pa.add_constant(c, 0.0)
        pas.append(pa)
    return pas


def build_eqs(case, mod):
    objs = []
    for e in case['eqs']:
        if 'shipped' in e:
            cls = load_cls(e['shipped'])
            o = cls.__new__(cls)       # signatures are all the checks read
            Equation.__init__(o, e['dest'], e['sources'])
        else:
            o = getattr(mod, e['cls'])(e['dest'], e['sources'])
        objs.append(o)
    return objs


GROUP_OPTS = [dict(), dict(real=False), dict(iterate=True, max_iterations=3),
              dict(update_nnps=True), dict(name='named')]


def build_structure(case, objs):
    st = case['structure']
    if st and st[0][0] == 'L':
        return [objs[i] for i in st[0][1]]
    out = []
    for k, (kind, body) in enumerate(st):
        if kind == 'R':
            # the same Group OBJECT listed a second time
            out.append(out[body[0]])
            continue
        opts = GROUP_OPTS[(k + len(body)) % len(GROUP_OPTS)]
        if kind == 'F':
            out.append(Group([objs[i] for i in body], **opts))
        else:
            out.append(Group([Group([objs[i] for i in sg]) for sg in body],
                             **opts))
    return out


def build_steppers(case, mod):
    """(keyword, stepper object) in keyword order.  Entries that carry the same
    `obj` label (and name the same class) ARE one Python object handed to
    several arrays -- `step = St(); Integrator(fluid=step, solid=step)`;
    entries without a label, or with different labels, are separate objects
    (also when they are of one class)."""
    out = []
    shared = {}
    for s in case.get('steppers') or []:
        key = None if s.get('obj') is None else \
            (s['obj'], s.get('shipped') or s['cls'])
        if key is not None and key in shared:
            o = shared[key]
        else:
            if 'shipped' in s:
                cls = load_cls(s['shipped'])
                o = cls.__new__(cls)
            else:
                o = getattr(mod, s['cls'])()
            if key is not None:
                shared[key] = o
        out.append((s['dest'], o))
    return out


def object_ids(objs):
    """identity structure of a list of objects: index of the first entry that
    is the same object"""
    first = {}
    out = []
    for i, o in enumerate(objs):
        out.append(first.setdefault(id(o), i))
    return out


# --------------------------------------------------------------------------
# running the implementation

RE_DEST = re.compile(r"^ERROR: Equation (\w+) has invalid dest: '(\w*)'$")
RE_SRC = re.compile(r"^ERROR: Equation (\w+) has invalid source: '(\w*)'$")
RE_MISS = re.compile(r"^ERROR: Missing array properties for equation: (\w+)$")
RE_ARR = re.compile(r"^Array '(\w+)' missing properties (.*)\.$")
RE_STEPNAME = re.compile(r"Given keyword: '(\w+)' not a valid particle array")
RE_STEPMISS = re.compile(
    r"^ERROR: (\w+) requires the following properties:\n\t(.*)\n"
    r"Please add them to the particle array '(\w+)'\.$")


def parse_eq_error(msg):
    m = RE_DEST.match(msg)
    if m:
        return ['invalid-dest', m.group(1), m.group(2)]
    m = RE_SRC.match(msg)
    if m:
        return ['invalid-source', m.group(1), m.group(2)]
    ls = msg.split('\n')
    m = RE_MISS.match(ls[0])
    if m:
        errs = {}
        for ln in ls[1:]:
            if not ln:
                continue
            a = RE_ARR.match(ln)
            if not a:
                return ['unparsed', msg[:300]]
            body = a.group(2)
            names = [] if body == 'set()' else sorted(IDENT.findall(body))
            errs.setdefault(a.group(1), set()).update(names)
        return ['missing', m.group(1),
                {k: sorted(v) for k, v in errs.items()}]
    return ['unparsed', msg[:300]]


def parse_step_error(msg):
    m = RE_STEPNAME.search(msg)
    if m and msg.startswith('ERROR: Integrator keyword arguments'):
        return ['invalid-stepper', m.group(1)]
    m = RE_STEPMISS.match(msg)
    if m:
        return ['missing-stepper', m.group(1), m.group(3),
                [x for x in m.group(2).split(', ') if x]]
    return ['unparsed', msg[:300]]


RE_DST_LINE = re.compile(r'^(\w+) = dst\.(\w+)\.data$')
RE_SRC_LINE = re.compile(r'^(\w+) = src\.(\w+)\.data$')


def real_accesses(a_eval, helper, odd=None):
    """(array, property) for every pointer the generated compute() takes;
    `odd` collects pointer variables bound to a property they do not name"""
    acc = set()
    odd = [] if odd is None else odd
    for mg in a_eval.mega_groups:
        leaves = mg.data if mg.has_subgroups else [mg]
        for leaf in leaves:
            for dest, (nos, srcs, alle) in leaf.data.items():
                for ln in helper.get_dest_array_setup(dest, nos, srcs,
                                                      leaf).split('\n'):
                    m = RE_DST_LINE.match(ln.strip())
                    if m:
                        acc.add((dest, m.group(2)))
                        if m.group(1) != 'd_' + m.group(2):
                            odd.append((dest, m.group(1), m.group(2)))
                for s, g in srcs.items():
                    for ln in helper.get_src_array_setup(s, g).split('\n'):
                        m = RE_SRC_LINE.match(ln.strip())
                        if m:
                            acc.add((s, m.group(2)))
                            if m.group(1) != 's_' + m.group(2):
                                odd.append((s, m.group(1), m.group(2)))
    return sorted(acc)


RE_DST_IS = re.compile(r'^dst = self\.(\w+)$')
RE_SRC_IS = re.compile(r'^src = self\.(\w+)$')


def code_accesses(code):
    """(array, property) pointers in the rendered Cython source itself"""
    acc = set()
    dst = src = None
    for ln in code.split('\n'):
        ln = ln.strip()
        m = RE_DST_IS.match(ln)
        if m:
            dst = m.group(1)
            continue
        m = RE_SRC_IS.match(ln)
        if m:
            src = m.group(1)
            continue
        m = RE_DST_LINE.match(ln)
        if m:
            acc.add((dst, m.group(2)))
            continue
        m = RE_SRC_LINE.match(ln)
        if m:
            acc.add((src, m.group(2)))
    return sorted(acc)


def real_stepper_accesses(ih):
    acc = set()
    for m in ih.get_stepper_method_wrapper_names():
        for dest in sorted(ih.object.steppers.keys()):
            if ih.has_stepper_loop(dest, m):
                for ln in ih.get_array_setup(dest, m).split('\n'):
                    mm = RE_DST_LINE.match(ln.strip())
                    if mm:
                        acc.add((dest, mm.group(2)))
    return sorted(acc)


def real_stepper_bindings(ih):
    """(array, variable, property) of every `var = dst.<prop>.data` line of
    the generated integrator"""
    out = set()
    for m in ih.get_stepper_method_wrapper_names():
        for dest in sorted(ih.object.steppers.keys()):
            if ih.has_stepper_loop(dest, m):
                for ln in ih.get_array_setup(dest, m).split('\n'):
                    mm = RE_DST_LINE.match(ln.strip())
                    if mm:
                        out.add((dest, mm.group(1), mm.group(2)))
    return sorted(out)


RE_CDEF = re.compile(r'^cdef\s+(.*\S)\s+(\w+)$')


def real_stepper_decls(integ, helper):
    """per wrapped method what get_array_declarations(method) does: the
    declared names, '!' (the RuntimeError of the check), '?name' (KeyError of
    the type look-up) or the text of any other exception.  None when the
    helper cannot even be constructed (invalid stepper keyword)."""
    try:
        with quiet():
            ih = IntegratorCythonHelper(integ, helper)
    except Exception:       # noqa
        return None
    out = {}
    for m in ih.get_stepper_method_wrapper_names():
        try:
            with quiet():
                txt = ih.get_array_declarations(m)
            names = []
            for ln in txt.split('\n'):
                if not ln.strip():
                    continue
                mm = RE_CDEF.match(ln.strip())
                names.append(mm.group(2) if mm else 'unparsed:' + ln.strip())
            out[m] = sorted(names)
        except RuntimeError:
            out[m] = '!'
        except KeyError as e:
            out[m] = '?%s' % (e.args[0] if e.args else '')
        except Exception as e:      # noqa
            out[m] = 'exception %s: %s' % (type(e).__name__, str(e)[:120])
    return out


INTEGRATORS = {}


def integrator_class(name):
    if not INTEGRATORS:
        from pysph.sph import integrator as I
        for n in ('EulerIntegrator', 'PECIntegrator', 'EPECIntegrator',
                  'TVDRK3Integrator'):
            INTEGRATORS[n] = getattr(I, n)
    return INTEGRATORS[name or 'EulerIntegrator']


def run_impl(case):
    """Build everything the way a user would and record what happened."""
    out = {'eq': None, 'step': None, 'access': None, 'saccess': None,
           'ktypes': None, 'sdecl': None, 'sbind': None, 'odd': []}
    mod = gen_module(case)
    with table_installed(case) as tbl:
        out['table'] = [[k, sorted(cb.symbols)] for k, cb in tbl.items()]
        out['table_code'] = [[k, cb.code] for k, cb in tbl.items()]
        pas = build_arrays(case)
        out['arrays'] = [[pa.name, list(pa.properties.keys()) +
                          list(pa.constants.keys())] for pa in pas]
        objs = build_eqs(case, mod)
        sig = []
        for o in objs:
            d = {}
            for m in METHODS:
                f = getattr(o, m, None)
                if f is not None:
                    d[m] = list(getfullargspec(f).args)
            sig.append({'name': o.name, 'dest': o.dest, 'sources': o.sources,
                        'methods': d})
        out['sig'] = sig
        try:
            with quiet():
                structure = build_structure(case, objs)
        except Exception as e:      # noqa  (Group(...) itself failed)
            out['eq'] = ['exception', type(e).__name__, str(e)[:200]]
            out['ssig'] = []
            return out
        steppers = build_steppers(case, mod)
        ssig = []
        for dest, o in steppers:
            ms, py = {}, []
            for x in dir(o):
                if x.startswith('py_stage'):
                    py.append(x[3:])
                elif x.startswith('stage') or x == 'initialize':
                    ms[x] = list(getfullargspec(getattr(o, x)).args)
            ssig.append({'dest': dest, 'cls': type(o).__name__, 'methods': ms,
                         'py': py})
        out['ssig'] = ssig
        # which keywords were given one and the same stepper object
        out['sobj'] = object_ids([o for _, o in steppers])
        a_eval = None
        a_evals = []
        with quiet():
            try:
                k = case.get('stages')
                if k and structure and isinstance(structure[0], Group):
                    n = len(structure)
                    chunks = [structure[i * n // k:(i + 1) * n // k]
                              for i in range(k)]
                    a_evals = make_acceleration_evals(
                        pas, MultiStageEquations(chunks), KERNEL)
                else:
                    a_evals = [AccelerationEval(pas, structure, KERNEL)]
                a_eval = a_evals[0]
                out['eq'] = ['ok']
            except RuntimeError as e:
                out['eq'] = parse_eq_error(str(e))
            except Exception as e:      # noqa
                out['eq'] = ['exception', type(e).__name__, str(e)[:200]]
        if a_eval is None:
            return out
        try:
            helper = AccelerationEvalCythonHelper(a_eval)
            out['ktypes'] = sorted(k for k in helper.known_types
                                   if k[:2] in ('s_', 'd_'))
            acc = set(real_accesses(a_eval, helper, out['odd']))
            for ae in a_evals[1:]:
                acc |= set(real_accesses(ae, AccelerationEvalCythonHelper(ae),
                                         out['odd']))
            out['access'] = sorted(acc)
        except Exception as e:      # noqa
            out['access'] = None
            out['access_error'] = '%s: %s' % (type(e).__name__, str(e)[:200])
            return out
        if case.get('steppers') is None:
            return out
        try:
            integ = integrator_class(case.get('integrator'))(**dict(steppers))
        except Exception as e:      # noqa
            out['step'] = ['exception', type(e).__name__, str(e)[:200]]
            return out
        ih = None
        with quiet():
            try:
                if case.get('full'):
                    comp = SPHCompiler(a_evals, integ)
                    code = comp._get_code()
                    out['code_len'] = len(code)
                    out['code_access'] = code_accesses(code)
                    ih = comp.integrator_helper
                else:
                    ih = IntegratorCythonHelper(integ, helper)
                    for m in ih.get_stepper_method_wrapper_names():
                        ih.get_array_declarations(m)
                out['step'] = ['ok']
            except RuntimeError as e:
                ih = None
                out['step'] = parse_step_error(str(e))
            except Exception as e:      # noqa
                ih = None
                out['step'] = ['exception', type(e).__name__, str(e)[:200]]
        if ih is not None:
            out['saccess'] = real_stepper_accesses(ih)
            out['sbind'] = real_stepper_bindings(ih)
        out['sdecl'] = real_stepper_decls(integ, helper)
    return out


# --------------------------------------------------------------------------
# the model side

def nl(xs, sep=';'):
    xs = list(xs)
    return sep.join(xs) if xs else '_'


def wire_table(tbl):
    return nl(('%s:%s' % (k, nl(v)) for k, v in tbl), '|')


def wire_arrays(arrs):
    return nl(('%s:%s' % (n, nl(p)) for n, p in arrs), '|')


def wire_eqs(sig):
    out = []
    for e in sig:
        ms = [('-' if m not in e['methods'] else nl(e['methods'][m]))
              for m in METHODS]
        out.append('~'.join([e['name'], e['dest'],
                             '-' if e['sources'] is None else nl(e['sources'])]
                            + ms))
    return nl(out, '^')


def resolve_structure(st):
    """['R', [k]] = the group object of entry k once more"""
    return [st[body[0]] if kind == 'R' else [kind, body] for kind, body in st]


def wire_structure(st):
    if st and st[0][0] == 'L':
        return 'F' + nl(map(str, st[0][1]), ',')
    out = []
    for kind, body in resolve_structure(st):
        if kind == 'F':
            out.append('F' + nl(map(str, body), ','))
        else:
            out.append('S' + '+'.join(nl(map(str, sg), ',') for sg in body))
    return nl(out, '/')


def wire_steppers(ssig):
    out = []
    for s in ssig:
        ms = nl(('%s:%s' % (m, nl(a)) for m, a in s['methods'].items()), ',')
        out.append('~'.join([s['dest'], s['cls'], ms, nl(s['py'])]))
    return nl(out, '^')


def wire_setup(ssig, sobj):
    """O= the distinct stepper objects, K= keyword -> object, as OBSERVED on
    the objects handed to Integrator(**kw) (`is`), not as the case says"""
    firsts = [i for i, j in enumerate(sobj) if i == j]
    objs = []
    for i in firsts:
        t = ssig[i]
        ms = nl(('%s:%s' % (m, nl(a)) for m, a in t['methods'].items()), ',')
        objs.append('~'.join([t['cls'], ms, nl(t['py'])]))
    kw = ['%s:%d' % (t['dest'], firsts.index(sobj[i]))
          for i, t in enumerate(ssig)]
    return 'O=%s K=%s' % (nl(objs, '^'), nl(kw, '|'))


def model_lines(case, impl):
    T = 'T=' + wire_table(impl['table'])
    A = 'A=' + wire_arrays(impl['arrays'])
    Q = 'Q=' + wire_eqs(impl['sig'])
    P = 'P=' + wire_structure(case['structure'])
    S = 'S=' + wire_steppers(impl['ssig'])
    lines = ['check %s %s %s %s' % (T, A, Q, P),
             'access %s %s %s' % (T, Q, P),
             'build %s %s %s %s %s' % (T, A, Q, P, S),
             'saccess ' + S,
             'checkorig %s %s %s' % (A, Q, P),
             'ktypes ' + A,
             'sdecl %s %s' % (A, S),
             'sbind ' + S,
             'ssetup %s %s' % (A, wire_setup(impl['ssig'],
                                             impl.get('sobj') or []))]
    return lines


def parse_model_verdict(s):
    """canonical form shared with parse_eq_error / parse_step_error"""
    t = s.split(' ')
    kv = dict(x.split('=', 1) for x in t[1:] if '=' in x)
    un = lambda v: [] if v == '_' else v.split(';')  # noqa
    if t[0] == 'ok':
        return ['ok']
    if t[0] == 'invalid-dest':
        return ['invalid-dest', kv['eq'], kv['dest']]
    if t[0] == 'invalid-source':
        return ['invalid-source', kv['eq'], kv['src']]
    if t[0] == 'missing':
        errs = {}
        if kv['errs'] != '_':
            for e in kv['errs'].split('|'):
                a, ns = e.split(':')
                errs.setdefault(a, set()).update(un(ns))
        return ['missing', kv['eq'], {k: sorted(v) for k, v in errs.items()}]
    if t[0] == 'invalid-stepper':
        return ['invalid-stepper', kv['name']]
    if t[0] == 'missing-stepper':
        return ['missing-stepper', kv['cls'], kv['dest'], un(kv['names'])]
    return ['model-said', s]


def parse_model_acc(s):
    if not s.startswith('acc '):
        return ['model-said', s]
    body = s[4:]
    if body == '_':
        return []
    return sorted(set(tuple(x.split('.', 1)) for x in body.split(';')))


# --------------------------------------------------------------------------
# the property oracle (independent of the model)

def indep_closure(table_code, loop_args):
    """precomputed symbols reachable from the loop arguments: fixpoint over
    the identifiers of the code strings"""
    code = dict(table_code)
    idents = {k: set(IDENT.findall(c)) for k, c in code.items()}
    seen = set(a for a in loop_args if a in code)
    todo = list(seen)
    while todo:
        k = todo.pop()
        for s in idents[k]:
            if s in code and s not in seen:
                seen.add(s)
                todo.append(s)
    names = set()
    for k in seen:
        names |= idents[k]
    return seen, names


def arr_names(names, prefix):
    return set(n[2:] for n in names
               if n.startswith(prefix) and n != prefix + 'idx')


def eq_needs(e, table_code):
    """e: oracle view {'name','dest','sources','methods'} -> dict with the
    explicit / implicit needs on destination and sources"""
    allargs = [a for m in METHODS for a in e['methods'].get(m, [])]
    loop = e['methods'].get('loop', [])
    _, pn = indep_closure(table_code, loop)
    return {'exp_d': arr_names(allargs, 'd_'), 'exp_s': arr_names(allargs, 's_'),
            'imp_d': arr_names(pn, 'd_'), 'imp_s': arr_names(pn, 's_')}


def oracle_view(case):
    """equations as the *case* declares them (synthetic) or as the class's code
    objects say (shipped); not through getfullargspec"""
    out = []
    for e in case['eqs']:
        if 'shipped' in e:
            cls = load_cls(e['shipped'])
            ms = {m: code_args(getattr(cls, m)) for m in METHODS
                  if getattr(cls, m, None) is not None}
            name = cls.__name__
        else:
            ms = e['methods']
            name = e['cls']
        src = e['sources'] if e['sources'] else None
        out.append({'name': name, 'dest': e['dest'], 'sources': src,
                    'methods': ms})
    return out


def flat_indices(st):
    if st and st[0][0] == 'L':
        return list(st[0][1])
    out = []
    for kind, body in resolve_structure(st):
        if kind == 'F':
            out += body
        else:
            for sg in body:
                out += sg
    return out


def eq_problems(e, arrs, table_code):
    """what the statement calls incomplete, for one equation"""
    nd = eq_needs(e, table_code)
    probs = []
    if e['dest'] not in arrs:
        probs.append(('dest', e['dest'], None, 'name'))
    else:
        for n in sorted(nd['exp_d'] | nd['imp_d']):
            if n not in arrs[e['dest']]:
                probs.append(('missing', e['dest'], n,
                              'explicit' if n in nd['exp_d'] else 'implicit'))
    for s in e['sources'] or []:
        if s not in arrs:
            probs.append(('source', s, None, 'name'))
        else:
            for n in sorted(nd['exp_s'] | nd['imp_s']):
                if n not in arrs[s]:
                    probs.append(('missing', s, n,
                                  'explicit' if n in nd['exp_s'] else 'implicit'))
    return probs


def message_ok(verdict, cands, arrs, table_code):
    """does the error name the equation and exactly what is missing for it?"""
    for e in cands:
        probs = eq_problems(e, arrs, table_code)
        if verdict[0] == 'invalid-dest':
            if verdict[2] == e['dest'] and e['dest'] not in arrs:
                return True
        elif verdict[0] == 'invalid-source':
            if verdict[2] in (e['sources'] or []) and verdict[2] not in arrs:
                return True
        elif verdict[0] == 'missing':
            want = {}
            for kind, a, n, _ in probs:
                if kind == 'missing':
                    want.setdefault(a, set()).add(n)
            got = {a: set(ns) for a, ns in verdict[2].items() if ns}
            if want and got == want and \
                    not any(p[0] in ('dest', 'source') for p in probs):
                return True
    return False


def stepper_view(case):
    out = []
    for s in case.get('steppers') or []:
        if 'shipped' in s:
            cls = load_cls(s['shipped'])
            ms = {}
            for x in dir(cls):
                if x.startswith('stage') or x == 'initialize':
                    ms[x] = code_args(getattr(cls, x))
            name = cls.__name__
        else:
            ms, name = s['methods'], s['cls']
        out.append({'dest': s['dest'], 'cls': name, 'methods': ms})
    return out


def stepper_problems(s, arrs):
    if s['dest'] not in arrs:
        return [('name', s['dest'], None)]
    out = []
    for m, args in sorted(s['methods'].items()):
        for n in sorted(arr_names(args, 'd_') | arr_names(args, 's_')):
            if n not in arrs[s['dest']]:
                out.append(('missing', m, n))
    return out


def oracle(case, impl, R):
    """returns True when the property's predicate holds on this case"""
    arrs = {}
    for n, p in impl['arrays']:
        arrs[n] = set(p)          # later arrays win, as in the generated code
    tcode = impl['table_code']
    view = oracle_view(case)
    order = flat_indices(case['structure'])
    eqs = [view[i] for i in order]
    probs = [(e, eq_problems(e, arrs, tcode)) for e in eqs]
    allp = [p for _, ps in probs for p in ps]
    v = impl['eq']
    ok = True

    def key_for(ps):
        if any(p[3] == 'name' for p in ps):
            return 'C20:invalid-array-name'
        if any(p[3] == 'explicit' for p in ps):
            return 'C20:explicit-need'
        return 'C20:implicit-precomputed-need'

    if allp:
        R.count('oracle:eq-incomplete')
        R.count('oracle:' + key_for(allp))
        if v[0] == 'ok':
            ok = False
            R.prop_fail(key_for(allp) + ':accepted', case,
                        'RuntimeError naming the equation and what is missing; '
                        'problems: %r' % (allp[:6],),
                        'AccelerationEval(...) constructed without error')
        elif v[0] in ('exception', 'unparsed'):
            ok = False
            R.prop_fail(key_for(allp) + ':wrong-error', case,
                        'RuntimeError naming the equation and what is missing; '
                        'problems: %r' % (allp[:6],), repr(v))
        else:
            cands = [e for e in eqs if e['name'] == v[1]]
            if not message_ok(v, cands, arrs, tcode):
                ok = False
                R.prop_fail(key_for(allp) + ':error-does-not-name-problem',
                            case, 'error names an equation of the program and '
                            'exactly what is missing for it; problems: %r'
                            % (allp[:6],), repr(v))
    else:
        R.count('oracle:eq-complete')
        if v[0] != 'ok':
            # outside the statement (a false rejection); logged only
            R.count('false-rejection')
    # (b) what the generated code would read
    if impl['access'] is not None:
        bad = [(a, p) for a, p in impl['access']
               if a not in arrs or p not in arrs[a]]
        if bad:
            ok = False
            exp = set()
            for e in eqs:
                nd = eq_needs(e, tcode)
                exp |= set((e['dest'], n) for n in nd['exp_d'])
                for s in e['sources'] or []:
                    exp |= set((s, n) for n in nd['exp_s'])
            k = 'C20:explicit-need' if any(b in exp for b in bad) else \
                'C20:implicit-precomputed-need'
            R.prop_fail(k + ':accepted', case,
                        'every array pointer the generated compute() takes '
                        'exists in that array',
                        'accepted, and the code generator emits reads of %r'
                        % (bad[:6],))
    if impl.get('odd'):
        ok = False
        R.prop_fail('C20:binds-unrelated-memory', case,
                    'a pointer variable d_<p> / s_<p> of the generated '
                    'compute() is bound to property <p> of the destination / '
                    'source', 'bound as %r' % (impl['odd'][:6],))
    # steppers
    if case.get('steppers') is not None and v[0] == 'ok':
        sv = stepper_view(case)
        sp = [(s, stepper_problems(s, arrs)) for s in sv]
        alls = [p for _, ps in sp for p in ps]
        w = impl['step']
        objs = [s.get('obj') for s in case['steppers']]
        nshared = sum(1 for o in set(objs) if o is not None and
                      objs.count(o) > 1)
        if nshared:
            R.count('oracle:stepper-object-shared-by-several-arrays')
        if alls:
            R.count('oracle:stepper-incomplete')
            if nshared and any(ps and s0.get('obj') is not None and
                               objs.count(s0['obj']) > 1 and
                               objs.index(s0['obj']) != k
                               for k, (s0, (_, ps)) in enumerate(
                                   zip(case['steppers'], sp))):
                R.count('oracle:stepper-incomplete:shared-object-not-first')
            if w[0] == 'ok':
                ok = False
                R.prop_fail('C20:stepper:accepted', case,
                            'RuntimeError naming the stepper and what is '
                            'missing; problems: %r' % (alls[:6],),
                            'integrator code generated without error')
            elif w[0] == 'invalid-stepper':
                if not any(s['dest'] == w[1] and s['dest'] not in arrs
                           for s in sv):
                    ok = False
                    R.prop_fail('C20:stepper:error-does-not-name-problem',
                                case, 'names an invalid keyword', repr(w))
            elif w[0] == 'missing-stepper':
                good = False
                for s, ps in sp:
                    miss = set(p[2] for p in ps if p[0] == 'missing')
                    if s['cls'] == w[1] and s['dest'] == w[2] and w[3] and \
                            set(w[3]) <= miss:
                        good = True
                if not good:
                    ok = False
                    R.prop_fail('C20:stepper:error-does-not-name-problem',
                                case, 'names the stepper class, the array and '
                                'missing properties; problems %r' % (alls[:6],),
                                repr(w))
            else:
                ok = False
                R.prop_fail('C20:stepper:wrong-error', case,
                            'RuntimeError naming the stepper and what is '
                            'missing', repr(w))
        else:
            R.count('oracle:stepper-complete')
            if w[0] != 'ok':
                R.count('false-rejection-stepper')
        if impl['saccess'] is not None:
            bad = [(a, p) for a, p in impl['saccess']
                   if a not in arrs or p not in arrs[a]]
            if bad:
                ok = False
                R.prop_fail('C20:stepper:accepted', case,
                            'every array pointer the generated integrator '
                            'takes exists', 'reads of %r' % (bad[:6],))
        if impl.get('sbind'):
            # every s_*/d_* argument of a wrapped method must be bound, to the
            # property it names, of the array being stepped
            odd = [b for b in impl['sbind']
                   if b[1] not in ('d_' + b[2], 's_' + b[2])]
            bound = set((b[0], b[1]) for b in impl['sbind'])
            unbound = []
            for s in sv:
                if s['dest'] not in arrs:
                    continue
                for m, args in s['methods'].items():
                    for a in args:
                        if a[:2] in ('d_', 's_') and a not in ('d_idx', 's_idx') \
                                and (s['dest'], a) not in bound:
                            unbound.append((s['dest'], m, a))
            if odd or unbound:
                ok = False
                R.prop_fail('C20:stepper:binds-unrelated-memory', case,
                            'every d_<p>/s_<p> argument of a stepper method is '
                            'bound to <p> of the array being stepped',
                            'mis-bound %r, never bound %r'
                            % (odd[:6], unbound[:6]))
    return ok


# --------------------------------------------------------------------------
# generators

ARR_NAMES = ['fluid', 'solid', 'f', 's', 'boundary', 'inlet']
PROPS = ['x', 'y', 'z', 'u', 'v', 'w', 'h', 'm', 'rho', 'p', 'au', 'av', 'aw',
         'cs', 'V', 'arho', 'q', 'foo', 'ax', 'wij']
CONSTS = ['total_mass', 'c0', 'cm']
OTHER_ARGS = ['t', 'dt', 'd_idx', 's_idx']
SHIPPED = {}


def misspell(rng, n):
    return rng.choice([n + n[-1], n.capitalize(), n[:-1] or 'x', n + '_1'])


def rand_sources(rng, names, allow_none=True):
    r = rng.random()
    if allow_none and r < 0.2:
        return None
    k = rng.choice([1, 1, 2, 2, 3])
    return [rng.choice(names) for _ in range(k)]


def complete_arrays(rng, view, names, tcode, extra=True):
    """arrays that satisfy every need of every equation (+ some extras)"""
    need = {n: set() for n in names}
    for e in view:
        nd = eq_needs(e, tcode)
        if e['dest'] in need:
            need[e['dest']] |= nd['exp_d'] | nd['imp_d']
        for s in e['sources'] or []:
            if s in need:
                need[s] |= nd['exp_s'] | nd['imp_s']
    arrs = []
    for n in names:
        ps = set(need[n])
        if extra:
            ps |= set(rng.sample(PROPS, rng.choice([0, 1, 3])))
        cs = sorted(p for p in ps if p in CONSTS)
        arrs.append({'name': n, 'props': sorted(p for p in ps
                                                 if p not in CONSTS
                                                 and p not in DEFAULT_PROPS),
                     'consts': cs})
    return arrs, need


def perturb(rng, case, view, need, mode):
    """make the problem incomplete in one way; returns a label"""
    arrs = {a['name']: a for a in case['arrays']}
    if mode == 'none':
        return 'complete'
    if mode in ('implicit', 'explicit', 'any'):
        cands = []
        tcode = case['_tcode']
        for e in view:
            nd = eq_needs(e, tcode)
            if e['dest'] in arrs:
                for n in nd['exp_d']:
                    cands.append(('explicit', e['dest'], n))
                for n in nd['imp_d'] - nd['exp_d']:
                    cands.append(('implicit', e['dest'], n))
            for s in e['sources'] or []:
                if s in arrs:
                    for n in nd['exp_s']:
                        cands.append(('explicit', s, n))
                    for n in nd['imp_s'] - nd['exp_s']:
                        cands.append(('implicit', s, n))
        cands = [c for c in cands if c[2] not in DEFAULT_PROPS and
                 (mode == 'any' or c[0] == mode)]
        if not cands:
            return 'complete'
        # an implicit candidate may be an explicit need of another equation on
        # the same array; the label is only a label
        kind, a, n = rng.choice(sorted(cands))
        for key in ('props', 'consts'):
            if n in arrs[a][key]:
                arrs[a][key].remove(n)
        return 'removed-' + kind
    if mode == 'misspell-dest':
        e = rng.choice(case['eqs'])
        e['dest'] = misspell(rng, e['dest'])
        return 'misspelt-dest'
    if mode == 'misspell-source':
        es = [e for e in case['eqs'] if e['sources']]
        if not es:
            return 'complete'
        e = rng.choice(es)
        k = rng.randrange(len(e['sources']))
        e['sources'] = list(e['sources'])
        e['sources'][k] = misspell(rng, e['sources'][k])
        return 'misspelt-source'
    return 'complete'


def rand_structure(rng, n):
    idx = list(range(n))
    r = rng.random()
    if r < 0.15:
        return [['L', idx]]
    if r < 0.4:
        return [['F', idx]]
    out = []
    i = 0
    while i < n:
        k = rng.choice([1, 1, 2, 3])
        part = idx[i:i + k]
        i += k
        if rng.random() < 0.4:
            # sub-groups
            sgs = []
            j = 0
            while j < len(part):
                kk = rng.choice([1, 2])
                sgs.append(part[j:j + kk])
                j += kk
            if rng.random() < 0.2:
                sgs.append([])
            out.append(['S', sgs])
        else:
            out.append(['F', part])
    if rng.random() < 0.1:
        out.append(['F', []])
    if rng.random() < 0.15 and n:
        out.append(['F', [rng.randrange(n)]])     # an equation used twice
    if rng.random() < 0.1:
        # the same equation OBJECT twice in one group
        g = rng.choice(out)
        tgt = g[1] if g[0] == 'F' else (rng.choice(g[1]) if g[1] else None)
        if tgt:
            tgt.insert(rng.randrange(len(tgt) + 1), rng.choice(tgt))
    if rng.random() < 0.1:
        # the same Group OBJECT listed twice
        out.append(['R', [rng.randrange(len(out))]])
    return out


def real_tcode():
    return [[k, cb.code] for k, cb in REAL_TABLE.items()]


def gen_shipped_case(rng, cls, mode):
    spec = '%s:%s' % (cls.__module__, cls.__name__)
    names = rng.sample(ARR_NAMES, 3)
    dest = names[0]
    srcs = rng.choice([None, [dest], [dest, names[1]], [names[1], names[2]],
                       [names[1]]])
    case = {'table': None, 'arrays': [], 'steppers': None, 'full': False,
            'eqs': [{'shipped': spec, 'dest': dest, 'sources': srcs}],
            'structure': rng.choice([[['L', [0]]], [['F', [0]]],
                                     [['S', [[0]]]]])}
    tcode = real_tcode()
    case['_tcode'] = tcode
    view = oracle_view(case)
    case['arrays'], need = complete_arrays(rng, view, names, tcode,
                                           extra=rng.random() < 0.5)
    case['label'] = 'shipped-eq:' + perturb(rng, case, view, need, mode)
    del case['_tcode']
    return case


def gen_shipped_exhaustive(rng, cls):
    """the property's quantifier, literally: one shipped class x every name
    it needs (explicitly or implicitly) x removal from the destination (which
    is also the first source) or from the second source"""
    import copy
    spec = '%s:%s' % (cls.__module__, cls.__name__)
    names = ['fluid', 'solid']
    base = {'table': None, 'arrays': [], 'steppers': None, 'full': False,
            'eqs': [{'shipped': spec, 'dest': 'fluid',
                     'sources': ['fluid', 'solid']}],
            'structure': [['F', [0]]], 'label': 'shipped-eq:exhaustive'}
    tcode = real_tcode()
    view = oracle_view(base)
    base['arrays'], need = complete_arrays(rng, view, names, tcode,
                                           extra=False)
    out = []
    for k, a in enumerate(names):
        for n in sorted(need[a]):
            if n in DEFAULT_PROPS:
                continue
            c = copy.deepcopy(base)
            for key in ('props', 'consts'):
                if n in c['arrays'][k][key]:
                    c['arrays'][k][key].remove(n)
            out.append(c)
    return out


def gen_stepper_exhaustive(rng, cls):
    import copy
    base = gen_shipped_stepper_case(rng, cls, 'none')
    base['label'] = 'shipped-stepper:exhaustive'
    out = []
    for n in list(base['arrays'][0]['props']):
        c = copy.deepcopy(base)
        c['arrays'][0]['props'].remove(n)
        out.append(c)
    return out


def rand_eq(rng, k, names, syms, table_keys):
    ms = {}
    have = rng.sample(METHODS, rng.choice([1, 1, 2, 3]))
    if rng.random() < 0.7 and 'loop' not in have:
        have.append('loop')
    for m in have:
        args = ['d_idx']
        for _ in range(rng.choice([0, 1, 2, 3])):
            args.append('d_' + rng.choice(syms))
        if m in ('loop', 'loop_all', 'initialize_pair'):
            args.append('s_idx')
            for _ in range(rng.choice([0, 1, 2])):
                args.append('s_' + rng.choice(syms))
        if m == 'loop':
            for _ in range(rng.choice([0, 1, 1, 2])):
                args.append(rng.choice(table_keys))
        if rng.random() < 0.3:
            args.append(rng.choice(['t', 'dt']))
        seen = []
        for a in args:
            if a not in seen:
                seen.append(a)
        ms[m] = seen
    dest = rng.choice(names)
    return {'cls': 'E%d' % k, 'dest': dest,
            'sources': rand_sources(rng, names), 'methods': ms}


def rand_table(rng):
    """a synthetic acyclic precomputed-symbol table"""
    n = rng.choice([2, 3, 5, 7])
    keys = ['P%s' % chr(65 + i) for i in range(n)]
    spec = []
    for i, k in enumerate(keys):
        terms = []
        for j in range(i):
            if rng.random() < 0.4:
                terms.append(keys[j])
        for _ in range(rng.choice([0, 1, 2])):
            p = rng.choice(PROPS[:12])
            terms.append(rng.choice(['d_%s[d_idx]' % p, 's_%s[s_idx]' % p]))
        if rng.random() < 0.2:
            terms.append(k)         # self reference, as in `EPS = ... EPS`
        if not terms:
            terms = ['1.0']
        spec.append([k, '%s = %s' % (k, ' + '.join(terms)), False])
    rng.shuffle(spec)
    return spec


STAGES = ['initialize', 'stage1', 'stage2', 'stage3', 'stage4']


def stepper_arg_props(args):
    return arr_names(args, 'd_') | arr_names(args, 's_')


def rand_stepper_methods(rng, syms):
    """method signatures of a generated stepper: destination-style and
    source-style array arguments (the integrator binds both kinds to the
    array being stepped), constants, d_idx / s_idx, t / dt"""
    ms = {}
    for m in rng.sample(STAGES, rng.choice([1, 2, 3])):
        args = ['d_idx']
        for _ in range(rng.choice([1, 2, 3])):
            args.append(rng.choice(['d_', 'd_', 's_']) + rng.choice(syms))
        if rng.random() < 0.15:
            args.append('s_idx')
        if rng.random() < 0.4:
            args.append(rng.choice(['dt', 't']))
        rng.shuffle(args)
        ms[m] = list(dict.fromkeys(args))
    return ms


def gen_synth_stepper_exhaustive(rng, shared=False):
    """the quantifier, literally, for a generated stepper class applied to
    two arrays: every name it needs (through d_* or s_*) x removal from the
    second array while the first one keeps it (shared: both keywords are
    given one stepper object, and the incomplete array is either one)"""
    import copy
    syms = rng.sample(PROPS, 6) + rng.sample(CONSTS, 1)
    ms = rand_stepper_methods(rng, syms)
    names = rng.sample(ARR_NAMES, 2)
    need = set()
    for args in ms.values():
        need |= stepper_arg_props(args)
    need -= set(DEFAULT_PROPS)
    mk = lambda n: {'name': n,  # noqa
                    'props': sorted(p for p in need if p not in CONSTS),
                    'consts': sorted(p for p in need if p in CONSTS)}
    base = {'table': None, 'full': rng.random() < 0.5,
            'eqs': [{'cls': 'E0', 'dest': names[0], 'sources': [names[1]],
                     'methods': {'initialize': ['d_idx', 'd_tag']}}],
            'structure': [['F', [0]]],
            'steppers': [{'dest': n, 'cls': 'StX', 'methods': ms, 'py': []}
                         for n in names],
            'arrays': [mk(n) for n in names],
            'label': 'synth-stepper:exhaustive'}
    which = 1
    if shared:
        for s in base['steppers']:
            s['obj'] = 0
        base['label'] += '+shared-object'
        which = rng.choice([0, 1, 1])
        if rng.random() < 0.5:
            base['integrator'] = rng.choice(
                ['PECIntegrator', 'EPECIntegrator', 'TVDRK3Integrator'])
    out = [base]
    for n in sorted(need):
        c = copy.deepcopy(base)
        for key in ('props', 'consts'):
            if n in c['arrays'][which][key]:
                c['arrays'][which][key].remove(n)
        out.append(c)
    return out


def gen_synth_case(rng, mode, synth_table=False, with_steppers=False):
    names = rng.sample(ARR_NAMES, rng.choice(
        [1, 2, 2, 3, 2, 3] if with_steppers else [1, 2, 2, 3]))
    table = rand_table(rng) if synth_table else None
    tcode = [[k, c] for k, c, _ in table] if table else real_tcode()
    keys = [k for k, _ in tcode]
    syms = rng.sample(PROPS, 8) + rng.sample(CONSTS, 1)
    n = rng.choice([1, 2, 3, 4, 6])
    eqs = [rand_eq(rng, k, names, syms, keys) for k in range(n)]
    case = {'table': table, 'eqs': eqs, 'structure': rand_structure(rng, n),
            'steppers': None, 'full': False, 'arrays': []}
    case['_tcode'] = tcode
    view = oracle_view(case)
    case['arrays'], need = complete_arrays(rng, view, names, tcode)
    if with_steppers:
        sts = []
        for k, d in enumerate(rng.sample(names, rng.choice(
                [1, len(names), len(names)]))):
            if sts and rng.random() < 0.4:
                # the same stepper class applied to several arrays
                t0 = rng.choice(sts)
                sts.append({'dest': d, 'cls': t0['cls'],
                            'methods': {m: list(a) for m, a in
                                        t0['methods'].items()},
                            'py': list(t0['py'])})
                if rng.random() < 0.5:
                    # ... and it is one and the same stepper OBJECT
                    # (step = St(); Integrator(a=step, b=step))
                    t0.setdefault('obj', sts.index(t0))
                    sts[-1]['obj'] = t0['obj']
                continue
            sts.append({'dest': d, 'cls': 'St%d' % k,
                        'methods': rand_stepper_methods(rng, syms),
                        'py': []})
            if 'stage2' not in sts[-1]['methods'] and rng.random() < 0.3:
                sts[-1]['py'] = ['stage2']
        case['steppers'] = sts
        case['full'] = not synth_table
        if rng.random() < 0.3:
            case['integrator'] = rng.choice(
                ['PECIntegrator', 'EPECIntegrator', 'TVDRK3Integrator'])
        # make the stepper needs available too, then perhaps break them
        arrs = {a['name']: a for a in case['arrays']}
        for s in sts:
            for args in s['methods'].values():
                for n_ in sorted(stepper_arg_props(args)):
                    a = arrs[s['dest']]
                    if n_ not in a['props'] and n_ not in a['consts']:
                        (a['consts'] if n_ in CONSTS else a['props']).append(n_)
    if mode.startswith('stepper-'):
        sts = case['steppers']
        if mode == 'stepper-misspell':
            s = rng.choice(sts)
            s['dest'] = misspell(rng, s['dest'])
            while any(t is not s and t['dest'] == s['dest'] for t in sts):
                s['dest'] += 'x'
            case['label'] = 'synth:stepper-misspelt'
        else:
            arrs = {a['name']: a for a in case['arrays']}
            cands = set()
            for s in sts:
                for args in s['methods'].values():
                    for a_ in args:
                        if a_[:2] in ('d_', 's_') and \
                                a_ not in ('d_idx', 's_idx'):
                            cands.add((s['dest'], a_[2:], a_[:1]))
            # only break names no equation needs on that array, so that the
            # equation check passes and the stepper check is reached
            cands = [c for c in sorted(cands)
                     if c[1] not in need.get(c[0], ()) and
                     c[1] not in DEFAULT_PROPS]
            if mode == 'stepper-remove-s':
                # names that reach the array ONLY through a source-style
                # argument (s_<p> of a stepper is bound to the stepped array)
                only_s = [c for c in cands if c[2] == 's' and
                          (c[0], c[1], 'd') not in cands]
                cands = only_s or cands
            if cands:
                a, n_, kind = rng.choice(cands)
                for key in ('props', 'consts'):
                    if n_ in arrs[a][key]:
                        arrs[a][key].remove(n_)
                others = [b for b in case['arrays'] if b['name'] != a]
                if others and rng.random() < 0.8:
                    # the realistic shape: another array does have it (else
                    # the code generator stumbles over the unknown type by
                    # itself)
                    b = rng.choice(others)
                    if n_ not in b['props'] and n_ not in b['consts']:
                        (b['consts'] if n_ in CONSTS else
                         b['props']).append(n_)
                case['label'] = 'synth:stepper-removed-%s_' % kind
            else:
                case['label'] = 'synth:complete'
    else:
        case['label'] = 'synth:' + perturb(rng, case, view, need, mode)
    if rng.random() < 0.15 and case['structure'][0][0] != 'L':
        case['stages'] = rng.choice([2, 3])
        case['label'] += '+multistage'
    if rng.random() < 0.04 and len(case['arrays']) > 1:
        # two arrays with the same name: the later one wins
        case['arrays'][0]['name'] = case['arrays'][1]['name']
        case['label'] += '+dup-array'
    if synth_table:
        case['label'] += '+synth-table'
    del case['_tcode']
    return case


def gen_exact_case(rng):
    """an array holding exactly the needed names: `eq_props < props` is a
    strict-subset test, so this complete problem is rejected (outside the
    statement; model and code must still agree)"""
    case = {'table': None, 'steppers': None, 'full': False,
            'eqs': [{'cls': 'E0', 'dest': 'f', 'sources': None,
                     'methods': {'initialize': ['d_idx', 'd_tag', 'd_pid',
                                                'd_gid', 'd_x']}}],
            'structure': [['F', [0]]],
            'arrays': [{'name': 'f', 'props': ['x'] + (
                ['y'] if rng.random() < 0.5 else []), 'consts': []}],
            'label': 'exact-props'}
    return case


def gen_shipped_stepper_case(rng, cls, mode):
    spec = '%s:%s' % (cls.__module__, cls.__name__)
    names = rng.sample(ARR_NAMES, 2)
    case = {'table': None, 'full': False,
            'eqs': [{'cls': 'E0', 'dest': names[0], 'sources': None,
                     'methods': {'initialize': ['d_idx', 'd_tag']}}],
            'structure': [['F', [0]]],
            'steppers': [{'shipped': spec, 'dest': names[0]}]}
    sv = stepper_view(case)
    need = set()
    for args in sv[0]['methods'].values():
        need |= arr_names(args, 'd_') | arr_names(args, 's_')
    arrs = [{'name': names[0], 'props': sorted(need - set(DEFAULT_PROPS)),
             'consts': []},
            {'name': names[1], 'props': sorted(need - set(DEFAULT_PROPS)),
             'consts': []}]
    case['arrays'] = arrs
    label = 'complete'
    rem = sorted(need - set(DEFAULT_PROPS))
    if mode == 'remove' and rem:
        arrs[0]['props'].remove(rng.choice(rem))
        label = 'removed'
    elif mode == 'misspell':
        case['steppers'][0]['dest'] = misspell(rng, names[0])
        label = 'misspelt'
    elif mode in ('shared', 'shared-remove', 'two-remove'):
        # the class on both arrays: one object given to both keywords
        # (shared*) or two objects of the class (two-remove); the incomplete
        # array is the second-named one (mostly) or the first
        case['steppers'].append({'shipped': spec, 'dest': names[1]})
        if mode != 'two-remove':
            for s in case['steppers']:
                s['obj'] = 0
        label = mode
        if mode != 'shared' and rem:
            k = rng.choice([0, 1, 1, 1])
            for n in rng.sample(rem, rng.choice([1, 1, len(rem)])):
                arrs[k]['props'].remove(n)
        if rng.random() < 0.5:
            case['integrator'] = rng.choice(
                ['PECIntegrator', 'EPECIntegrator', 'TVDRK3Integrator'])
        case['full'] = rng.random() < 0.5
    case['label'] = 'shipped-stepper:' + label
    return case


def corpus():
    """minimised past failures; always run first"""
    base = {'table': None, 'steppers': None, 'full': False}
    vij = {'cls': 'E0', 'dest': 'f', 'sources': ['f'],
           'methods': {'loop': ['d_idx', 'd_au', 'VIJ']}}
    out = [
        # F10: VIJ needs u, v, w on destination and source
        dict(base, label='corpus:F10-vij', eqs=[vij], structure=[['F', [0]]],
             arrays=[{'name': 'f', 'props': ['au', 'v', 'w'], 'consts': []}]),
        # F10 on a source only, inside a sub-group, behind a complete equation
        dict(base, label='corpus:F10-rhoij-source', eqs=[
            {'cls': 'E0', 'dest': 'f', 'sources': None,
             'methods': {'initialize': ['d_idx', 'd_au']}},
            {'cls': 'E1', 'dest': 'f', 'sources': ['f', 's'],
             'methods': {'loop': ['d_idx', 's_idx', 'd_au', 's_m', 'RHOIJ1']}}],
             structure=[['S', [[0], [1]]]],
             arrays=[{'name': 'f', 'props': ['au', 'm', 'rho'], 'consts': []},
                     {'name': 's', 'props': ['m'], 'consts': []}]),
        # WIJ -> XIJ, RIJ, HIJ -> x, y, z, h
        dict(base, label='corpus:F10-wij', eqs=[
            {'cls': 'E0', 'dest': 'f', 'sources': ['s'],
             'methods': {'loop': ['d_idx', 'd_rho', 's_idx', 's_m', 'WIJ']}}],
             structure=[['L', [0]]],
             arrays=[{'name': 'f', 'props': ['rho', 'x', 'y', 'z', 'h'],
                      'consts': []},
                     {'name': 's', 'props': ['m', 'x', 'y', 'h'],
                      'consts': []}]),
        # a no-source equation whose loop uses a precomputed symbol
        dict(base, label='corpus:nosource-hij', eqs=[
            {'cls': 'E0', 'dest': 'f', 'sources': None,
             'methods': {'loop': ['d_idx', 'd_au', 'HIJ']}}],
             structure=[['F', [0]]],
             arrays=[{'name': 'f', 'props': ['au'], 'consts': []}]),
        # explicit, constants count
        dict(base, label='corpus:constant', eqs=[
            {'cls': 'E0', 'dest': 'f', 'sources': ['f'],
             'methods': {'post_loop': ['d_idx', 'd_m', 'd_total_mass']}}],
             structure=[['F', [0]]],
             arrays=[{'name': 'f', 'props': ['m'], 'consts': ['total_mass']}]),
        # a stepper names what it needs through a source-style argument; the
        # integrator binds `s_damp = dst.damp.data` on the array being stepped
        dict(base, label='corpus:stepper-s-arg', full=True, eqs=[
            {'cls': 'E0', 'dest': 'f', 'sources': None,
             'methods': {'initialize': ['d_idx', 'd_au']}}],
             structure=[['F', [0]]],
             steppers=[{'dest': n, 'cls': 'StDamp', 'py': [], 'methods': {
                 'stage1': ['d_idx', 'd_x', 'd_au', 's_damp', 'dt']}}
                 for n in ('f', 's')],
             arrays=[{'name': 'f', 'props': ['au', 'x', 'damp'], 'consts': []},
                     {'name': 's', 'props': ['au', 'x'], 'consts': []}]),
        # the same through a constant, spelt d_<const>, in a late stage
        dict(base, label='corpus:stepper-constant', full=False, eqs=[
            {'cls': 'E0', 'dest': 'f', 'sources': None,
             'methods': {'initialize': ['d_idx', 'd_au']}}],
             structure=[['F', [0]]],
             steppers=[{'dest': n, 'cls': 'StC', 'py': ['stage2'], 'methods': {
                 'stage3': ['d_idx', 'd_x', 's_c0', 't']}}
                 for n in ('f', 's')],
             arrays=[{'name': 'f', 'props': ['au', 'x'], 'consts': ['c0']},
                     {'name': 's', 'props': ['au', 'x'], 'consts': []}]),
        # one stepper OBJECT given to two arrays, the second-named one lacks
        # what it needs: the check is per (array, stepper), not per object
        dict(base, label='corpus:shared-stepper-object', full=True,
             integrator='PECIntegrator', eqs=[
            {'cls': 'E0', 'dest': 'fluid', 'sources': None,
             'methods': {'initialize': ['d_idx', 'd_au']}}],
             structure=[['F', [0]]],
             steppers=[{'shipped': 'pysph.sph.integrator_step:WCSPHStep',
                        'dest': n, 'obj': 0} for n in ('fluid', 'solid')],
             arrays=[{'name': 'fluid', 'consts': [], 'props': [
                 'x', 'y', 'z', 'u', 'v', 'w', 'rho', 'x0', 'y0', 'z0', 'u0',
                 'v0', 'w0', 'rho0', 'au', 'av', 'aw', 'ax', 'ay', 'az',
                 'arho', 'h', 'm']},
                     {'name': 'solid', 'consts': [], 'props': [
                         'x', 'y', 'z', 'u', 'v', 'w', 'rho', 'au', 'av',
                         'aw', 'ax', 'ay', 'az', 'arho', 'h', 'm']}]),
        # the same with a generated class, three arrays, the middle one short
        dict(base, label='corpus:shared-stepper-object-3', full=False, eqs=[
            {'cls': 'E0', 'dest': 'f', 'sources': None,
             'methods': {'initialize': ['d_idx', 'd_au']}}],
             structure=[['F', [0]]],
             steppers=[{'dest': n, 'cls': 'StSh', 'py': [], 'obj': 7,
                        'methods': {'initialize': ['d_idx', 'd_x', 'd_x0'],
                                    'stage2': ['d_idx', 'd_x', 's_x0', 'dt']}}
                       for n in ('f', 's', 'b')],
             arrays=[{'name': 'f', 'props': ['au', 'x', 'x0'], 'consts': []},
                     {'name': 's', 'props': ['au', 'x'], 'consts': []},
                     {'name': 'b', 'props': ['au', 'x', 'x0'], 'consts': []}]),
        dict(base, label='corpus:misspelt-dest', eqs=[
            dict(vij, dest='fluid')], structure=[['F', [0]]],
             arrays=[{'name': 'f', 'props': ['au', 'u', 'v', 'w'],
                      'consts': []}]),
    ]
    return out


# --------------------------------------------------------------------------

def check_cases(cases, R, sample_from=0):
    impls = [run_impl(c) for c in cases]
    lines = [model_lines(c, im) for c, im in zip(cases, impls)]
    flat = [ln for ls in lines for ln in ls]
    out = H.run_model('C20', flat)
    if len(out) != len(flat):
        raise SystemExit('model driver answered %d lines for %d'
                         % (len(out), len(flat)))
    k = 0
    for i, (c, im, ls) in enumerate(zip(cases, impls, lines)):
        check_case(c, im, ls, out[k:k + len(ls)], R, i >= sample_from)
        k += len(ls)


def check_case(case, impl, lines, mod, R, may_sample):
    m_check = parse_model_verdict(mod[0])
    m_acc = parse_model_acc(mod[1])
    m_build = mod[2]
    m_sacc = parse_model_acc(mod[3])
    m_orig = parse_model_verdict(mod[4])
    m_kt, m_decl, m_bind = mod[5], mod[6], mod[7]
    m_setup = mod[8].split(' | ')
    # keys of known_types (what the declaration sites look names up in)
    if impl.get('ktypes') is not None:
        got = sorted(set([] if m_kt == 'kt _' else m_kt[3:].split(';'))) \
            if m_kt.startswith('kt ') else m_kt
        if got != impl['ktypes']:
            R.disagree({'case': case, 'line': lines[5]}, got, impl['ktypes'],
                       'keys of known_types')
        R.count('tie:known_types')
    # the declaration site of the integrator, method by method
    if impl.get('sdecl') is not None:
        want = {}
        if m_decl.startswith('decl ') and m_decl != 'decl _':
            for tok in m_decl[5:].split(' '):
                k, v = tok.split('=', 1)
                want[k] = v if v[:1] in '!?' else (
                    [] if v == '_' else v.split(';'))
        elif m_decl != 'decl _':
            want = m_decl
        if want != impl['sdecl']:
            R.disagree({'case': case, 'line': lines[6]}, want, impl['sdecl'],
                       'get_array_declarations(method) per wrapped method')
        R.count('tie:stepper-declarations', len(impl['sdecl']))
        for v in impl['sdecl'].values():
            R.count('stepper-declaration:' + (
                'names' if isinstance(v, list) else v[:1] if v[:1] in '!?'
                else 'exception'))
    # the binding site
    if impl.get('sbind') is not None:
        got = sorted(set(tuple(x.split('.')) for x in m_bind[5:].split(';'))
                     if m_bind != 'bind _' else []) \
            if m_bind.startswith('bind ') else m_bind
        ib = [tuple(x) for x in impl['sbind']]
        if got != ib:
            R.disagree({'case': case, 'line': lines[7]}, got, ib,
                       'pointer variables bound by the generated integrator')
        R.count('tie:stepper-bindings', len(ib))
        R.count('stepper-bindings:source-style',
                sum(1 for b in ib if b[1].startswith('s_')))
    # L1: accept / reject and the named items
    if m_check != impl['eq']:
        R.disagree({'case': case, 'line': lines[0]}, m_check, impl['eq'],
                   'AccelerationEval verdict')
        if m_orig == impl['eq']:
            R.count('impl-behaves-like-unrepaired-checker')
    if impl.get('access_error'):
        R.disagree({'case': case, 'line': lines[1]}, m_acc,
                   impl['access_error'], 'code generator helper raised')
    if impl['access'] is not None:
        ia = [tuple(x) for x in impl['access']]
        if m_acc != ia:
            R.disagree({'case': case, 'line': lines[1]}, m_acc, ia,
                       'pointers taken by generated compute()')
    if case.get('steppers') is not None:
        if impl['eq'] == ['ok']:
            want = ['ok'] if impl['step'] == ['ok'] else impl['step']
            if m_build == 'ok':
                got = ['ok']
            elif m_build.startswith('step '):
                got = parse_model_verdict(m_build[5:])
            else:
                got = ['model-said', m_build]
            if got != want:
                R.disagree({'case': case, 'line': lines[2]}, got, want,
                           'stepper verdict')
            # the same through the object-level model: distinct stepper
            # objects + keyword -> object; the model expands to (array,
            # stepper) pairs
            sobj = impl.get('sobj') or []
            shared = len(set(sobj)) < len(sobj)
            R.count('tie:stepper-setup-by-object')
            if shared:
                R.count('tie:stepper-setup-by-object:shared')
            if len(m_setup) != 3:
                R.disagree({'case': case, 'line': lines[8]}, m_setup, want,
                           'stepper verdict (object-level model)')
            else:
                got2 = parse_model_verdict(m_setup[0])
                per_obj = parse_model_verdict(m_setup[1])
                if got2 != want:
                    R.disagree({'case': case, 'line': lines[8]}, got2, want,
                               'stepper verdict (object-level model: one '
                               'check per keyword)')
                    if per_obj == want:
                        R.count('impl-behaves-like-check-per-stepper-object')
                if per_obj != got2:
                    R.count('per-object-check-would-differ')
                if impl.get('sbind') is not None:
                    mb = m_setup[2]
                    gotb = sorted(set(tuple(x.split('.'))
                                      for x in mb[5:].split(';'))
                                  if mb != 'bind _' else []) \
                        if mb.startswith('bind ') else mb
                    ib = [tuple(x) for x in impl['sbind']]
                    if gotb != ib:
                        R.disagree({'case': case, 'line': lines[8]}, gotb, ib,
                                   'pointer variables bound (object-level '
                                   'model)')
            if impl.get('code_access') is not None and \
                    impl['saccess'] is not None and not case.get('stages'):
                both = sorted(set(tuple(x) for x in impl['access']) |
                              set(tuple(x) for x in impl['saccess']))
                ca = [tuple(x) for x in impl['code_access']]
                R.count('rendered-source-scanned')
                if ca != both:
                    R.disagree({'case': case}, both, ca,
                               'pointers in the rendered Cython source vs '
                               'helper methods')
            if impl['saccess'] is not None:
                isa = [tuple(x) for x in impl['saccess']]
                if m_sacc != isa:
                    R.disagree({'case': case, 'line': lines[3]}, m_sacc, isa,
                               'pointers taken by generated integrator')
        elif not m_build.startswith('eq '):
            R.disagree({'case': case, 'line': lines[2]}, m_build, impl['eq'],
                       'build verdict')
    ok = oracle(case, impl, R)
    R.count('label:' + case.get('label', '?'))
    R.count('verdict:' + impl['eq'][0])
    if impl['step'] is not None:
        R.count('stepper-verdict:' + impl['step'][0])
    if case.get('full'):
        R.count('through-SPHCompiler._get_code')
    if case.get('stages'):
        R.count('through-make_acceleration_evals(MultiStageEquations)')
    nontrivial = bool(case['arrays']) and any(
        any(a.startswith(('d_', 's_')) or a in dict(impl['table_code'])
            for args in e['methods'].values() for a in args)
        for e in impl['sig'])
    fp = dict(case)
    fp.pop('label', None)
    R.case(json.dumps(fp, sort_keys=True), nontrivial,
           {'case': case, 'impl': [impl['eq'], impl['step']],
            'model': [mod[0], mod[2]], 'property_holds': ok}
           if may_sample and len(R.d['samples']) < 6 else None)
    R.d['traces_validated_against_impl'] += 1


def closure_tie(rng, R, n):
    """Group._setup_precomputed / get_array_names against the model, real
    table and synthetic ones"""
    lines, wants = [], []
    for i in range(n):
        synth = rng.random() < 0.6
        case = gen_synth_case(rng, 'none', synth_table=synth)
        mod = gen_module(case)
        with table_installed(case) as tbl:
            T = 'T=' + wire_table([[k, sorted(cb.symbols)]
                                   for k, cb in tbl.items()])
            objs = build_eqs(case, mod)
            try:
                g = Group(objs)
                s, d = g.get_array_names()
                pk = sorted(g.precomputed.keys())
            except Exception as e:      # noqa
                R.disagree({'case': case}, 'a group', 'exception %s: %s' % (
                    type(e).__name__, str(e)[:200]), 'Group(...) raised')
                continue
            sig = []
            for o in objs:
                dd = {m: list(getfullargspec(getattr(o, m)).args)
                      for m in METHODS if getattr(o, m, None) is not None}
                sig.append({'name': o.name, 'dest': o.dest,
                            'sources': o.sources, 'methods': dd})
            la = []
            for o in objs:
                if hasattr(o, 'loop'):
                    la += getfullargspec(o.loop).args
            lines.append('closure %s L=%s' % (T, nl(dict.fromkeys(la))))
            wants.append(('clo', pk, case))
            lines.append('needs %s Q=%s' % (T, wire_eqs(sig)))
            wants.append(('needs', (sorted(s), sorted(d)), case))
    out = H.run_model('C20', lines)
    for ln, o, (kind, want, case) in zip(lines, out, wants):
        if kind == 'clo':
            got = sorted(set([] if o == 'clo _' else o[4:].split(';'))) \
                if o.startswith('clo ') else o
        else:
            try:
                kv = dict(x.split('=') for x in o.split(' '))
                un = lambda v: [] if v == '_' else v.split(';')  # noqa
                got = (sorted(set(un(kv['src']))), sorted(set(un(kv['dst']))))
            except Exception:       # noqa
                got = o
        if got != want:
            R.disagree({'case': case, 'line': ln}, got, want,
                       'precomputed closure' if kind == 'clo'
                       else 'Group.get_array_names')
        R.count('closure-tie:' + kind)


def main():
    a = H.args()
    WORK['dir'] = os.path.abspath(a.work)
    R = H.Result(
        'cases = (precomputed table: real or synthetic acyclic) x particle '
        'arrays (properties + constants) x equations (shipped classes '
        'instantiated without __init__, or generated classes with random '
        'method signatures) x group structure (plain list, groups, '
        'sub-groups, empty groups, the same equation object twice in a '
        'group / in two groups, the same Group object twice) x optional '
        'steppers (shipped or generated; generated ones take d_* and s_* '
        'arguments, constants; one class on several arrays as separate '
        'objects or as ONE stepper object given to several keywords, the '
        'incomplete array named first or later; any shipped integrator '
        'class), made incomplete by removing one explicitly '
        'or implicitly needed name from the destination or one source (for '
        'steppers: a name reached through d_* or only through s_*, while '
        'another array keeps it), or by '
        'misspelling an array name; distinct = distinct case JSON; '
        'non-trivial = at least one array and one equation that needs an '
        'array property or a precomputed symbol')
    if a.replay:
        rp = json.load(open(a.replay))
        case = rp['case']
        check_cases([case], R)
        print(json.dumps(R.d['property_failures'], indent=1))
        sys.exit(1 if R.d['property_failures'] else 0)
    rng = random.Random(a.seed * 104729 + 20)
    quick = a.tier == 'quick'
    eqs, sts, failed = shipped()
    if failed:
        R.note('modules that could not be imported: ' + ', '.join(failed))
    R.count('shipped-equation-classes', len(eqs))
    R.count('shipped-stepper-classes', len(sts))
    cases = corpus()
    ncorpus = len(cases)
    R.count('corpus', ncorpus)
    # every shipped equation class: complete, one implicit removal, one
    # explicit removal, and a misspelt name for some
    for cls in eqs:
        modes = ['none', 'implicit', 'explicit'] if quick else \
            ['none'] + ['implicit'] * 4 + ['explicit'] * 4 + ['any'] * 3
        if rng.random() < (0.25 if quick else 1.0):
            modes += ['misspell-dest', 'misspell-source']
        for mode in modes:
            cases.append(gen_shipped_case(rng, cls, mode))
    for cls in sts:
        for mode in ['none', 'remove', 'misspell', 'shared', 'shared-remove',
                     'two-remove'] + (
                [] if quick else ['remove'] * 4 + ['shared-remove'] * 4):
            cases.append(gen_shipped_stepper_case(rng, cls, mode))
    # exhaustive removal: every class in the thorough tier, a seeded sample of
    # the classes in the quick tier
    for cls in (rng.sample(eqs, 40) if quick else eqs):
        cases += gen_shipped_exhaustive(rng, cls)
    for cls in (rng.sample(sts, 8) if quick else sts):
        cases += gen_stepper_exhaustive(rng, cls)
    nsyn = 250 if quick else 4000
    modes = ['none', 'implicit', 'explicit', 'any', 'any', 'misspell-dest',
             'misspell-source']
    for i in range(nsyn):
        cases.append(gen_synth_case(rng, rng.choice(modes)))
    for i in range(nsyn):
        cases.append(gen_synth_case(rng, rng.choice(modes), synth_table=True))
    smodes = ['none', 'stepper-remove', 'stepper-remove', 'stepper-remove-s',
              'stepper-remove-s', 'stepper-misspell', 'any']
    for i in range(nsyn if quick else nsyn // 2):
        cases.append(gen_synth_case(rng, rng.choice(smodes),
                                    with_steppers=True))
    for i in range(12 if quick else 150):
        cases += gen_synth_stepper_exhaustive(rng)
        cases += gen_synth_stepper_exhaustive(rng, shared=True)
    for i in range(10):
        cases.append(gen_exact_case(rng))
    check_cases(cases, R, sample_from=ncorpus)
    closure_tie(rng, R, 150 if quick else 2000)
    if a.broken or R.d['disagreements']:
        rng2 = random.Random(a.seed + 12345)
        extra = []
        for cls in eqs:
            for mode in ['implicit', 'explicit', 'any', 'misspell-dest',
                         'misspell-source']:
                extra.append(gen_shipped_case(rng2, cls, mode))
        for i in range(1500):
            extra.append(gen_synth_case(rng2, rng2.choice(modes)))
        for i in range(500):
            extra.append(gen_synth_case(rng2, rng2.choice(smodes),
                                        with_steppers=True))
        before = len(R.d['property_failures'])
        check_cases(extra, R, sample_from=len(extra))
        R.d['search'] = {'extra_cases': len(extra),
                         'found': len(R.d['property_failures']) - before}
    R.write(a.out)


if __name__ == '__main__':
    main()
