"""C04 correspondence + property oracle: the compiled integrator performs
`one_timestep` exactly as written.

impl  : the REAL pipeline of the scratch build -- SPHCompiler(a_evals, integrator)
        renders integrator_cython.mako through IntegratorCythonHelper, pastes the
        integrator's `one_timestep`, compyle/Cython/g++ build it, and
        `Integrator.step(t, dt)` runs it on particle arrays with ghost particles
        (real LinkedListNNPS / DomainManager; every configuration is run in
        the option matrix domain in {periodic, mirror (reflecting walls), none}
        x integrator.set_fixed_h in {False, True}: domain and fixed_h are part
        of the CASE, the generated source does not depend on them, so all
        variants share one compiled module).  A case is a HISTORY of public
        calls on ONE integrator object: steps interleaved with a second, third
        ... `set_nnps` (new LinkedListNNPS / with neighbour cache / BoxSortNNPS
        object, also given to the evaluators), `set_post_stage_callback`
        (another callback / None), `set_fixed_h` toggled, particles added by
        the user -- so anything an earlier step looked up and kept shows.
        The tracer stepper methods come in several syntactic SHAPES (trailing
        `else: pass`, `if ..: pass`, leading docstring + pass, body nested in
        an if, multi-line signature, trailing comment ...) and the generated
        one_timestep texts carry docstrings, comments, blank lines, `pass`,
        multi-line calls: the generator reads the SOURCE TEXT of both.
        Observation: *tracer* steppers and *tracer* equations (generated source,
        compiled by the same pipeline) append every invocation to one event log
        (a constant array shared by all particle arrays, so the order is total
        in serial mode): (method, array id, d_idx, t, dt, stepper attribute,
        per-particle counter, x).  Python-level events go to the same log:
        py_stage hooks, nnps.update / nnps.update_domain WITH THE IDENTITY of the
        NNPS object asked (Python subclasses of the shipped NNPS classes, handed
        over through the public set_nnps), evaluator.compute(t, dt) (delegating proxies in
        `integrator.acceleration_evals`), the post-stage callback with the
        identity of the callback object (Integrator.set_post_stage_callback).
model : lean PysphVerif.Model.Stepper + Model.StepperHist (`hist` lines: the
        object's attributes nnps / callback / fixed_h changed by the setters
        between steps) run by model_c04 on the program that
        translate/timestep2lean.py derives from the SAME one_timestep source
        (Gen/Timesteps.lean for shipped classes, the wire program for generated
        ones); times are computed at Float and compared bit for bit.
oracle: the property statement evaluated independently of the model: the
        integrator's own Python `one_timestep` is *executed literally* by
        CPython on an object whose initialize/stageN/compute_accelerations/
        update_domain/do_post_stage record what the statement says each must
        do; plus end-to-end checks on data (neighbour counts seen by the
        evaluator after a refresh vs brute force; after EVERY
        Integrator.update_domain() the program makes, the ghosts in the arrays
        are exactly images (periodic translates / reflections at the mirror
        walls / none without a domain) of the CURRENT real particles carrying
        their current data, and every real particle within the kernel radius of
        a face has its image -- observed at Integrator.update_domain itself, so
        it also holds the code to account when it decides not to reach the
        NNPS; stepper attributes arrive in the compiled stepper).  The literal
        reading of a history: every refresh / ghost re-creation goes to the
        NNPS given to the MOST RECENT set_nnps, every callback event to the most
        recent callback.  Numerically: shipped steppers and generated
        user-defined steppers (random arithmetic with if/elif/else, `pass`
        branches) under shipped integrators, compiled step == literal execution
        of one_timestep by CPython calling the stepper's own methods, bit for
        bit, ghosts untouched.
"""
import hashlib
import importlib
import json
import os
import random
import re
import sys
import time
import traceback

import numpy as np

import hcommon as H

H.assert_scratch_import()

sys.path.insert(0, os.path.join(os.path.dirname(os.path.abspath(__file__)),
                                '..', 'translate'))
import timestep2lean as T2L  # noqa: E402

NF = 8                  # doubles per event
MAXEV = 6000
HSM = 5.0 / 256.0       # smoothing length: radius 2h = 5/128, positions k/64
GRID = 64
STAGE_RE = re.compile(r'^stage(\d+)$')
WORKER_BUDGET = 3 * 3600
PER_WORKER_LIMIT = 1500    # s; a worker beyond it is killed like a crashed one
RETRIED = []

# documented pairings: integrator -> stepper classes it is used with in the
# schemes / examples / tests of the repository
PAIRING = {
    'pysph.sph.integrator.Integrator': ['pysph.sph.integrator_step.WCSPHStep'],
    'pysph.sph.integrator.EulerIntegrator': [
        'pysph.sph.integrator_step.EulerStep', 'pysph.sph.iisph.IISPHStep',
        'pysph.sph.integrator_step.GSPHStep', 'pysph.sph.rigid_body.EulerStepRigidBody'],
    'pysph.sph.integrator.PECIntegrator': [
        'pysph.sph.integrator_step.WCSPHStep',
        'pysph.sph.integrator_step.TransportVelocityStep',
        'pysph.sph.integrator_step.SolidMechStep',
        'pysph.sph.integrator_step.TwoStageRigidBodyStep',
        'pysph.sph.integrator_step.AdamiVerletStep',
        'pysph.sph.integrator_step.InletOutletStep',
        'pysph.sph.wc.edac.EDACStep', 'pysph.sph.gas_dynamics.psph.PECStep',
        'pysph.sph.bc.inlet_outlet_manager.InletStep'],
    'pysph.sph.integrator.EPECIntegrator': [
        'pysph.sph.integrator_step.WCSPHStep',
        'pysph.sph.integrator_step.GasDFluidStep',
        'pysph.sph.integrator_step.ADKEStep',
        'pysph.sph.rigid_body.RK2StepRigidBody'],
    'pysph.sph.integrator.TVDRK3Integrator': ['pysph.sph.integrator_step.WCSPHTVDRK3Step'],
    'pysph.sph.integrator.LeapFrogIntegrator': ['pysph.sph.integrator_step.LeapFrogStep'],
    'pysph.sph.integrator.PEFRLIntegrator': ['pysph.sph.integrator_step.PEFRLStep'],
    'pysph.sph.swe.basic.SWEIntegrator': ['pysph.sph.swe.basic.SWEStep',
                                         'pysph.sph.swe.basic.SWEInletOutletStep'],
    'pysph.sph.wc.gtvf.GTVFIntegrator': ['pysph.sph.wc.gtvf.GTVFStep'],
    'pysph.sph.wc.crksph.CRKSPHIntegrator': ['pysph.sph.wc.crksph.CRKSPHStep'],
    'pysph.sph.wc.pcisph.PCISPHIntegrator': ['pysph.sph.wc.pcisph.PCISPHStep'],
    'pysph.sph.isph.isph.ISPHIntegrator': ['pysph.sph.isph.isph.ISPHStep'],
    'pysph.sph.isph.sisph.SISPHIntegrator': ['pysph.sph.isph.sisph.SISPHStep',
                                             'pysph.sph.isph.sisph.SISPHGTVFStep'],
    'pysph.sph.gas_dynamics.magma2.TVDRK2Integrator': ['pysph.sph.gas_dynamics.magma2.TVDRK2Step'],
    'pysph.sph.gas_dynamics.magma2.TVDRK2IntegratorWithRecycling': [
        'pysph.sph.gas_dynamics.magma2.TVDRK2Step'],
    'pysph.sph.tests.test_multi_group_integrator.MyIntegrator': [
        'pysph.sph.tests.test_multi_group_integrator.MyStepper'],
}


def mid_of(m):
    return 0 if m == 'initialize' else int(m[5:])


def mname(mid):
    return 'initialize' if mid == 0 else 'stage%d' % mid


def mwire(m):
    return 'i' if m == 'initialize' else str(int(m[5:]))


# --------------------------------------------------------------------------
# generated tracer module

LOGBODY = '''\
        k = declare('long')
        k = int(d_clk[0])
        if k < %(maxev)d:
            d_elog[%(nf)d*k] = %(code)s
            d_elog[%(nf)d*k + 1] = %(aux)s
            d_elog[%(nf)d*k + 2] = d_idx
            d_elog[%(nf)d*k + 3] = t
            d_elog[%(nf)d*k + 4] = dt
            d_elog[%(nf)d*k + 5] = %(e1)s
            d_elog[%(nf)d*k + 6] = d_cnt[d_idx]
            d_elog[%(nf)d*k + 7] = d_x[d_idx]
        d_clk[0] += 1.0
'''


# The code generator decides from the SOURCE TEXT of a stepper method what to
# emit for it (inspect.getsourcelines / getfullargspec in
# integrator_cython_helper.py, the CythonGenerator of compyle).  The same
# method body is therefore rendered in several syntactic shapes that all mean
# the same thing; every one must be applied to every real particle.
def _sh_plain(body):
    return body


def _sh_tail_else_pass(body):
    return body + ['if d_idx < 0:', '    d_cnt[d_idx] += 0.0', 'else:', '    pass']


def _sh_tail_if_pass(body):
    return body + ['if d_idx < 0:', '    pass']


def _sh_tail_pass(body):
    return body + ['# pass', 'pass']


def _sh_head_doc_pass(body):
    return ['"""pass"""', 'pass'] + body


def _sh_tail_comment(body):
    return body + ['# nothing else to do here: pass', '']


def _sh_nested(body):
    # the declaration stays at the top level of the function
    return body[:1] + ['if d_idx >= 0:'] + ['    ' + ln for ln in body[1:]] + \
        ['else:', '    pass']


def _sh_one_line_if(body):
    return body + ['if d_idx < 0: pass']


SHAPES = {'plain': _sh_plain, 'tail_else_pass': _sh_tail_else_pass,
          'tail_if_pass': _sh_tail_if_pass, 'tail_pass': _sh_tail_pass,
          'head_doc_pass': _sh_head_doc_pass, 'tail_comment': _sh_tail_comment,
          'nested': _sh_nested, 'one_line_if': _sh_one_line_if,
          # the signature spread over several lines, body plain
          'multiline_sig': _sh_plain}
SHAPE_NAMES = sorted(SHAPES)


def pick_shapes(rng, methods):
    """method -> shape; about half of the methods keep the plain shape"""
    return {m: (rng.choice(SHAPE_NAMES) if rng.random() < 0.55 else 'plain')
            for m in methods}


def stepper_source(cls, methods, hooks, shapes=None):
    shapes = shapes or {}
    L = ['class %s(IntegratorStep):' % cls,
         '    def __init__(self, aid=0.0, sid=0.0, mv=0.0):',
         '        self.aid = aid',
         '        self.sid = sid',
         '        self.mv = mv']
    for m in methods:
        shape = shapes.get(m, 'plain')
        if shape == 'multiline_sig':
            L.append('    def %s(self, d_idx, d_elog, d_clk,' % m)
            L.append('            d_cnt, d_x,')
            L.append('            t, dt):')
        else:
            L.append('    def %s(self, d_idx, d_elog, d_clk, d_cnt, d_x, t, dt):' % m)
        body = (LOGBODY % dict(maxev=MAXEV, nf=NF, code='%d.0' % (100 + mid_of(m)),
                               aux='self.aid', e1='self.sid')).rstrip('\n').split('\n')
        body = [ln[8:] for ln in body]
        body.append('d_cnt[d_idx] += 1.0')
        if m != 'initialize':
            body.append('d_x[d_idx] += self.mv')
        for ln in SHAPES[shape](body):
            L.append(('        ' + ln) if ln else '')
    for m in hooks:
        L.append('    def py_%s(self, dst, t, dt):' % m)
        L.append('        _HOOK[0](self.aid, %d, dst, t, dt)' % mid_of(m))
    return '\n'.join(L) + '\n'


EQ_SOURCE = '''\
class TrEq_CID(Equation):
    def __init__(self, dest, sources, eid=0.0):
        self.eid = eid
        Equation.__init__(self, dest, sources)
    def initialize(self, d_idx, d_nn):
        d_nn[d_idx] = 0.0
    def loop(self, d_idx, d_nn):
        d_nn[d_idx] += 1.0
    def post_loop(self, d_idx, d_nn, d_elog, d_clk, d_cnt, d_x, t, dt):
%s
''' % (LOGBODY % dict(maxev=MAXEV, nf=NF, code='200.0', aux='self.eid',
                      e1='d_nn[d_idx]')).rstrip('\n')


def module_source(config):
    L = ['from pysph.sph.integrator_step import IntegratorStep',
         'from pysph.sph.equation import Equation',
         'from pysph.sph.integrator import Integrator',
         'from compyle.api import declare',
         '_HOOK = [None]', '']
    done = set()
    for a in config['arrays']:
        st = a.get('stepper')
        if st and st['cls'] not in done:
            done.add(st['cls'])
            L.append(stepper_source(st['cls'], st['methods'], st['hooks'],
                                    st.get('shapes')))
    # the class name carries the configuration id: no two configurations share
    # a generated evaluator module (they are compiled concurrently)
    L.append(EQ_SOURCE.replace('TrEq_CID', 'TrEq_' + config_id(config)))
    L.append('TrEq = TrEq_' + config_id(config))
    ig = config['integrator']
    if ig['kind'] == 'generated':
        L.append('class GenIntegrator(Integrator):')
        for ln in ig['source'].rstrip('\n').split('\n'):
            L.append('    ' + ln)
        L.append('')
    return '\n'.join(L) + '\n'


def config_id(config):
    return hashlib.sha1(json.dumps(config, sort_keys=True).encode()).hexdigest()[:12]


# --------------------------------------------------------------------------
# sessions: several integrators compiled one after the other in ONE process.
# Nothing in the property depends on what the process compiled before, so
# every member is judged against ITS OWN literal reading.  The members are
# different classes that an implementation keeping process-wide state "per
# class NAME" cannot tell apart: all integrator classes are called
# GenIntegrator and all stepper classes G900_<i>, they live in one module and
# have the same __qualname__:
#   factory  : classes defined in the if/elif branches of one factory function
#              (qualname make_member.<locals>.GenIntegrator for all of them)
#   redefine : the class statement executed again with another body (a class
#              re-defined in an interactive session / a reloaded module)
#   type     : type('GenIntegrator', (Base,), {'one_timestep': f}) with
#              another f (itself a re-defined function `one_timestep`)
# a member is either a generated one_timestep or a subclass of a shipped
# integrator that INHERITS its one_timestep (no text of its own).
SESSION_STYLES = ('factory', 'redefine', 'type')
SESSION_INTEG = 'GenIntegrator'


def session_member_block(member, style):
    """source lines defining the stepper classes and the integrator class of
    one member, ending with the names it defines"""
    L = []
    done = []
    for a in member['arrays']:
        st = a.get('stepper')
        if st and st['cls'] not in done:
            done.append(st['cls'])
            L += stepper_source(st['cls'], st['methods'], st['hooks'],
                                st.get('shapes')).rstrip('\n').split('\n')
    ig = member['integrator']
    if ig['kind'] == 'generated':
        src = ig['source'].rstrip('\n').split('\n')
        if style == 'type':
            L += src
            L.append("%s = type('%s', (Integrator,), {'one_timestep': one_timestep})"
                     % (SESSION_INTEG, SESSION_INTEG))
        else:
            L.append('class %s(Integrator):' % SESSION_INTEG)
            L += ['    ' + ln if ln else '' for ln in src]
    else:
        m, c = ig['cls'].rsplit('.', 1)
        L.append('import %s as _bm' % m)
        if style == 'type':
            L.append("%s = type('%s', (_bm.%s,), {})" % (SESSION_INTEG, SESSION_INTEG, c))
        else:
            L.append('class %s(_bm.%s):' % (SESSION_INTEG, c))
            L.append('    pass')
    return L, done + [SESSION_INTEG]


def session_module_source(sconf):
    sid = config_id(sconf)
    L = ['from pysph.sph.integrator_step import IntegratorStep',
         'from pysph.sph.equation import Equation',
         'from pysph.sph.integrator import Integrator',
         'from compyle.api import declare',
         '_HOOK = [None]', '_MEMBERS = {}', '_TREQ = {}', '']
    for k, member in enumerate(sconf['members']):
        nm = 'TrEq_%s_%d' % (sid, k)
        L.append(EQ_SOURCE.replace('TrEq_CID', nm))
        L.append('_TREQ[%d] = %s' % (k, nm))
    style = sconf['style']
    if style == 'factory':
        L.append('def make_member(which):')
        for k, member in enumerate(sconf['members']):
            blk, names = session_member_block(member, style)
            L.append('    %s which == %d:' % ('if' if k == 0 else 'elif', k))
            L += ['        ' + ln if ln else '' for ln in blk]
        L.append('    else:')
        L.append('        raise ValueError(which)')
        # the same local names whatever branch ran
        L.append('    _MEMBERS[which] = dict((k, v) for k, v in locals().items() '
                 "if k != 'which' and not k.startswith('_'))")
    elif style in ('redefine', 'type'):
        L.append('def make_member(which):')
        L.append('    pass        # all members exist once the module is imported')
        for k, member in enumerate(sconf['members']):
            blk, names = session_member_block(member, style)
            L += blk
            L.append('_MEMBERS[%d] = dict(%s)' % (k, ', '.join('%s=%s' % (n, n) for n in names)))
            L.append('')
    else:
        raise ValueError('unknown session style %r' % (style,))
    return '\n'.join(L) + '\n'


class SessionView(object):
    """what run_case needs of a module, for member k of a session"""

    def __init__(self, mod, k):
        if k not in mod._MEMBERS:
            mod.make_member(k)
        for n, v in mod._MEMBERS[k].items():
            setattr(self, n, v)
        self.TrEq = mod._TREQ[k]
        self._HOOK = mod._HOOK


# --------------------------------------------------------------------------
# running the real code

class Recorder(object):
    def __init__(self, clk, elog):
        self.clk = clk
        self.elog = elog
        self.snaps = {}          # event number -> snapshot
        self.domain = []         # results of the ghost check after update_domain

    def py_event(self, code, aux=0.0, idx=0.0, t=0.0, dt=0.0, e1=0.0):
        k = int(self.clk[0])
        if k < MAXEV:
            self.elog[NF * k:NF * k + NF] = [code, aux, idx, t, dt, e1, 0.0, 0.0]
        self.clk[0] += 1.0
        return k


NNPS_VARIANTS = ('ll', 'll_cache', 'box')
_LOGGED = {}


def logged_nnps_class(variant):
    """A Python subclass of the shipped NNPS class whose `update` /
    `update_domain` (the two entry points the integrator uses) record WHICH
    object was asked before delegating.  Being real NNPS objects they go
    through the public `integrator.set_nnps` / `a_eval.set_nnps`; nothing is
    assigned to the integrator behind its back."""
    if variant in _LOGGED:
        return _LOGGED[variant]
    from pysph.base.nnps import LinkedListNNPS, BoxSortNNPS
    base = {'ll': LinkedListNNPS, 'll_cache': LinkedListNNPS, 'box': BoxSortNNPS}[variant]

    class Logged(base):
        def update(self):
            rec = getattr(self, '_rec', None)     # None while constructing
            if rec is not None:
                rec.py_event(400.0, aux=float(self._gen))
            return base.update(self)

        def update_domain(self):
            rec = getattr(self, '_rec', None)
            if rec is not None:
                rec.py_event(401.0, aux=float(self._gen))
            return base.update_domain(self)
    Logged.__name__ = 'Logged_' + variant
    _LOGGED[variant] = Logged
    return Logged


def make_nnps(variant, arrays, kind, rec, gen):
    if variant not in NNPS_VARIANTS:
        raise ValueError('unknown nnps variant %r' % (variant,))
    cls = logged_nnps_class(variant)
    kw = dict(dim=1, particles=arrays, domain=make_domain(kind))
    if variant == 'll_cache':
        kw['cache'] = True
    nnps = cls(**kw)
    nnps._gen = gen
    nnps._rec = rec
    return nnps


class EvalProxy(object):
    def __init__(self, real, index, rec, arrays):
        self._real = real
        self._index = index
        self._rec = rec
        self._arrays = arrays

    def compute(self, t, dt):
        k = self._rec.py_event(402.0, aux=float(self._index), t=t, dt=dt)
        self._rec.snaps[k] = {
            pa.name: (pa.get_number_of_particles(True),
                      [float(v) for v in pa.get('x', only_real_particles=False)])
            for pa in self._arrays}
        return self._real.compute(t, dt)

    def __getattr__(self, n):
        return getattr(self._real, n)


DOMAINS = ('periodic', 'mirror', 'none')
# the option matrix every configuration is run in: k-th case of a configuration
# gets MATRIX[k % len(MATRIX)] (mirror x fixed_h first: the combination that
# needs two options at once)
MATRIX = [('mirror', True), ('periodic', False), ('mirror', False),
          ('none', True), ('periodic', True), ('none', False),
          ('mirror', True), ('periodic', False)]


def case_domain(case):
    """(domain kind, fixed_h) of a case; cases recorded before the option
    matrix existed ran on the periodic domain with the default fixed_h"""
    kind = case.get('domain', 'periodic')
    if kind not in DOMAINS:
        raise ValueError('unknown domain kind %r' % (kind,))
    return kind, bool(case.get('fixed_h', False))


def make_domain(kind):
    from pysph.base.nnps import DomainManager
    if kind == 'periodic':
        return DomainManager(xmin=0.0, xmax=1.0, periodic_in_x=True)
    if kind == 'mirror':
        return DomainManager(xmin=0.0, xmax=1.0, mirror_in_x=True)
    return None


def images_of(kind, xi):
    """the images a real particle at xi can have in the unit interval:
    (face, image position).  All positions are multiples of 1/64 below 4 in
    magnitude, so these expressions are exact in doubles."""
    if kind == 'periodic':
        return [(0.0, xi + 1.0), (1.0, xi - 1.0)]
    if kind == 'mirror':
        return [(0.0, 2 * 0.0 - xi), (1.0, 2 * 1.0 - xi)]
    return []


def ghost_check(arrays, kind):
    """after update_domain the ghosts of every array are exactly images of its
    CURRENT real particles:
      * every ghost is an image (periodic: x -+ 1; mirror: reflection 2*face - x)
        of a real particle of its array, carrying that particle's current data
        (the per-particle step counter), no image more often than the real
        particles account for (multiset inclusion); without a domain there is
        no ghost at all;
      * every real particle within the kernel radius 2h of a face has its image
        (the ghost layer is n_layers * cell size >= 2h wide: which particles
        beyond 2h also get one is the DomainManager's business, C07)."""
    from collections import Counter
    bad = []
    for pa in arrays:
        nr = pa.get_number_of_particles(True)
        x = [float(v) for v in pa.get('x', only_real_particles=False)]
        c = [float(v) for v in pa.get('cnt', only_real_particles=False)]
        tag = pa.get('tag', only_real_particles=False)
        if any(int(v) != 0 for v in tag[:nr]) or any(int(v) == 0 for v in tag[nr:]):
            bad.append((pa.name, 'not-aligned', [int(v) for v in tag]))
            continue
        may = Counter()
        must = Counter()
        for i in range(nr):
            for face, xim in images_of(kind, x[i]):
                may[(xim + 0.0, c[i])] += 1
                if abs(x[i] - face) < 2 * HSM and \
                        (kind == 'mirror' or 0.0 <= x[i] <= 1.0):
                    must[(xim + 0.0, c[i])] += 1
        have = Counter((x[j] + 0.0, c[j]) for j in range(nr, len(x)))
        reals = sorted((x[i], c[i]) for i in range(nr))
        for g, n in sorted(have.items()):
            if n > may.get(g, 0):
                bad.append((pa.name, '%d ghost(s) at x=%r with cnt=%r, but the current '
                            'real particles have %d such image(s) (%s domain)'
                            % (n, g[0], g[1], may.get(g, 0), kind), reals))
        for g, n in sorted(must.items()):
            if have.get(g, 0) < n:
                bad.append((pa.name, 'the image at x=%r (cnt=%r) of a real particle within '
                            '2h of a face is present %d time(s), needed %d (%s domain)'
                            % (g[0], g[1], have.get(g, 0), n, kind), reals))
    return bad


def case_ops(case):
    """the history of public calls of a case:
       ('step', t, dt) | ('nnps', variant) | ('cb', 'new'|'none') |
       ('fixed_h', bool) | ('grow', array name, n)
    `case['reconf']` maps a step number to the calls made BEFORE that step
    (after the steps before it).  Cases recorded before histories existed have
    steps only."""
    rc = case.get('reconf') or {}
    ops = []
    for i, (t, dt) in enumerate(case['steps']):
        for op in rc.get(str(i), []):
            if op[0] == 'nnps' and op[1] in NNPS_VARIANTS and len(op) == 2:
                ops.append(('nnps', op[1]))
            elif op[0] == 'cb' and op[1] in ('new', 'none') and len(op) == 2:
                ops.append(('cb', op[1]))
            elif op[0] == 'fixed_h' and len(op) == 2:
                ops.append(('fixed_h', bool(op[1])))
            elif op[0] == 'grow' and len(op) == 3:
                ops.append(('grow', str(op[1]), int(op[2])))
            else:
                raise ValueError('unknown history op %r' % (op,))
        ops.append(('step', t, dt))
    return ops


def ops_with_ids(case):
    """case_ops with the object identities the harness hands out: NNPS objects
    0 (initial), 1, 2, ...; callbacks 0 (initial, if any), 1, 2, ...
    -> (initial (nnps id, callback id or None, fixed_h), [op + (id,)])"""
    gen, cbn = 0, 0
    out = []
    for op in case_ops(case):
        if op[0] == 'nnps':
            gen += 1
            out.append(('nnps', op[1], gen))
        elif op[0] == 'cb':
            if op[1] == 'new':
                cbn += 1
                out.append(('cb', 'new', cbn))
            else:
                out.append(('cb', 'none', None))
        else:
            out.append(op)
    return (0, 0 if case['cb'] else None, bool(case.get('fixed_h', False))), out


def load_integrator_class(config, mod):
    ig = config['integrator']
    if ig['kind'] == 'generated' or ig.get('derived'):
        return mod.GenIntegrator
    q = ig['cls']
    m, c = q.rsplit('.', 1)
    return getattr(importlib.import_module(m), c)


def run_case(config, case, mod):
    """-> dict(observed=[event strings], extra checks ...) on the real code"""
    from pysph.base.utils import get_particle_array
    from pysph.sph.equation import MultiStageEquations
    from pysph.sph.acceleration_eval import AccelerationEval, make_acceleration_evals
    from pysph.base.kernels import CubicSpline
    from pysph.base.nnps import LinkedListNNPS
    from pysph.sph.sph_compiler import SPHCompiler

    kind, fixed_h = case_domain(case)
    # group names come from a process-wide counter and end up in the generated
    # source; restart it so that every case of a configuration renders the same
    # text and hits the compiled-module cache
    import pysph.sph.equation as _eqmod
    _eqmod.group_counter = _eqmod._counter()
    names = [a['name'] for a in config['arrays']]
    arrays = []
    for a in config['arrays']:
        xs = np.array(case['x'][a['name']], dtype=float) / GRID
        pa = get_particle_array(name=a['name'], x=xs, h=np.ones_like(xs) * HSM,
                                m=np.ones_like(xs))
        pa.add_property('nn')
        pa.add_property('cnt')
        pa.add_constant('clk', [0.0])
        pa.add_constant('elog', np.zeros(NF * MAXEV))
        arrays.append(pa)
    for pa in arrays[1:]:
        pa.constants['clk'] = arrays[0].constants['clk']
        pa.constants['elog'] = arrays[0].constants['elog']
    clk = arrays[0].get_carray('clk').get_npy_array()
    elog = arrays[0].get_carray('elog').get_npy_array()
    rec = Recorder(clk, elog)
    aid = {n: float(i) for i, n in enumerate(names)}
    kernel = CubicSpline(dim=1)
    nev = config['nev']
    groups = [[mod.TrEq(dest=n, sources=names, eid=float(16 * e + i))
               for i, n in enumerate(names)] for e in range(nev)]
    if nev == 1:
        a_evals = [AccelerationEval(particle_arrays=arrays, equations=groups[0],
                                    kernel=kernel)]
    else:
        a_evals = make_acceleration_evals(arrays, MultiStageEquations(groups), kernel)
    cls = load_integrator_class(config, mod)
    kw = {}
    sids = {}
    for a in config['arrays']:
        st = a.get('stepper')
        if st:
            sids[a['name']] = float(case['sid'][a['name']])
            kw[a['name']] = getattr(mod, st['cls'])(
                aid=aid[a['name']], sid=sids[a['name']],
                mv=float(case['mv'][a['name']]) / GRID)
    out = {'compile_error': None}
    integ = cls(**kw)
    try:
        comp = SPHCompiler(a_evals if nev > 1 else a_evals[0], integrator=integ)
        comp.compile()
    except BaseException as e:       # noqa  (Cython errors are not Exceptions)
        if isinstance(e, KeyboardInterrupt):
            raise
        out['compile_error'] = '%s: %s' % (type(e).__name__, str(e)[-300:])
        return out
    nnps = make_nnps(case.get('nnps0', 'll'), arrays, kind, rec, 0)
    for ae in a_evals:
        ae.set_nnps(nnps)
    integ.set_nnps(nnps)
    # what Solver.setup does with its fixed_h argument (--fixed-h)
    integ.set_fixed_h(fixed_h)
    # observation points (the anchored code keeps running: these only delegate).
    # The generated class calls `self.integrator.update_domain()`: when THAT
    # returns the ghosts must be the images of the current real particles,
    # whatever the Python method chose to do
    real_update_domain = integ.update_domain

    def update_domain_observed():
        r = real_update_domain()
        rec.domain.append((int(clk[0]), ghost_check(arrays, kind)))
        return r
    integ.update_domain = update_domain_observed
    integ.acceleration_evals = [EvalProxy(ae, i, rec, arrays)
                                for i, ae in enumerate(a_evals)]
    by_name = {pa.name: pa for pa in arrays}
    grow = case.get('grow', {})
    grown = [0]

    def add_to(dst, g):
        xs = [(1 + 2 * (grown[0] + j)) % GRID / float(GRID) for j in range(g)]
        grown[0] += g
        dst.add_particles(x=xs, h=[HSM] * g, m=[1.0] * g)

    def hook(aid_, mid, dst, t, dt):
        rec.py_event(300.0 + mid, aux=float(aid_),
                     idx=float(dst.get_number_of_particles(True)), t=t, dt=dt)
        g = grow.get(dst.name, {}).get(mname(mid), 0)
        if g:
            add_to(dst, g)
    mod._HOOK[0] = hook

    def make_cb(cid):
        def cb(t, dt, stage):
            rec.py_event(500.0, aux=float(stage), t=t, dt=dt, e1=float(cid))
        return cb
    if case['cb']:
        integ.set_post_stage_callback(make_cb(0))
    out['n0'] = {pa.name: (pa.get_number_of_particles(True),
                           pa.get_number_of_particles() - pa.get_number_of_particles(True))
                 for pa in arrays}
    out['ghosts_present'] = sum(v[1] for v in out['n0'].values())
    marks = []
    out['raised'] = None
    keep = [nnps]
    for op in ops_with_ids(case)[1]:
        # every call below is the public API, made between two steps
        if op[0] == 'nnps':
            rec.py_event(601.0, aux=float(op[2]))
            new = make_nnps(op[1], arrays, kind, rec, op[2])
            for ae in a_evals:
                ae.set_nnps(new)
            integ.set_nnps(new)
            keep.append(new)
            continue
        if op[0] == 'cb':
            rec.py_event(602.0)
            integ.set_post_stage_callback(make_cb(op[2]) if op[1] == 'new' else None)
            continue
        if op[0] == 'fixed_h':
            rec.py_event(603.0)
            integ.set_fixed_h(op[1])
            continue
        if op[0] == 'grow':
            rec.py_event(600.0, aux=aid[op[1]], idx=float(op[2]))
            add_to(by_name[op[1]], op[2])
            continue
        t, dt = op[1], op[2]
        marks.append(int(clk[0]))
        try:
            integ.step(t, dt)
        except (AttributeError, IndexError) as e:
            out['raised'] = type(e).__name__
            break
    n = int(clk[0])
    out['overflow'] = n >= MAXEV
    ev = elog[:NF * min(n, MAXEV)].reshape(-1, NF).copy()
    out['raw'] = ev
    out['marks'] = marks
    out['snaps'] = rec.snaps
    out['domain'] = rec.domain
    out['sids'] = sids
    out['names'] = names
    out['final'] = {pa.name: {'nreal': pa.get_number_of_particles(True),
                              'cnt': [float(v) for v in pa.get('cnt')],
                              'x': [float(v) for v in pa.get('x')]}
                    for pa in arrays}
    out['c_regs'] = (float(integ.c_integrator.t), float(integ.c_integrator.dt),
                     float(integ.c_integrator.orig_t))
    return out


def canon_observed(config, case, out):
    """raw log -> (event strings in the driver's format, list of problems seen
    on the way: (key, text))"""
    names = out['names']
    ev = out['raw']
    res = []
    probs = []
    nreal = {n: out['n0'][n][0] for n in names}
    i = 0
    N = len(ev)
    while i < N:
        code, aux, idx, t, dt, e1, cnt, x = [float(v) for v in ev[i]]
        c = int(code)
        if 100 <= c < 200:
            nm = names[int(aux)]
            res.append('s:%s:%s:%d:%s:%s' % (nm, mwire(mname(c - 100)), int(idx),
                                             H.fbits(t), H.fbits(dt)))
            if e1 != out['sids'].get(nm):
                probs.append(('C04:stepper-attributes',
                              'the compiled stepper of %s carries the attributes of the '
                              'instance given to the integrator (sid=%r)'
                              % (nm, out['sids'].get(nm)),
                              'it carries sid=%r' % e1))
            if int(idx) >= nreal[nm]:
                probs.append(('C04:ghost-stepped',
                              '%s of %s is applied to the %d real particles and to no ghost'
                              % (mname(c - 100), nm, nreal[nm]),
                              'applied to index %d' % int(idx)))
        elif 300 <= c < 400:
            nm = names[int(aux)]
            res.append('h:%s:%s:%s:%s' % (nm, mwire(mname(c - 300)),
                                          H.fbits(t), H.fbits(dt)))
            nreal[nm] += case.get('grow', {}).get(nm, {}).get(mname(c - 300), 0)
        elif c == 400:
            res.append('n:%d' % int(aux))
        elif c == 401:
            res.append('d:%d' % int(aux))
        elif c == 600:
            # particles added to an array between two steps
            nreal[names[int(aux)]] += int(idx)
        elif c in (601, 602, 603):
            pass                # set_nnps / set_post_stage_callback / set_fixed_h
        elif c == 402:
            res.append('e:%d:%s:%s' % (int(aux), H.fbits(t), H.fbits(dt)))
            # the compiled tracer equations of this evaluator follow
            j = i + 1
            seen = {}
            while j < N and int(ev[j][0]) == 200:
                _, eid, di, t2, dt2, nn, _, x2 = [float(v) for v in ev[j]]
                e_idx, a_idx = divmod(int(eid), 16)
                if e_idx != int(aux) or t2 != t or dt2 != dt:
                    probs.append(('C04:evaluator-arguments',
                                  'compute_accelerations(%d) evaluates equation set %d '
                                  'at (t,dt)=(%r,%r)' % (int(aux), int(aux), t, dt),
                                  'equation set %d ran with (%r,%r)' % (e_idx, t2, dt2)))
                seen.setdefault(names[a_idx], []).append((int(di), nn, x2))
                j += 1
            want = {n: list(range(nreal[n])) for n in names}
            got = {n: [d for d, _, _ in seen.get(n, [])] for n in names}
            if want != got:
                probs.append(('C04:evaluator-destinations',
                              'evaluator %d visits the real particles %r' % (int(aux), want),
                              'visited %r' % (got,)))
            out.setdefault('evals', []).append((i, int(aux), seen))
            i = j
            continue
        elif c == 500:
            res.append('c:%d:%s:%s:%d' % (int(e1), H.fbits(t), H.fbits(dt), int(aux)))
        elif c == 200:
            probs.append(('C04:evaluator-outside-compute',
                          'equations run only inside evaluator.compute',
                          'a tracer equation ran outside'))
        else:
            probs.append(('C04:log-garbage', 'known event codes', 'event code %r' % code))
        i += 1
    return res, probs


# --------------------------------------------------------------------------
# the property's reading: execute one_timestep literally

class Literal(object):
    """`self` for the integrator's own Python `one_timestep`"""

    def __init__(self, config, case, nreal, t, dt, nnps_id=0, cb_id=None):
        # "the integrator's NNPS" / "the post-stage callback": the objects given
        # to the most recent set_nnps / set_post_stage_callback of the history
        self._nnps_id = nnps_id
        self._cb_id = cb_id
        self._steppers = {a['name']: a['stepper'] for a in config['arrays']
                          if a.get('stepper')}
        self._grow = case.get('grow', {})
        self._nreal = nreal
        self._t0 = t
        self._cur = t
        self._dt = dt
        self._nev = config['nev']
        self.ev = []
        self.refreshed = []     # per eval event: were neighbours refreshed
        wr = set()
        for st in self._steppers.values():
            wr.update(st['methods'])
            wr.update(m for m in st['hooks'] if m != 'initialize')
        self._wrappers = wr

    def __getattr__(self, name):
        if name == 'initialize' or STAGE_RE.match(name):
            if name not in self._wrappers:
                raise AttributeError(name)
            return lambda: self._stage(name)
        raise AttributeError(name)

    def _stage(self, m):
        for nm in sorted(self._steppers):
            st = self._steppers[nm]
            if m in st['hooks']:
                self.ev.append('h:%s:%s:%s:%s' % (nm, mwire(m), H.fbits(self._cur),
                                                  H.fbits(self._dt)))
                self._nreal[nm] += self._grow.get(nm, {}).get(m, 0)
            if m in st['methods']:
                for i in range(self._nreal[nm]):
                    self.ev.append('s:%s:%s:%d:%s:%s' % (
                        nm, mwire(m), i, H.fbits(self._cur), H.fbits(self._dt)))

    def compute_accelerations(self, index=0, update_nnps=True):
        if update_nnps:
            self.ev.append('n:%d' % self._nnps_id)
        if not 0 <= index < self._nev:
            raise IndexError(index)
        self.refreshed.append(bool(update_nnps))
        self.ev.append('e:%d:%s:%s' % (index, H.fbits(self._cur), H.fbits(self._dt)))

    def update_domain(self):
        self.ev.append('d:%d' % self._nnps_id)

    def do_post_stage(self, stage_dt, stage):
        self._cur = self._t0 + stage_dt
        if self._cb_id is not None:
            self.ev.append('c:%d:%s:%s:%d' % (self._cb_id, H.fbits(self._cur),
                                              H.fbits(self._dt), stage))


def literal_events(config, case, cls, n0):
    nreal = {n: v[0] for n, v in n0.items()}
    ev = []
    refreshed = []
    (nnps_id, cb_id, _), ops = ops_with_ids(case)
    for op in ops:
        if op[0] == 'nnps':
            nnps_id = op[2]
            continue
        if op[0] == 'cb':
            cb_id = op[2]
            continue
        if op[0] == 'fixed_h':
            continue            # no statement of one_timestep depends on it
        if op[0] == 'grow':
            nreal[op[1]] += op[2]
            continue
        t, dt = op[1], op[2]
        lit = Literal(config, case, nreal, t, dt, nnps_id, cb_id)
        try:
            cls.one_timestep(lit, t, dt)
        except (AttributeError, IndexError) as e:
            # executing the method literally fails here, after the statements
            # before it: so must the compiled integrator
            ev += lit.ev + ['x:' + type(e).__name__]
            refreshed += lit.refreshed
            break
        ev += lit.ev
        refreshed += lit.refreshed
    return ev, refreshed



# --------------------------------------------------------------------------
# shipped steppers, numerically: the compiled step vs the literal execution of
# one_timestep by CPython calling the stepper's own Python methods

ZEQ_SOURCE = '''\
class ZEq_CID(Equation):
    def __init__(self, dest, sources, w=1.0):
        self.w = w
        Equation.__init__(self, dest, sources)
    def initialize(self, d_idx, d_zz, t, dt):
        d_zz[d_idx] += (t + dt)*self.w
'''


def numeric_module_source(config):
    cid = config_id(config)
    src = ('from pysph.sph.equation import Equation\n' +
           ZEQ_SOURCE.replace('ZEq_CID', 'ZEq_' + cid) + 'ZEq = ZEq_' + cid + '\n')
    if config.get('stepper_src'):
        src += 'from pysph.sph.integrator_step import IntegratorStep\n' + \
            config['stepper_src']
    return src


# generated ("user-defined") steppers with arithmetic and control flow: random
# bodies over the properties x, u, au, x0, u0, w and the attributes a, b of the
# stepper; branches that are a bare `pass`, trailing `else: pass`, elif chains.
# Only + - * (exact in doubles or identically rounded in C and in CPython).
GPROPS = ['x', 'u', 'au', 'x0', 'u0', 'w']


def _g_expr(rng, depth=0):
    r = rng.random()
    if depth >= 2 or r < 0.35:
        return rng.choice(['d_%s[d_idx]' % rng.choice(GPROPS), 'dt', 't', 'self.a', 'self.b',
                           rng.choice(['0.5', '2.0', '0.25', '1.5', '3.0', '0.1'])])
    op = rng.choice(['+', '-', '*', '*'])
    return '(%s %s %s)' % (_g_expr(rng, depth + 1), op, _g_expr(rng, depth + 1))


def _g_cond(rng):
    r = rng.random()
    if r < 0.4:
        return 'd_%s[d_idx] %s %s' % (rng.choice(GPROPS), rng.choice(['<', '>', '<=', '>=']),
                                      rng.choice(['0.0', '0.5', '-0.25']))
    if r < 0.6:
        return 'd_idx %s %d' % (rng.choice(['<', '>=', '==']), rng.randrange(3))
    if r < 0.8:
        return '%s > %s' % (_g_expr(rng, 1), _g_expr(rng, 1))
    return 'dt < %s' % rng.choice(['0.125', '0.2', '0.0'])


def _g_assign(rng):
    return 'd_%s[d_idx] %s %s' % (rng.choice(GPROPS), rng.choice(['=', '+=', '-=']),
                                  _g_expr(rng))


def _g_block(rng, depth=0):
    out = []
    for _ in range(rng.choice([1, 1, 2, 3])):
        r = rng.random()
        if r < 0.55 or depth >= 2:
            out.append(_g_assign(rng))
            continue
        out.append('if %s:' % _g_cond(rng))
        a = ['pass'] if rng.random() < 0.3 else _g_block(rng, depth + 1)
        out += ['    ' + ln for ln in a]
        if rng.random() < 0.3:
            out.append('elif %s:' % _g_cond(rng))
            out += ['    ' + ln for ln in _g_block(rng, depth + 1)]
        if rng.random() < 0.7:
            out.append('else:')
            b = ['pass'] if (a != ['pass'] and rng.random() < 0.5) else _g_block(rng, depth + 1)
            out += ['    ' + ln for ln in b]
    return out


def gen_numeric_stepper(rng, cls, nstages):
    L = ['class %s(IntegratorStep):' % cls,
         '    def __init__(self, a=0.5, b=-1.25):',
         '        self.a = a',
         '        self.b = b']
    meths = ['initialize'] + ['stage%d' % k for k in range(1, nstages + 1)]
    for m in meths:
        body = _g_block(rng)
        tail = rng.random()
        if tail < 0.25 and body[-1] != '    pass':
            body += ['if %s:' % _g_cond(rng), '    ' + _g_assign(rng), 'else:', '    pass']
        elif tail < 0.35:
            body += ['pass']
        elif tail < 0.45:
            body = ['pass'] + body
        text = '\n'.join(body)
        args = ['d_idx'] + ['d_' + q for q in GPROPS if ('d_%s[' % q) in text]
        if re.search(r'\bt\b', text):
            args.append('t')
        if re.search(r'\bdt\b', text):
            args.append('dt')
        L.append('    def %s(self, %s):' % (m, ', '.join(args)))
        L += ['        ' + ln for ln in body]
    return '\n'.join(L) + '\n'


class LiteralNumeric(object):
    def __init__(self, stepper, state, nreal, t, dt, nev):
        self._st = stepper
        self._state = state
        self._n = nreal
        self._t0 = t
        self._cur = t
        self._dt = dt
        self._nev = nev
        self.cbs = []

    def __getattr__(self, name):
        if name == 'initialize' or STAGE_RE.match(name):
            if not hasattr(self._st, name) and not hasattr(self._st, 'py_' + name):
                raise AttributeError(name)
            return lambda: self._stage(name)
        raise AttributeError(name)

    def _stage(self, m):
        import inspect
        meth = getattr(self._st, m, None)
        if meth is None:
            return
        args = inspect.getfullargspec(meth).args[1:]
        for i in range(self._n):
            kw = {}
            for a in args:
                if a == 'd_idx':
                    kw[a] = i
                elif a == 't':
                    kw[a] = self._cur
                elif a == 'dt':
                    kw[a] = self._dt
                else:
                    kw[a] = self._state[a[2:]]
            meth(**kw)

    def compute_accelerations(self, index=0, update_nnps=True):
        if not 0 <= index < self._nev:
            raise IndexError(index)
        zz = self._state['zz']
        for i in range(self._n):
            zz[i] += (self._cur + self._dt) * float(index + 1)

    def update_domain(self):
        pass

    def do_post_stage(self, stage_dt, stage):
        self._cur = self._t0 + stage_dt
        self.cbs.append((self._cur, self._dt, stage))


def run_numeric_case(config, case, mod):
    import inspect
    import pysph.sph.equation as _eqmod
    _eqmod.group_counter = _eqmod._counter()
    from pysph.base.utils import get_particle_array
    from pysph.sph.equation import MultiStageEquations
    from pysph.sph.acceleration_eval import AccelerationEval, make_acceleration_evals
    from pysph.base.kernels import CubicSpline
    from pysph.base.nnps import LinkedListNNPS
    from pysph.sph.sph_compiler import SPHCompiler
    sm, sc = config['stepper'].rsplit('.', 1)
    if config.get('stepper_src'):
        Step0 = getattr(mod, sc)
    else:
        Step0 = getattr(importlib.import_module(sm), sc)
    skw = case.get('skw', {})

    def Step():
        return Step0(**skw)
    cls = load_integrator_class(config, mod)
    rng = random.Random(case['seed'])
    nr, ng = case['n_real'], case['n_ghost']
    n = nr + ng
    props = set()
    stepper = Step()
    for m in dir(stepper):
        if m == 'initialize' or STAGE_RE.match(m):
            for a in inspect.getfullargspec(getattr(stepper, m)).args[1:]:
                if a.startswith('d_') and a != 'd_idx':
                    props.add(a[2:])
                elif a not in ('d_idx', 't', 'dt', 'self'):
                    return {'skip': 'argument %r of %s.%s' % (a, sc, m)}
    props.add('zz')
    init = {}
    for p in sorted(props):
        if p == 'h':
            init[p] = [rng.uniform(0.05, 0.2) for _ in range(n)]
        elif p in ('rho', 'm', 'rho0', 'V', 'cs'):
            init[p] = [rng.uniform(0.5, 2.0) for _ in range(n)]
        else:
            init[p] = [rng.uniform(-1.0, 1.0) for _ in range(n)]
    # ---- the literal execution first (it also guards the compiled run
    # against steppers that index beyond one value per particle)
    state = {p: np.array(v, dtype=float) for p, v in init.items()}
    cb_lit = []
    try:
        for t, dt in case['steps']:
            lit = LiteralNumeric(stepper, state, nr, t, dt, config['nev'])
            cls.one_timestep(lit, t, dt)
            cb_lit += lit.cbs
    except Exception as e:     # noqa
        return {'skip': 'literal execution of %s raises %s: %s'
                % (sc, type(e).__name__, str(e)[:100])}
    # ---- the compiled integrator
    base = dict(name='fluid')
    for p in ('x', 'h', 'm'):
        base[p] = np.array(init.get(p, [0.1 * (i + 1) for i in range(n)]), dtype=float)
    pa = get_particle_array(**base)
    for p in sorted(props):
        if p not in pa.properties:
            pa.add_property(p)
        pa.get_carray(p).get_npy_array()[:] = init[p]
    tag = pa.get_carray('tag').get_npy_array()
    tag[nr:] = 2
    pa.align_particles()
    arrays = [pa]
    kernel = CubicSpline(dim=1)
    nev = config['nev']
    groups = [[mod.ZEq(dest='fluid', sources=None, w=float(e + 1))] for e in range(nev)]
    if nev == 1:
        a_evals = [AccelerationEval(particle_arrays=arrays, equations=groups[0], kernel=kernel)]
    else:
        a_evals = make_acceleration_evals(arrays, MultiStageEquations(groups), kernel)
    integ = cls(fluid=Step())
    try:
        comp = SPHCompiler(a_evals if nev > 1 else a_evals[0], integrator=integ)
        comp.compile()
    except BaseException as e:       # noqa
        if isinstance(e, KeyboardInterrupt):
            raise
        return {'skip': 'does not compile with generic properties: %s' % str(e)[-120:]}
    nnps = LinkedListNNPS(dim=1, particles=arrays)
    for ae in a_evals:
        ae.set_nnps(nnps)
    integ.set_nnps(nnps)
    cb_obs = []
    integ.set_post_stage_callback(lambda t, dt, k: cb_obs.append((t, dt, k)))
    for t, dt in case['steps']:
        integ.step(t, dt)
    bad = []
    for p in sorted(props):
        got = pa.get(p, only_real_particles=False)
        want = state[p]
        for i in range(n):
            g, w = float(got[i]), float(want[i])
            if g != w and not (g != g and w != w):
                bad.append((p, i, 'ghost' if i >= nr else 'real', w, g))
    return {'bad': bad[:6], 'nbad': len(bad), 'cb_ok': cb_lit == cb_obs,
            'cb': [cb_lit[:3], cb_obs[:3]], 'props': sorted(props)}

def tracer_result(config, case, mod, cls):
    """one case of one configuration on the real code + the literal reading"""
    r = {'case': case}
    try:
        out = run_case(config, case, mod)
    except Exception:      # noqa
        r['error'] = traceback.format_exc()[-1500:]
        return r
    if out['compile_error']:
        r['compile_error'] = out['compile_error']
        # what the literal reading says about it
        n0 = {a['name']: (len(case['x'][a['name']]), 0) for a in config['arrays']}
        lit, info = literal_events(config, case, cls, n0)
        r['literal'] = lit
        r['literal_info'] = info
        return r
    obs, probs = canon_observed(config, case, out)
    if out['raised']:
        obs.append('x:' + out['raised'])
    r['observed'] = obs
    r['problems'] = probs
    r['n0'] = out['n0']
    r['overflow'] = out['overflow']
    r['c_regs'] = out['c_regs']
    r['final'] = out['final']
    lit, info = literal_events(config, case, cls, out['n0'])
    r['literal'] = lit
    r['literal_info'] = info if lit is None else None
    # neighbour oracle: after a refresh the evaluator must see the
    # neighbours of the positions as they are at that moment
    nb = []
    if lit is not None:
        refreshed = info
        for k, (pos, index, seen) in enumerate(out.get('evals', [])):
            if k >= len(refreshed) or not refreshed[k]:
                continue
            snap = out['snaps'].get(pos)
            if snap is None:
                continue
            allx = [v for n in out['names'] for v in snap[n][1]]
            r2 = (2.0 * HSM) ** 2
            for n in out['names']:
                for di, nn, x2 in seen.get(n, []):
                    xi = snap[n][1][di]
                    want = sum(1 for xj in allx if (xi - xj) ** 2 < r2)
                    if want != int(nn):
                        nb.append((k, index, n, di, xi, want, int(nn)))
    r['nbr_bad'] = nb[:5]
    r['domain_bad'] = [(k, b[:3]) for k, b in out['domain'] if b][:3]
    r['n_domain'] = len(out['domain'])
    r['ghosts_present'] = out['ghosts_present']
    r['domain'] = list(case_domain(case))
    return r


# --------------------------------------------------------------------------
# worker: one compiled module configuration, several cases

def worker(job):
    config, cases, work = job
    t0 = time.time()
    cid = config_id(config)
    d = os.path.join(work, 'c04-' + cid)
    os.makedirs(d, exist_ok=True)
    modname = 'c04tr_' + cid
    with open(os.path.join(d, modname + '.py'), 'w') as fh:
        fh.write(numeric_module_source(config) if config.get('numeric')
                 else session_module_source(config) if config.get('session')
                 else module_source(config))
    sys.path.insert(0, d)
    results = []
    try:
        mod = importlib.import_module(modname)
        cls = None if config.get('session') else load_integrator_class(config, mod)
        if config.get('numeric'):
            for ci, case in enumerate(cases):
                print('case %d: %s' % (ci, json.dumps(case, sort_keys=True)), flush=True)
                r = {'case': case}
                try:
                    r['numeric'] = run_numeric_case(config, case, mod)
                except Exception:      # noqa
                    r['error'] = traceback.format_exc()[-1500:]
                results.append(r)
            return {'config': config, 'results': results, 'secs': time.time() - t0}
        if config.get('session'):
            # members in the order of the session case, all in THIS process
            for ci, scase in enumerate(cases):
                for pos, el in enumerate(scase['seq']):
                    member = config['members'][el['member']]
                    print('session case %d element %d (member %d): %s'
                          % (ci, pos, el['member'], json.dumps(el['case'], sort_keys=True)),
                          flush=True)
                    try:
                        view = SessionView(mod, el['member'])
                        r = tracer_result(member, el['case'], view,
                                          load_integrator_class(member, view))
                    except Exception:      # noqa
                        r = {'case': el['case'], 'error': traceback.format_exc()[-1500:]}
                    r['member'] = el['member']
                    r['pos'] = pos
                    try:
                        r['cls_names'] = [view.GenIntegrator.__module__,
                                          view.GenIntegrator.__qualname__]
                    except Exception:      # noqa
                        r['cls_names'] = ['?', '?']
                    r['session_case'] = {'seq': scase['seq'][:pos + 1]}
                    results.append(r)
            return {'config': config, 'results': results, 'secs': time.time() - t0}
        for ci, case in enumerate(cases):
            print('case %d: %s' % (ci, json.dumps(case, sort_keys=True)), flush=True)
            results.append(tracer_result(config, case, mod, cls))
    except BaseException:      # noqa
        return {'config': config, 'fatal': traceback.format_exc()[-3000:],
                'results': results, 'secs': time.time() - t0}
    return {'config': config, 'results': results, 'secs': time.time() - t0}


# --------------------------------------------------------------------------
# configurations and cases

def tracer_for(sig, cls, shapes=None):
    ms, hs = sig
    st = {'cls': cls, 'methods': list(ms), 'hooks': list(hs)}
    if shapes:
        st['shapes'] = {m: shapes[m] for m in ms if shapes.get(m, 'plain') != 'plain'}
    return st


def program_of(config, tab):
    ig = config['integrator']
    if ig['kind'] == 'generated':
        return T2L.parse_one_timestep(ig['source'])
    owner = tab['integrators'][ig['cls']]
    return tab['programs'][owner][0]


def has_stale_eval(prog):
    return any(c[0] == 'A' and not c[2] for c in prog)


def shipped_config(q, tab, rng, variant):
    """tracer steppers with the method sets of the steppers `q` is documented
    with; array names deliberately not in sorted keyword order; one array
    without a stepper (a boundary)"""
    pairs = PAIRING[q]
    prog = tab['programs'][tab['integrators'][q]][0]
    nev = 1 + max([c[1] for c in prog if c[0] == 'A'] + [0])
    names = ['fluid', 'b2', 'a_in', 'wall']
    rng.shuffle(names)
    narr = 1 + (variant % 3)
    arrays = []
    shapes_of = {}          # arrays sharing a tracer class share its source
    for i in range(narr):
        sq = pairs[(variant + i) % len(pairs)]
        sig = tab['steppers'][sq]
        # same class for arrays with equal signature: two instances, different
        # attributes, re-created in C from their own __dict__
        cls = 'Tr_' + '_'.join(mwire(m) for m in sig[0]) + '__' + \
            '_'.join(mwire(m) for m in sig[1])
        if cls not in shapes_of:
            shapes_of[cls] = pick_shapes(rng, sig[0])
        arrays.append({'name': names[i], 'stepper': tracer_for(sig, cls, shapes_of[cls]),
                       'mirrors': sq})
    if variant % 2 == 1 or narr == 1:
        arrays.insert(rng.randrange(len(arrays) + 1),
                      {'name': names[narr], 'stepper': None})
    return {'integrator': {'kind': 'shipped', 'cls': q}, 'arrays': arrays, 'nev': nev}


EXPRS = [('dt', 'dt'), ('0.5*dt', '0.5*dt'), ('dt/2', 'dt/2'),
         ('1./3*dt', '1./3*dt'), ('2.*dt/3.', '2.*dt/3.'), ('0.25 * dt', '0.25 * dt'),
         ('dt - 0.25*dt', 'dt - 0.25*dt'), ('0.1786178958448091*dt', '0.1786178958448091*dt'),
         ('-0.5*dt + dt', '-0.5*dt + dt'), ('dt*0.75', 'dt*0.75'),
         ('0.5*dt + 0.0*t', '0.5*dt + 0.0*t'), ('(dt + dt)/4', '(dt + dt)/4')]


def generated_config(rng, idx, allow_error=False):
    """a random integrator in the documented one_timestep language: 1-5 stages,
    py_stage hooks, several evaluators, different steppers per array"""
    nst = rng.choice([1, 2, 2, 3, 3, 4, 5])
    nev = rng.choice([1, 1, 2, 3])
    narr = rng.choice([1, 2, 2, 3])
    names = rng.sample(['fluid', 'b2', 'a_in', 'wall', 'Zed', '_x9'], narr + 1)
    arrays = []
    all_meths = ['initialize'] + ['stage%d' % k for k in range(1, nst + 1)]
    for i in range(narr):
        style = rng.choice(['full', 'full', 'partial', 'hooks', 'onlypy'])
        if i == 0:
            style = rng.choice(['full', 'hooks'])
        if style == 'full':
            ms, hs = list(all_meths), []
        elif style == 'partial':
            ms = [m for m in all_meths if rng.random() < 0.6]
            hs = [m for m in all_meths[1:] if rng.random() < 0.3]
        elif style == 'hooks':
            ms = list(all_meths)
            hs = [m for m in all_meths[1:] if rng.random() < 0.6]
        else:
            ms = []
            hs = [m for m in all_meths[1:] if rng.random() < 0.7]
        if i == 0 and rng.random() < 0.3:
            ms = [m for m in ms if m != 'initialize']
        arrays.append({'name': names[i],
                       'stepper': tracer_for((ms, hs), 'G%d_%d' % (idx, i),
                                             pick_shapes(rng, ms))})
    if rng.random() < 0.5:
        arrays.insert(rng.randrange(len(arrays) + 1), {'name': names[narr], 'stepper': None})
    wr = set()
    for a in arrays:
        if a['stepper']:
            wr.update(a['stepper']['methods'])
            wr.update(a['stepper']['hooks'])
    body = []
    if 'initialize' in wr and rng.random() < 0.8:
        body.append('self.initialize()')
    stages = [k for k in range(1, nst + 1) if 'stage%d' % k in wr]
    if rng.random() < 0.2:
        rng.shuffle(stages)
    for k in stages:
        pre = []
        if rng.random() < 0.6:
            pre.append(gen_accel(rng, nev))
        blk = pre + ['self.stage%d()' % k]
        post = []
        if rng.random() < 0.7:
            post.append('self.update_domain()')
        r = rng.random()
        e = rng.choice(EXPRS)[0] if k != stages[-1] or rng.random() < 0.3 else 'dt'
        if r < 0.8:
            post.append('self.do_post_stage(%s, %d)' % (e, k))
        elif r < 0.9:
            post.append('self.do_post_stage(stage_dt=%s, stage=%d)' % (e, k))
            post.append('self.do_post_stage(%s, %d)' % (rng.choice(EXPRS)[0], k))
        if rng.random() < 0.3:
            rng.shuffle(post)
        if rng.random() < 0.25:
            post.append(gen_accel(rng, nev))
        body += blk + post
    if rng.random() < 0.15 and stages:
        k = rng.choice(stages)
        body.append('for _i in range(%d):' % rng.choice([1, 2, 3]))
        body.append('    self.stage%d()' % k)
        body.append('    ' + gen_accel(rng, nev))
    if allow_error:
        bad = rng.choice(['self.stage%d()' % (nst + 1),
                          'self.compute_accelerations(%d)' % nev,
                          'self.compute_accelerations(%d, update_nnps=False)' % (nev + 1)])
        # never between a `for` header and its body
        slots = [i for i in range(len(body) + 1)
                 if not (i < len(body) and body[i].startswith(' '))]
        body.insert(rng.choice(slots), bad)
    if not body:
        body = ['pass']
    body = decorate_timestep(rng, body)
    src = 'def one_timestep(self, t, dt):\n' + \
        ''.join(('    %s\n' % ln) if ln else '\n' for ln in body)
    return {'integrator': {'kind': 'generated', 'source': src}, 'arrays': arrays,
            'nev': nev}


def decorate_timestep(rng, body):
    """the body of one_timestep is PASTED into the compiled class from its
    source text (get_timestep_code): same statements, different text"""
    out = []
    if rng.random() < 0.3:
        out.append('"""One step.  pass')
        out.append('')
        out.append('self.stage9() is not called here.')
        out.append('"""')
    if rng.random() < 0.15:
        out.append('pass')
    for ln in body:
        r = rng.random()
        if r < 0.12 and not ln.startswith(' ') and not ln.endswith(':'):
            out.append('# ' + ln)
        elif r < 0.2 and not ln.startswith(' '):
            out.append('')
        m = re.match(r'^(self\.do_post_stage)\((.*), (\d+)\)$', ln)
        if m and '=' not in ln and rng.random() < 0.25:
            out.append('%s(' % m.group(1))
            out.append('    %s,' % m.group(2))
            out.append('    %s' % m.group(3))
            out.append(')')
        elif rng.random() < 0.1 and not ln.endswith(':'):
            out.append(ln + '  # pass')
        else:
            out.append(ln)
    if rng.random() < 0.2:
        out.append('pass')
    return out


def gen_accel(rng, nev):
    i = rng.randrange(nev)
    r = rng.random()
    if r < 0.25:
        return 'self.compute_accelerations()' if i == 0 else \
            'self.compute_accelerations(%d)' % i
    if r < 0.5:
        return 'self.compute_accelerations(%d)' % i
    if r < 0.65:
        return 'self.compute_accelerations(index=%d)' % i
    if r < 0.8:
        return 'self.compute_accelerations(%d, update_nnps=False)' % i
    if r < 0.9:
        return 'self.compute_accelerations(%d, True)' % i
    return 'self.compute_accelerations(update_nnps=False, index=%d)' % i


def gen_case(rng, config, prog, k):
    names = [a['name'] for a in config['arrays']]
    x = {}
    for n in names:
        nr = rng.choice([1, 2, 3, 4, 6])
        # every array gets a particle close to a face so that it has ghosts
        cells = set([rng.choice([0, 1, GRID - 1, GRID - 2])])
        while len(cells) < nr:
            cells.add(rng.randrange(GRID))
        xs = sorted(cells)
        rng.shuffle(xs)
        x[n] = xs
    steps = []
    nsteps = rng.choice([1, 2, 3, 4]) if k % 2 else rng.choice([2, 3, 4])
    t = rng.choice([0.0, 1.0, rng.uniform(0, 10)])
    for _ in range(nsteps):
        dt = rng.choice([0.25, 0.1, 1e-3, rng.uniform(1e-5, 0.5)])
        steps.append([t, dt])
        if rng.random() < 0.8:
            t = t + dt
        else:
            t = rng.uniform(0, 10)
    grow = {}
    if not has_stale_eval(prog) and rng.random() < 0.7:
        for a in config['arrays']:
            st = a.get('stepper')
            if st and st['hooks'] and rng.random() < 0.7:
                m = rng.choice(st['hooks'])
                grow[a['name']] = {m: rng.choice([1, 2])}
    dom, fixed_h = MATRIX[k % len(MATRIX)]
    # public calls between the steps, on the SAME integrator object: a second
    # set_nnps (other object / class / neighbour cache), another callback or
    # None, set_fixed_h toggled, particles added by the user
    reconf = {}
    can_grow = not has_stale_eval(prog)
    if nsteps > 1 and k % 2 == 0:
        for i in range(1, nsteps):
            ops = []
            if rng.random() < 0.6:
                ops.append(['nnps', rng.choice(NNPS_VARIANTS)])
            if rng.random() < 0.4:
                ops.append(['cb', rng.choice(['new', 'new', 'none'])])
            if rng.random() < 0.3:
                ops.append(['fixed_h', rng.random() < 0.5])
            if can_grow and rng.random() < 0.25:
                ops.append(['grow', rng.choice(names), rng.choice([1, 2])])
            rng.shuffle(ops)
            if ops:
                reconf[str(i)] = ops
    if nsteps > 1 and k % 2 == 0 and not any(o[0] == 'nnps' for v in reconf.values() for o in v):
        reconf.setdefault('1', []).append(['nnps', rng.choice(NNPS_VARIANTS)])
    return {
        'domain': dom, 'fixed_h': fixed_h,
        'nnps0': rng.choice(NNPS_VARIANTS), 'reconf': reconf,
        'x': x, 'steps': steps,
        'cb': (k % 4 != 3),
        'mv': {n: rng.choice([0, 1, -1, 2, 3, -5]) for n in names},
        'sid': {n: rng.randrange(1, 1000) for n in names},
        'grow': grow,
    }


# --------------------------------------------------------------------------
# model side

def model_line(config, case, prog_wire, n0, mode='impl'):
    arrs = []
    for a in config['arrays']:
        st = a.get('stepper')
        if not st:
            continue            # not in integrator.steppers
        nm = a['name']
        g = case.get('grow', {}).get(nm, {})
        arrs.append('%s:%d:%d:%s:%s:%s' % (
            nm, n0[nm][0], n0[nm][1],
            '+'.join(mwire(m) for m in st['methods']) or '-',
            '+'.join(mwire(m) for m in st['hooks']) or '-',
            '+'.join('%s~%d' % (mwire(m), n) for m, n in sorted(g.items())) or '-'))
    (nnps_id, cb_id, fixed_h), ops = ops_with_ids(case)
    w = []
    for op in ops:
        if op[0] == 'step':
            w.append('S%s:%s' % (H.fbits(op[1]), H.fbits(op[2])))
        elif op[0] == 'nnps':
            w.append('N%d' % op[2])
        elif op[0] == 'cb':
            w.append('C-' if op[2] is None else 'C%d' % op[2])
        elif op[0] == 'fixed_h':
            w.append('F%d' % (1 if op[1] else 0))
        elif op[0] == 'grow':
            w.append('G%s~%d' % (op[1], op[2]))
    return 'hist mode=%s prog=%s nev=%d arrs=%s py=%d:%s:%d ops=%s' % (
        mode, prog_wire, config['nev'], '|'.join(arrs) or '_',
        nnps_id, '-' if cb_id is None else str(cb_id), 1 if fixed_h else 0,
        ','.join(w) or '_')


def first_diff(a, b):
    for i, (x, y) in enumerate(zip(a, b)):
        if x != y:
            return i, x, y
    if len(a) != len(b):
        i = min(len(a), len(b))
        return i, (a[i] if i < len(a) else '<end>'), (b[i] if i < len(b) else '<end>')
    return None


def classify(config, want, got):
    """key of a property failure from the first place where the observed
    events leave the literal reading"""
    ig = config['integrator']
    who = ig['cls'].rsplit('.', 1)[-1] if ig['kind'] == 'shipped' else 'generated'
    d = first_diff(want, got)
    if d is None:
        return 'C04:%s:none' % who
    _, w, g = d
    kinds = {'s': 'step', 'h': 'hook', 'n': 'nnps', 'e': 'eval', 'd': 'domain',
             'c': 'callback', '<': 'end', 'x': 'abort'}
    kw, kg = kinds[w[0]], kinds[g[0]]
    if kw == kg:
        wf, gf = w.split(':'), g.split(':')
        if kw == 'step':
            what = 'particle' if wf[1:4] != gf[1:4] else 'time'
        elif kw in ('hook', 'eval'):
            what = 'time' if wf[:-2] == gf[:-2] else 'target'
        elif kw == 'callback':
            what = 'target' if wf[1] != gf[1] else 'arguments'
        else:
            # refresh / ghost re-creation asked of another NNPS object than the
            # integrator's current one
            what = 'target'
        return 'C04:%s:%s-%s' % (who, kw, what)
    return 'C04:%s:%s-instead-of-%s' % (who, kg, kw)


def session_model(sconf, results, tab, R):
    """Model/StepperSession.lean on the session as it was run: the elements in
    order, each class under the names the process saw.  The body the model
    pastes for element k becomes the program of its `hist` lines (so the model
    of the process is part of the tie with the observed events); it must also
    be the translation of the member's own text (session_compiles_own_text)."""
    ms = []
    own = []
    for r in results:
        member = sconf['members'][r['member']]
        ig = member['integrator']
        pw = T2L.wire_program(program_of(member, tab))
        own.append(pw)
        mod_, qual = r.get('cls_names') or ['?', '?']
        ms.append('%s~%s~%s~%s' % (mod_, qual, '@' + ig['cls'] if ig['kind'] == 'shipped' else pw,
                                   config_id(member)))
    if not ms:
        return
    out = H.run_model('C04', ['session members=' + '|'.join(ms)])
    if len(out) != 1 or out[0] == 'bad-op':
        raise SystemExit('model driver rejected the session line: %r' % (out[:1],))
    got = out[0].split('|')
    if len(got) != len(results):
        raise SystemExit('session model answered %d programs for %d elements'
                         % (len(got), len(results)))
    for k, (r, g, w) in enumerate(zip(results, got, own)):
        r['session_prog'] = g
        if g != w:
            R.disagree({'config': sconf, 'case': r['session_case']}, w, g,
                       'theorem session_compiles_own_text contradicted at run time (element %d)' % k)
    # the generator's promise: different members under equal class names
    names = {}
    for r in results:
        names.setdefault(tuple(r.get('cls_names') or ()), set()).add(r['member'])
    ncoll = sum(1 for v in names.values() if len(v) > 1)
    R.count('session:equal-(module,qualname)-different-classes', ncoll)
    if results and len(set(r['member'] for r in results)) > 1 and not ncoll:
        raise SystemExit('session generator: no two members share (module, qualname): %r'
                         % (sorted(names),))


def evaluate(jobs_out, tab, R, gen_table):
    """model run + three-way comparison for everything the workers returned"""
    lines = []
    index = []
    for jo in jobs_out:
        config = jo['config']
        if 'fatal' in jo:
            raise SystemExit('worker failed for %s:\n%s' % (
                json.dumps(config.get('integrator') or config.get('style')), jo['fatal']))
        for cr in jo.get('crashed', []):
            ig_ = config.get('integrator') or {'kind': 'shipped', 'cls': 'session'}
            who_ = ig_['cls'].rsplit('.', 1)[-1] if ig_['kind'] == 'shipped' else 'generated'
            R.prop_fail('C04:%s:crash' % who_, {'config': config, 'case': cr['case']},
                        'every step of the history returns and leaves the particles in the '
                        'state of the literal execution',
                        'the process executing the history died with signal %d (twice in a row, '
                        'alone in its process): %s' % (cr['signal'], '; '.join(cr.get('where', []))[:500]))
            R.case(json.dumps({'config': config, 'case': cr['case']}, sort_keys=True), True, None)
        if config.get('numeric'):
            evaluate_numeric(jo, R)
            continue
        if config.get('session'):
            # every element of a session is judged like a configuration run
            # alone: against the literal reading of ITS OWN class.  The failing
            # input reported is the session up to and including the element
            # (the members before it are what makes the process "used").
            R.count('session-style:%s' % config['style'])
            R.count('sessions')
            units = [(config['members'][r['member']], [r],
                      {'config': config, 'case': r['session_case']}) for r in jo['results']]
            session_model(config, jo['results'], tab, R)
        else:
            units = [(config, jo['results'], None)]
        for mconfig, rs, sfull in units:
            prog = program_of(mconfig, tab)
            ig = mconfig['integrator']
            pw = T2L.wire_program(prog)
            for a_ in mconfig['arrays']:
                st_ = a_.get('stepper') or {}
                for m_ in st_.get('methods', []):
                    R.count('method-shape:%s' % st_.get('shapes', {}).get(m_, 'plain'))
            if ig['kind'] == 'shipped':
                # the committed/generated Lean table must be the translation of
                # this very tree
                if gen_table.get(ig['cls'], (None, None))[1] != pw:
                    R.disagree({'config': mconfig}, gen_table.get(ig['cls']), pw,
                               'Gen/Timesteps.lean is not the translation of this tree')
                pw_model = '@' + ig['cls']
            else:
                pw_model = pw
            if sfull is not None and rs[0].get('session_prog'):
                # the body the session model (Model/StepperSession.lean) pastes
                # for this element, after the elements before it
                pw_model = rs[0]['session_prog']
            for r in rs:
                full = sfull or {'config': mconfig, 'case': r['case']}
                if 'error' in r and sfull is None:
                    raise SystemExit('case failed to run: %s\n%s' % (
                        json.dumps(full), r['error']))
                if 'error' in r:
                    # in a session: the same code ran for the members before
                    who_ = ig['cls'].rsplit('.', 1)[-1] if ig['kind'] == 'shipped' else 'generated'
                    R.prop_fail('C04:%s:raises' % who_, full,
                                'element %d of the session (member %d) compiles and its steps '
                                'return, whatever was compiled before it in the process'
                                % (r['pos'], r['member']), r['error'][-800:])
                    R.case(json.dumps(full, sort_keys=True), True, None)
                    continue
                n0 = r.get('n0') or {a['name']: (len(r['case']['x'][a['name']]), 0)
                                     for a in mconfig['arrays']}
                lines.append(model_line(mconfig, r['case'], pw_model, n0, 'impl'))
                lines.append(model_line(mconfig, r['case'], pw_model, n0, 'lit'))
                index.append((mconfig, r, prog, full))
    out = H.run_model('C04', lines) if lines else []
    if len(out) != len(lines):
        raise SystemExit('model driver answered %d lines for %d' % (len(out), len(lines)))
    for k, (config, r, prog, full) in enumerate(index):
        case = r['case']
        if 'pos' in r:
            R.count('session-element-position:%d' % r['pos'])
            R.count('session-member:%s' % ('inherits-shipped-one_timestep'
                                           if config['integrator'].get('derived') else
                                           'own-one_timestep'))
        m_impl, m_lit = out[2 * k], out[2 * k + 1]
        if m_impl == 'bad-op' or m_lit == 'bad-op':
            raise SystemExit('model driver rejected: ' + lines[2 * k])
        ig = config['integrator']
        who = ig['cls'].rsplit('.', 1)[-1] if ig['kind'] == 'shipped' else 'generated'
        R.count('integrator:' + who)
        R.count('arrays:%d' % len(config['arrays']))
        R.count('stages:%d' % len([c for c in prog if c[0] == 'S']))
        if 'compile_error' in r:
            R.count('compile-error-cases')
            R.disagree(full, m_impl[:200], 'compile-error: ' + r['compile_error'],
                       'model runs a program the real pipeline rejects')
            if r['literal'] is not None:
                R.prop_fail('C04:%s:does-not-compile' % who, full,
                            'one_timestep executes literally (%d events)' % len(r['literal']),
                            r['compile_error'])
            R.case(json.dumps(full, sort_keys=True), True, None)
            R.d['traces_validated_against_impl'] += 1
            continue
        if r['overflow']:
            raise SystemExit('event log overflow; reduce case size')
        obs = r['observed']
        mi = [] if m_impl == '_' else m_impl.split(' ')
        ml = [] if m_lit == '_' else m_lit.split(' ')
        if obs and obs[-1].startswith('x:'):
            R.count('run-aborts-with-' + obs[-1][2:])
        if True:
            if mi != obs:
                R.disagree(full, first_diff(mi, obs), 'first difference (model, impl) of %d/%d events'
                           % (len(mi), len(obs)), 'event trace: Stepper.runR vs compiled integrator')
            if ml != mi:
                R.disagree(full, first_diff(ml, mi), 'literalRun vs runR inside the model',
                           'theorem stepper_refines_literal contradicted at run time')
        # ---- the property's own predicate on the real code
        lit = r['literal']
        if lit is None:
            R.prop_fail('C04:%s:literal-raises' % who, full, r['literal_info'],
                        'the compiled integrator ran %d events' % len(obs))
        elif lit != obs:
            d = first_diff(lit, obs)
            R.prop_fail(classify(config, lit, obs), full,
                        'event %d of the literal execution of one_timestep: %s '
                        '(of %d events)' % (d[0], d[1], len(lit)),
                        'event %d observed: %s (of %d events)' % (d[0], d[2], len(obs)))
        for key, demand, observed in r['problems'][:3]:
            R.prop_fail(key, full, demand, observed)
        for nb in r['nbr_bad'][:1]:
            R.prop_fail('C04:%s:stale-neighbours' % who, full,
                        'evaluator %d (call #%d, update_nnps=True) sees the %d '
                        'neighbours of %s[%d] at x=%r' % (nb[1], nb[0], nb[5], nb[2], nb[3], nb[4]),
                        'it saw %d' % nb[6])
        dom, fixed_h = r['domain']
        for k2, b in r['domain_bad'][:1]:
            R.prop_fail('C04:%s:ghosts-after-update-domain' % who, full,
                        'after every update_domain() of one_timestep the ghosts are exactly '
                        'the images (%s) of the current real particles [domain=%s, '
                        'fixed_h=%s]' % ({'periodic': 'periodic translates x -+ 1',
                                          'mirror': 'reflections at the walls x=0, x=1',
                                          'none': 'none: no domain'}[dom], dom, fixed_h),
                        'after the update_domain() that returned at event %d: %s'
                        % (k2, repr(b)[:600]))
        n_d_lit = len([e for e in (lit or []) if e.startswith('d:')])
        if lit is not None and not (obs and obs[-1].startswith('x:')) \
                and r['n_domain'] != n_d_lit:
            R.prop_fail('C04:%s:update-domain-calls' % who, full,
                        'one_timestep calls update_domain() %d times' % n_d_lit,
                        'Integrator.update_domain ran %d times' % r['n_domain'])
        # final registers: t = last stage time of the last step
        R.count('callback:%s' % ('set' if case['cb'] else 'none'))
        R.count('steps:%d' % len(case['steps']))
        hist_ops = [op for op in case_ops(case) if op[0] != 'step']
        R.count('history:%s' % ('steps-only' if not hist_ops else 'with-public-calls-between-steps'))
        for op in hist_ops:
            R.count('history-op:%s' % (op[0] if op[0] not in ('nnps', 'cb') else '%s=%s' % op[:2]))
        R.count('nnps0=%s' % case.get('nnps0', 'll'))
        if case.get('grow'):
            R.count('hook-adds-particles')
        if any(c[0] == 'A' and not c[2] for c in prog):
            R.count('has-update_nnps=False')
        R.count('events', len(obs))
        R.count('ghosts-present-at-start', 1 if r['ghosts_present'] else 0)
        R.count('domain=%s,fixed_h=%s' % (dom, fixed_h))
        R.count('ghost-checks-after-update_domain', r['n_domain'])
        nontrivial = len(obs) > 3 and (r['ghosts_present'] > 0 or dom == 'none')
        R.case(json.dumps(full, sort_keys=True), nontrivial,
               {'integrator': ig, 'steps': case['steps'], 'observed': obs[:12],
                'model': mi[:12], 'n_events': len(obs)} if k < 2 else None)
        R.d['traces_validated_against_impl'] += 1


def evaluate_numeric(jo, R):
    config = jo['config']
    who = config['integrator']['cls'].rsplit('.', 1)[-1]
    st = config['stepper'].rsplit('.', 1)[-1]
    for r in jo['results']:
        full = {'config': config, 'case': r['case']}
        if 'error' in r:
            raise SystemExit('numeric case failed to run: %s\n%s' % (json.dumps(full), r['error']))
        nu = r['numeric']
        if 'skip' in nu:
            R.count('numeric-skipped')
            R.note('numeric %s x %s skipped: %s' % (who, st, nu['skip']))
            break
        R.count('numeric:%s x %s' % (who, st))
        if nu['nbad']:
            b = nu['bad'][0]
            R.prop_fail('C04:numeric:%s:%s:%s' % (who, st, b[2]), full,
                        'after the steps %s[%d] (%s particle) = %r, the value obtained by '
                        'executing one_timestep literally with the stepper\'s Python methods'
                        % (b[0], b[1], b[2], b[3]),
                        '%r (%d values differ)' % (b[4], nu['nbad']))
        if not nu['cb_ok']:
            R.prop_fail('C04:numeric:%s:%s:callback' % (who, st), full,
                        'callbacks %r' % (nu['cb'][0],), 'observed %r' % (nu['cb'][1],))
        R.case(json.dumps(full, sort_keys=True), True, None)
        R.d['traces_validated_against_impl'] += 1


def numeric_jobs(pairs, rng, ncases, work):
    jobs = []
    for q, sq, nev in pairs:
        cfg = {'numeric': True, 'integrator': {'kind': 'shipped', 'cls': q},
               'stepper': sq, 'nev': nev}
        cases = []
        for k in range(ncases):
            steps = []
            t = rng.choice([0.0, rng.uniform(0, 5)])
            for _ in range(rng.choice([1, 2, 3])):
                dt = rng.choice([0.125, rng.uniform(1e-4, 0.3)])
                steps.append([t, dt])
                t = t + dt
            cases.append({'n_real': rng.choice([1, 2, 4, 5]), 'n_ghost': rng.choice([1, 2, 3]),
                          'seed': rng.randrange(10 ** 9), 'steps': steps})
        jobs.append((cfg, cases, work))
    return jobs


GEN_NUMERIC_HOSTS = [('pysph.sph.integrator.EulerIntegrator', 1),
                     ('pysph.sph.integrator.PECIntegrator', 2),
                     ('pysph.sph.integrator.EPECIntegrator', 2),
                     ('pysph.sph.integrator.TVDRK3Integrator', 3)]


def gen_numeric_jobs(rng, nconf, ncases, work, tab):
    """user-defined steppers (generated source with control flow) under shipped
    integrators: compiled step vs literal execution of one_timestep by CPython
    calling the stepper's own Python methods, bit for bit"""
    jobs = []
    hosts = [h for h in GEN_NUMERIC_HOSTS if h[0] in tab['integrators']]
    for g in range(nconf):
        q, nst = hosts[g % len(hosts)] if g < len(hosts) else rng.choice(hosts)
        prog = tab['programs'][tab['integrators'][q]][0]
        nev = 1 + max([c[1] for c in prog if c[0] == 'A'] + [0])
        name = 'GenStep%d' % g
        cfg = {'numeric': True, 'integrator': {'kind': 'shipped', 'cls': q},
               'stepper': 'generated.' + name, 'nev': nev,
               'stepper_src': gen_numeric_stepper(rng, name, nst)}
        cases = []
        for k in range(ncases):
            steps = []
            t = rng.choice([0.0, rng.uniform(0, 5)])
            for _ in range(rng.choice([1, 2, 3, 4])):
                dt = rng.choice([0.125, 0.25, rng.uniform(1e-4, 0.3)])
                steps.append([t, dt])
                t = t + dt
            cases.append({'n_real': rng.choice([2, 4, 5, 7]), 'n_ghost': rng.choice([1, 2, 3]),
                          'seed': rng.randrange(10 ** 9), 'steps': steps,
                          'skw': {'a': rng.choice([0.5, -0.75, 2.0]),
                                  'b': rng.choice([-1.25, 0.125, 1.0])}})
        jobs.append((cfg, cases, work))
    return jobs


def run_jobs(jobs, nproc):
    """every configuration in its own interpreter (plain subprocesses: no
    fork of a threaded parent, a crash or hang of one cannot wedge the pool);
    identical configurations are merged so that no two processes ever compile
    the same generated module"""
    import subprocess
    merged = {}
    order = []
    for config, cases, work in jobs:
        cid = config_id(config)
        if cid not in merged:
            merged[cid] = (config, [], work)
            order.append(cid)
        merged[cid][1].extend(cases)
    jobs = [merged[c] for c in order]
    if not jobs:
        return []
    work = jobs[0][2]
    files = []
    for i, job in enumerate(jobs):
        jf = os.path.join(work, 'c04-job-%d-%d.json' % (os.getpid(), i))
        with open(jf, 'w') as fh:
            json.dump({'config': job[0], 'cases': job[1], 'work': job[2]}, fh)
        files.append((jf, jf[:-5] + '.out.json', jf[:-5] + '.log'))
    running = {}
    started = {}
    todo = list(range(len(jobs)))
    rcs = {}
    t_start = time.time()
    while todo or running:
        while todo and len(running) < nproc:
            i = todo.pop(0)
            jf, of, lf = files[i]
            running[i] = subprocess.Popen(
                [sys.executable, os.path.abspath(__file__), '--worker', jf, of],
                stdout=open(lf, 'w'), stderr=subprocess.STDOUT, cwd=work)
            started[i] = time.time()
        for i, p in list(running.items()):
            if p.poll() is None and time.time() - started[i] > PER_WORKER_LIMIT:
                p.kill()            # a hang: handled like a crash (rc -9)
                p.wait()
            if p.poll() is not None:
                rcs[i] = p.returncode
                del running[i]
        if time.time() - t_start > WORKER_BUDGET:
            for p in running.values():
                p.kill()
            raise SystemExit('workers exceeded %d s' % WORKER_BUDGET)
        time.sleep(0.2)
    outs = []
    for i, (jf, of, lf) in enumerate(files):
        if (rcs.get(i) != 0 or not os.path.exists(of)) and rcs.get(i, 0) < 0:
            outs.append(rerun_crashed(jobs[i], i, jf, of, lf, rcs[i], work))
            continue
        if rcs.get(i) != 0 or not os.path.exists(of):
            tail = open(lf).read()[-3000:] if os.path.exists(lf) else ''
            outs.append({'config': jobs[i][0], 'results': [],
                         'fatal': 'worker exited %r\n%s' % (rcs.get(i), tail)})
        else:
            outs.append(json.load(open(of)))
    return outs


def run_alone(config, cases, jf, of, lf, work):
    """-> (return code (negative: signal; -9 also for a hang), result or None,
    tail of the log)"""
    import subprocess
    with open(jf, 'w') as fh:
        json.dump({'config': config, 'cases': cases, 'work': work}, fh)
    if os.path.exists(of):
        os.unlink(of)
    with open(lf, 'w') as lg:
        try:
            p = subprocess.run([sys.executable, '-X', 'faulthandler',
                                os.path.abspath(__file__), '--worker', jf, of], stdout=lg,
                               stderr=subprocess.STDOUT, cwd=work, timeout=PER_WORKER_LIMIT)
            rc = p.returncode
        except subprocess.TimeoutExpired:
            rc = -9
    tail = open(lf, errors='replace').read()[-3000:]
    if rc == 0 and os.path.exists(of):
        return 0, json.load(open(of)), tail
    return (rc if rc != 0 else 1), None, tail


def rerun_crashed(job, i, jf, of, lf, rc, work):
    """a worker was killed by a signal (or for hanging).  Run the configuration
    again, alone:
      * it completes -> a machine hiccup (seen once, -11, at load > 100), noted;
      * it dies again -> every case of the configuration is run in a process
        of its own; a case whose process dies twice in a row is recorded in
        `crashed` (a property failure: the property demands a result, and a
        crash need not be deterministic to be one), the others are evaluated
        as usual;
      * a worker that exits with a Python error is machinery trouble (fatal)."""
    config, cases = job[0], list(job[1])
    rc2, res, tail = run_alone(config, cases, jf, of, lf, work)
    if rc2 == 0:
        RETRIED.append('%s: worker died with signal %d, re-run alone: completed'
                       % (config_id(config), -rc))
        return res
    if rc2 > 0:
        return {'config': config, 'results': [],
                'fatal': 'worker exited %r, then %r when re-run alone\n%s' % (rc, rc2, tail)}
    results, crashed = [], []
    for case in cases:
        for attempt in (1, 2):
            rc3, res, tail = run_alone(config, [case], jf, of, lf, work)
            if rc3 == 0:
                results += res.get('results', [])
                break
            if rc3 > 0:
                return {'config': config, 'results': [],
                        'fatal': 'worker exited %r on a single case\n%s' % (rc3, tail)}
        else:
            crashed.append({'case': case, 'signal': -rc3,
                            'where': [ln.strip() for ln in tail.split('\n')
                                      if ln.startswith('  File ')][:5]})
    RETRIED.append('%s: worker died with signals %d, %d: cases run one per process, %d of %d '
                   'crash twice in a row' % (config_id(config), -rc, -rc2, len(crashed),
                                             len(cases)))
    return {'config': config, 'results': results, 'crashed': crashed, 'secs': 0}


def worker_main(jobfile, outfile):
    job = json.load(open(jobfile))
    res = worker((job['config'], job['cases'], job['work']))
    with open(outfile + '.tmp', 'w') as fh:
        json.dump(res, fh)
    os.replace(outfile + '.tmp', outfile)


def corpus_configs(tab):
    """minimised configurations of past trouble; always run first"""
    out = []
    # two arrays sharing one tracer class with different attributes; an array
    # whose stepper lacks stage2; keyword order not sorted
    full = {'cls': 'K0', 'methods': ['initialize', 'stage1', 'stage2'], 'hooks': ['stage2']}
    out.append(({'integrator': {'kind': 'shipped', 'cls': 'pysph.sph.integrator.PECIntegrator'},
                 'arrays': [{'name': 'wall', 'stepper': dict(full)},
                            {'name': 'b2', 'stepper': None},
                            {'name': 'a_in', 'stepper': dict(full)},
                            {'name': 'Zed', 'stepper': {'cls': 'K1', 'methods': ['stage1'],
                                                        'hooks': []}}],
                 'nev': 1},
                [{'x': {'wall': [0, 63, 30], 'b2': [1, 2], 'a_in': [62, 5, 6, 7], 'Zed': [63]},
                  'steps': [[1.0, 0.25], [1.25, 0.1]], 'cb': True,
                  'mv': {'wall': 1, 'b2': 0, 'a_in': -1, 'Zed': 3},
                  'sid': {'wall': 7, 'b2': 0, 'a_in': 9, 'Zed': 11},
                  'grow': {'a_in': {'stage2': 2}}},
                 {'x': {'wall': [0], 'b2': [1], 'a_in': [62], 'Zed': [63, 0]},
                  'steps': [[0.3, 0.1]], 'cb': False,
                  'mv': {'wall': 0, 'b2': 0, 'a_in': 2, 'Zed': 1},
                  'sid': {'wall': 1, 'b2': 0, 'a_in': 2, 'Zed': 3}, 'grow': {}}]))
    # a one_timestep that calls a stage no stepper defines / an evaluator that
    # does not exist: Cython turns the call into a run-time lookup, the step
    # aborts THERE (AttributeError / IndexError after the neighbour refresh),
    # exactly like the literal execution
    src = ('def one_timestep(self, t, dt):\n    self.stage1()\n    self.do_post_stage(0.5*dt, 1)\n'
           '    self.compute_accelerations(1)\n    self.stage3()\n    self.do_post_stage(dt, 3)\n')
    out.append(({'integrator': {'kind': 'generated', 'source': src},
                 'arrays': [{'name': 'fluid', 'stepper': {'cls': 'K2', 'methods': ['stage1', 'stage2'],
                                                          'hooks': ['stage1']}}],
                 'nev': 1},
                [{'x': {'fluid': [0, 20, 63]}, 'steps': [[0.5, 0.25], [0.75, 0.25]], 'cb': True,
                  'mv': {'fluid': 1}, 'sid': {'fluid': 5}, 'grow': {}}]))
    # seed B2 (minimised): Integrator.update_domain returned early "when fixed_h
    # and not nnps.is_periodic" -- is_periodic does not cover MIRROR domains, whose
    # images then stay where they were at construction while the particles move.
    # Needs set_fixed_h(True) AND a mirrored, non-periodic domain; one particle
    # next to a wall, one stage, one step.  The other cells of the matrix for
    # the same compiled module ride along.
    eul = {'integrator': {'kind': 'shipped', 'cls': 'pysph.sph.integrator.EulerIntegrator'},
           'arrays': [{'name': 'fluid', 'stepper': {'cls': 'K3', 'methods': ['stage1'],
                                                    'hooks': []}}],
           'nev': 1}
    base = {'x': {'fluid': [1, 30]}, 'steps': [[0.0, 0.125]], 'cb': False,
            'mv': {'fluid': 1}, 'sid': {'fluid': 3}, 'grow': {}}
    out.append((eul, [dict(base, domain=d, fixed_h=f)
                      for d, f in [('mirror', True), ('mirror', False), ('periodic', True),
                                   ('none', True)]]))
    # seed A3 (minimised): has_stepper_loop dropped the particle loop of a stepper
    # method whose LAST source line is `pass` (a trailing `else: pass`): the
    # generator's decisions depend on the source text of the user's methods, so
    # the same tracer body comes in several syntactic shapes.
    shp = {'integrator': {'kind': 'shipped', 'cls': 'pysph.sph.integrator.PECIntegrator'},
           'arrays': [{'name': 'free', 'stepper': {
               'cls': 'K4', 'methods': ['initialize', 'stage1', 'stage2'], 'hooks': [],
               'shapes': {'initialize': 'head_doc_pass', 'stage1': 'multiline_sig',
                          'stage2': 'tail_comment'}}},
               {'name': 'wall', 'stepper': {
                   'cls': 'K5', 'methods': ['initialize', 'stage1', 'stage2'], 'hooks': ['stage2'],
                   'shapes': {'initialize': 'tail_pass', 'stage1': 'nested',
                              'stage2': 'tail_else_pass'}}},
               {'name': 'a_in', 'stepper': {
                   'cls': 'K6', 'methods': ['stage1', 'stage2'], 'hooks': [],
                   'shapes': {'stage1': 'tail_if_pass', 'stage2': 'one_line_if'}}}],
           'nev': 1}
    out.append((shp, [{'x': {'free': [0, 9, 40], 'wall': [63, 17], 'a_in': [1, 33]},
                       'steps': [[0.5, 0.125], [0.625, 0.25]], 'cb': True,
                       'mv': {'free': 1, 'wall': -1, 'a_in': 2},
                       'sid': {'free': 3, 'wall': 4, 'a_in': 5}, 'grow': {},
                       'domain': 'periodic', 'fixed_h': False}]))
    # seed B3 (minimised): compute_accelerations cached the bound
    # `self.nnps.update` of the first NNPS; after a second public set_nnps the
    # integrator kept refreshing the abandoned object.  History: step, replace
    # the NNPS (and the callback), step while the particles cross cells, toggle
    # fixed_h and add particles, step, replace NNPS and drop the callback, step.
    hist = {'x': {'fluid': [1, 30, 31, 33, 62]},
            'steps': [[0.0, 0.125], [0.125, 0.125], [0.25, 0.25], [0.5, 0.125]],
            'cb': True, 'mv': {'fluid': 3}, 'sid': {'fluid': 3}, 'grow': {},
            'nnps0': 'll',
            'reconf': {'1': [['nnps', 'll_cache'], ['cb', 'new']],
                       '2': [['fixed_h', True], ['grow', 'fluid', 2]],
                       '3': [['cb', 'none'], ['nnps', 'box']]}}
    out.append((eul, [dict(hist, domain=d, fixed_h=False)
                      for d in ('periodic', 'none', 'mirror')]))
    src2 = src.replace('self.compute_accelerations(1)', 'self.compute_accelerations(0)')
    out.append(({'integrator': {'kind': 'generated', 'source': src2},
                 'arrays': [{'name': 'fluid', 'stepper': {'cls': 'K2', 'methods': ['stage1', 'stage2'],
                                                          'hooks': ['stage1']}}],
                 'nev': 1},
                [{'x': {'fluid': [0, 20, 63]}, 'steps': [[0.5, 0.25], [0.75, 0.25]], 'cb': True,
                  'mv': {'fluid': 1}, 'sid': {'fluid': 5}, 'grow': {'fluid': {'stage1': 1}}}]))
    return out


def collide_names(config):
    """rename the stepper classes of a configuration to G900_<i> (in order of
    first use): in a session every member uses the SAME class names"""
    ren = {}
    for a in config['arrays']:
        st = a.get('stepper')
        if st:
            ren.setdefault(st['cls'], 'G900_%d' % len(ren))
            st['cls'] = ren[st['cls']]
    return config


def gen_session(rng, tab, style, nmembers, nderived=1):
    """-> (session configuration, [one session case]).  Members: generated
    integrators with pairwise different one_timestep texts and stage sets and
    `nderived` subclasses of different shipped integrators that inherit
    one_timestep; every member is visited once, in order, then some of them
    again (the class compiled first is compiled once more AFTER the others)."""
    members = []
    texts = set()
    while len(members) < nmembers - nderived:
        cfg = collide_names(generated_config(rng, 900))
        if cfg['integrator']['source'] in texts:
            continue
        texts.add(cfg['integrator']['source'])
        members.append(cfg)
    for q in rng.sample(sorted(q for q in PAIRING if q in tab['integrators']), nderived):
        cfg = collide_names(shipped_config(q, tab, rng, rng.randrange(6)))
        cfg['integrator']['derived'] = True
        members.append(cfg)
    rng.shuffle(members)
    order = list(range(nmembers)) + rng.sample(range(nmembers), min(2, nmembers))
    seq = []
    for j, mi in enumerate(order):
        m = members[mi]
        seq.append({'member': mi, 'case': gen_case(rng, m, program_of(m, tab), rng.randrange(24))})
    return {'session': True, 'style': style, 'members': members}, [{'seq': seq}]


def corpus_sessions(tab):
    """seed A4 (minimised): get_timestep_code remembered the body of
    one_timestep per (cls.__module__, cls.__qualname__).  Two integrator classes
    from the branches of one factory: kick-drift, then drift-kick."""
    stp = {'cls': 'G900_0', 'methods': ['stage1', 'stage2'], 'hooks': []}
    kd = ('def one_timestep(self, t, dt):\n    self.compute_accelerations()\n    self.stage2()\n'
          '    self.do_post_stage(0.5*dt, 1)\n    self.stage1()\n    self.update_domain()\n'
          '    self.do_post_stage(dt, 2)\n')
    dk = ('def one_timestep(self, t, dt):\n    self.stage1()\n    self.update_domain()\n'
          '    self.do_post_stage(0.25*dt, 1)\n    self.compute_accelerations()\n'
          '    self.stage2()\n    self.do_post_stage(dt, 2)\n')
    mem = [{'integrator': {'kind': 'generated', 'source': src},
            'arrays': [{'name': 'fluid', 'stepper': dict(stp)}], 'nev': 1} for src in (kd, dk)]
    mem.append({'integrator': {'kind': 'shipped', 'cls': 'pysph.sph.integrator.EulerIntegrator',
                               'derived': True},
                'arrays': [{'name': 'fluid', 'stepper': {'cls': 'G900_0', 'methods': ['stage1'],
                                                         'hooks': ['stage1']}}], 'nev': 1})
    case = {'x': {'fluid': [1, 20, 40]}, 'steps': [[0.0, 0.125], [0.125, 0.125]], 'cb': True,
            'mv': {'fluid': 1}, 'sid': {'fluid': 3}, 'grow': {}, 'domain': 'periodic',
            'fixed_h': False}
    return [({'session': True, 'style': 'factory', 'members': mem},
             [{'seq': [{'member': k, 'case': dict(case)} for k in (0, 1, 2, 0)]}])]


def build_jobs(tier, seed, work, tab, R):
    rng = random.Random(seed * 104729 + 4)
    quick = tier == 'quick'
    shipped = sorted(PAIRING)
    missing = [q for q in tab['integrators'] if q not in PAIRING]
    if missing:
        # a new Integrator subclass in the tree: it is still run, with the
        # generic tracer for the stages its program calls
        for q in missing:
            R.note('no documented stepper pairing for %s: generic tracer used' % q)
    for q, ss in PAIRING.items():
        if q not in tab['integrators']:
            R.disagree({'integrator': q}, 'present', 'absent', 'integrator class vanished')
        for s in ss:
            if s not in tab['steppers']:
                R.disagree({'stepper': s}, 'present', 'absent', 'stepper class vanished')
    if quick:
        core = ['pysph.sph.integrator.PECIntegrator', 'pysph.sph.wc.gtvf.GTVFIntegrator',
                'pysph.sph.integrator.PEFRLIntegrator', 'pysph.sph.isph.sisph.SISPHIntegrator',
                'pysph.sph.integrator.EulerIntegrator']
        rest = [q for q in shipped if q not in core and q in tab['integrators']]
        pick = core + rng.sample(rest, 2)
        ngen, ncases, variants = 4, 8, 1
    else:
        pick = [q for q in shipped if q in tab['integrators']]
        ngen, ncases, variants = 28, 14, 3
    jobs = []
    # sessions first: they are the longest jobs (members compiled one after the
    # other in one process)
    for config, cases in corpus_sessions(tab):
        jobs.append((config, cases, work))
    nsess = 3 if quick else 9
    for si in range(nsess):
        config, cases = gen_session(rng, tab, SESSION_STYLES[si % len(SESSION_STYLES)],
                                    3 if quick else rng.choice([3, 4]),
                                    1 if quick else rng.choice([1, 2]))
        jobs.append((config, cases, work))
    if os.environ.get('C04_ONLY') == 'sessions':       # debugging aid
        return jobs, pick
    for config, cases in corpus_configs(tab):
        jobs.append((config, cases, work))
    for q in pick:
        for v in range(variants):
            vv = rng.randrange(6) if quick else v + rng.randrange(2) * 3
            cfg = shipped_config(q, tab, rng, vv)
            prog = program_of(cfg, tab)
            jobs.append((cfg, [gen_case(rng, cfg, prog, k) for k in range(ncases)], work))
    for q in missing:
        prog = tab['programs'][tab['integrators'][q]][0]
        ms = sorted({'initialize' if c[0] == 'I' else 'stage%d' % c[1]
                     for c in prog if c[0] in 'IS'}, key=mid_of)
        cfg = {'integrator': {'kind': 'shipped', 'cls': q},
               'arrays': [{'name': 'fluid', 'stepper': {'cls': 'TrGeneric', 'methods': ms,
                                                        'hooks': []}}],
               'nev': 1 + max([c[1] for c in prog if c[0] == 'A'] + [0])}
        jobs.append((cfg, [gen_case(rng, cfg, prog, k) for k in range(ncases)], work))
    for g in range(ngen):
        cfg = generated_config(rng, g, allow_error=(not quick and g % 9 == 8))
        prog = program_of(cfg, tab)
        n = 1 if (not quick and g % 9 == 8) else ncases
        jobs.append((cfg, [gen_case(rng, cfg, prog, k) for k in range(n)], work))
    allpairs = []
    for q in sorted(PAIRING):
        if q not in tab['integrators']:
            continue
        prog = tab['programs'][tab['integrators'][q]][0]
        nev = 1 + max([c[1] for c in prog if c[0] == 'A'] + [0])
        for sq in PAIRING[q]:
            if sq in tab['steppers'] and not tab['steppers'][sq][1]:
                allpairs.append((q, sq, nev))
    if quick:
        npairs = [p for p in allpairs if p[:2] == (
            'pysph.sph.integrator.PECIntegrator', 'pysph.sph.integrator_step.WCSPHStep')]
        npairs += rng.sample([p for p in allpairs if p not in npairs], 2)
    else:
        npairs = allpairs
    jobs += numeric_jobs(npairs, rng, 6 if quick else 12, work)
    jobs += gen_numeric_jobs(rng, 2 if quick else 12, 6 if quick else 12, work, tab)
    return jobs, pick


def main():
    a = H.args()
    R = H.Result(
        'case = (integrator class or generated one_timestep source, tracer stepper per array, '
        'initial particles on a 1/64 grid in the unit interval, domain periodic / mirror '
        '(reflecting walls) with ghost images / none, integrator.set_fixed_h False / True, '
        'callback set or not, 1-4 consecutive steps (t, dt) interleaved with public calls on the '
        'same integrator object (set_nnps with a new NNPS object of another class / cache setting, '
        'set_post_stage_callback with another callback or None, set_fixed_h, particles added), '
        'syntactic shape of every tracer method, hooks that add particles); '
        'distinct = distinct (configuration, case) JSON; non-trivial = more than 3 events and '
        'ghosts present (periodic, mirror) or no domain configured')
    repo = os.environ.get('PYSPH_VERIF_SCRATCH_REPO')
    if not repo:
        import pysph
        repo = os.path.dirname(os.path.dirname(os.path.abspath(pysph.__file__)))
    import warnings
    try:
        with warnings.catch_warnings():
            warnings.simplefilter('ignore')
            tab = T2L.scan(repo)
    except T2L.Unsupported as e:
        # a one_timestep outside the translated language: the theorems say
        # nothing about it; reported as a broken tie, never skipped
        R.disagree({'translator': 'timestep2lean'}, 'program in the one_timestep language',
                   'UNSUPPORTED: %s' % e, 'translation of the current source')
        R.d['search'] = {'skipped': 'no program to run the model on', 'found': 0}
        R.write(a.out)
        return
    os.environ.setdefault('OMP_NUM_THREADS', '1')
    if a.replay:
        rp = json.load(open(a.replay))
        full = rp['case']
        gen_table = read_gen_table(R, tab)
        outs = run_jobs([(full['config'], [full['case']], a.work)], 1)
        evaluate(outs, tab, R, gen_table)
        print(json.dumps(R.d['property_failures'], indent=1)[:4000])
        sys.exit(1 if R.d['property_failures'] else 0)

    gen_table = read_gen_table(R, tab)
    jobs, pick = build_jobs(a.tier, a.seed, a.work, tab, R)
    shipped = sorted(PAIRING)
    R.count('compiled-configurations', len(jobs))
    nproc = min(len(jobs), max(2, min(12, (os.cpu_count() or 4) - 2)))
    t0 = time.time()
    outs = run_jobs(jobs, nproc)
    R.note('%d configurations compiled and run in %d processes, %.0f s'
           % (len(jobs), nproc, time.time() - t0))
    for msg in RETRIED:
        R.note(msg)
    evaluate(outs, tab, R, gen_table)
    if (a.broken or R.d['disagreements']) and R.d['property_failures']:
        R.d['search'] = {'skipped': 'failing inputs already found by the regular run',
                         'found': len(R.d['property_failures'])}
    elif a.broken or R.d['disagreements']:
        # failing-input search on the real code: every shipped integrator,
        # more cases (the literal-execution oracle runs on each)
        rng2 = random.Random(a.seed + 777)
        jobs2 = []
        for q in [q for q in shipped if q in tab['integrators'] and q not in pick]:
            cfg = shipped_config(q, tab, rng2, rng2.randrange(6))
            prog = program_of(cfg, tab)
            jobs2.append((cfg, [gen_case(rng2, cfg, prog, k) for k in range(10)], a.work))
        for g in range(6):
            cfg = generated_config(rng2, 100 + g)
            prog = program_of(cfg, tab)
            jobs2.append((cfg, [gen_case(rng2, cfg, prog, k) for k in range(10)], a.work))
        before = len(R.d['property_failures'])
        evaluate(run_jobs(jobs2, nproc), tab, R, gen_table)
        R.d['search'] = {'extra_configurations': len(jobs2),
                         'found': len(R.d['property_failures']) - before}
    R.write(a.out)


def read_gen_table(R, tab):
    """what the built Lean table says (class -> (owner, wire program)); also
    checks the stepper table against a fresh scan of this tree"""
    out = H.run_model('C04', ['table', 'steppers'])
    table = {}
    for ent in out[0].split(' '):
        if ent:
            q, owner, pw = ent.split('=')
            table[q] = (owner, pw)
    st = {}
    for ent in out[1].split(' '):
        if ent:
            q, ms, hs = ent.split('=')
            st[q] = (ms, hs)
    fresh = {q: ('+'.join(mwire(m) for m in v[0]) or '-',
                 '+'.join(mwire(m) for m in v[1]) or '-')
             for q, v in tab['steppers'].items()}
    if st != fresh:
        diff = sorted(set(st.items()) ^ set(fresh.items()))[:4]
        R.disagree({'table': 'steppers'}, 'Gen/Timesteps.lean', diff,
                   'stepper table is not the translation of this tree')
    if set(table) != set(tab['integrators']):
        R.disagree({'table': 'programs'}, sorted(table), sorted(tab['integrators']),
                   'integrator table is not the translation of this tree')
    return table


if __name__ == '__main__':
    if len(sys.argv) == 4 and sys.argv[1] == '--worker':
        os.environ.setdefault('OMP_NUM_THREADS', '1')
        worker_main(sys.argv[2], sys.argv[3])
    else:
        main()
