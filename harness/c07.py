"""C07 correspondence + property oracle: periodic / mirror domain manager.

impl  : pysph.base.nnps_base.DomainManager / CPUDomainManager.update, reached
        directly and through LinkedListNNPS(...).update_domain()
        (scratch build of /repo; compiled extension)
model : lean PysphVerif.Model.Domain, run at Rat on dyadic inputs (exact
        agreement including <= ties) and at Float on arbitrary doubles
        (bit-exact)
oracle: the property statement evaluated with exact rationals, independently
        of the model, on the arrays before / after every update
"""
import gc
import itertools
import json
import os
import random
import sys
from collections import Counter
from fractions import Fraction as Fr

os.environ.setdefault('OMP_NUM_THREADS', '1')

import numpy as np  # noqa: E402

import hcommon as H  # noqa: E402

H.assert_scratch_import()
from pysph.base.utils import get_particle_array  # noqa: E402
from pysph.base.nnps_base import (DomainManager,  # noqa: E402
                                  NNPSParticleArrayWrapper)
from pysph.base.linked_list_nnps import LinkedListNNPS  # noqa: E402

NAMED = ('x', 'y', 'z', 'u', 'v', 'w', 'h')
AX = ('x', 'y', 'z')
VEL = ('u', 'v', 'w')
GHOST = 2
EPS_DEGENERATE = 1e-5      # oracle keeps clear of the code's 1e-6 fall-back
MIRROR_DEFECT_KEYS = {'C07:mirror-second-array', 'C07:mirror-after-periodic'}
FAILED_KEYS = set()


# --------------------------------------------------------------------------
# implementation side

def build(case):
    """particle arrays of a case; returns (pas, colnames per array)"""
    pas, cols = [], []
    for a in case['arrays']:
        n = len(a['tag'])
        kw = dict(name=a['name'])
        for k in NAMED + ('m', 'rho'):
            kw[k] = np.array(a['cols'][k], dtype=float)
        pa = get_particle_array(**kw)
        pa.add_property('pidx', type='int', default=-1)
        pa.add_property('q', type='double', default=a.get('qdefault', 0.75))
        if a.get('s2') is not None:
            pa.add_property('s2', type='double', stride=2, default=0.5)
        if n:
            pa.get_carray('pidx').get_npy_array()[:] = a['cols']['pidx']
            pa.get_carray('q').get_npy_array()[:] = a['cols']['q']
            if a.get('s2') is not None:
                pa.get_carray('s2').get_npy_array()[:] = a['s2']
            pa.get_carray('tag').get_npy_array()[:] = a['tag']
            if a.get('align', True):
                pa.align_particles()
        pas.append(pa)
        cols.append(colnames(pa))
    return pas, cols


def colnames(pa):
    """extra columns in the fixed order used on the wire: (prop, component)"""
    out = []
    for name in sorted(pa.properties.keys()):
        if name in NAMED or name == 'tag':
            continue
        for k in range(pa.stride.get(name, 1)):
            out.append((name, k))
    return out


def state(pa, cols):
    """rows of a particle array: [tag, [x,y,z,u,v,w,h, extras...]]"""
    n = pa.get_number_of_particles()
    tag = pa.get_carray('tag').get_npy_array()
    arrs = [pa.get_carray(k).get_npy_array() for k in NAMED]
    ex = []
    for name, k in cols:
        s = pa.stride.get(name, 1)
        ex.append(pa.get_carray(name).get_npy_array()[k::s])
    rows = []
    for i in range(n):
        vals = [float(a[i]) for a in arrs]
        for e in ex:
            v = e[i]
            vals.append(int(v) if isinstance(v, (np.integer,)) else float(v))
        rows.append([int(tag[i]), vals])
    return rows


def copy_props_for(case, i):
    p = case['props']
    if p is None:
        return None
    if isinstance(p, dict):
        return p[case['arrays'][i]['name']]
    return p


def run_impl(case):
    """returns list of rounds: dict(before, after, cell, nreal) """
    pas, cols = build(case)
    b = case['box']
    dom = DomainManager(
        xmin=b[0], xmax=b[1], ymin=b[2], ymax=b[3], zmin=b[4], zmax=b[5],
        periodic_in_x=case['per'][0], periodic_in_y=case['per'][1],
        periodic_in_z=case['per'][2], mirror_in_x=case['mir'][0],
        mirror_in_y=case['mir'][1], mirror_in_z=case['mir'][2],
        n_layers=case['nl'], props=case['props'])
    rounds = []
    nnps = None
    before = [state(pa, c) for pa, c in zip(pas, cols)]
    if case.get('via_nnps'):
        # the constructor performs the first domain update
        nnps = LinkedListNNPS(dim=case['dim'], particles=pas, domain=dom,
                              radius_scale=case['rs'])
    else:
        dom.set_pa_wrappers([NNPSParticleArrayWrapper(pa) for pa in pas])
        dom.set_radius_scale(case['rs'])
        dom.update()
    for r in range(len(case['moves']) + 1):
        if r > 0:
            before = [state(pa, c) for pa, c in zip(pas, cols)]
            if nnps is not None:
                nnps.update_domain()
            else:
                dom.update()
        after = [state(pa, c) for pa, c in zip(pas, cols)]
        rounds.append({'before': before, 'after': after,
                       'cell': float(dom.manager.cell_size),
                       'nreal': [int(pa.num_real_particles) for pa in pas]})
        if runaway(after):
            break           # reported by the oracle; further rounds only get bigger
        if r < len(case['moves']):
            apply_move(pas, case['moves'][r])
    defaults = []
    for pa, c in zip(pas, cols):
        d = {k: pa.default_values[k] for k in NAMED}
        d['extra'] = [pa.default_values[name] for name, _ in c]
        defaults.append(d)
    return rounds, cols, defaults


def runaway(after):
    """more ghosts than any configuration can need: 26 periodic images per real
    particle, and 26 reflections of each of those 27 rows"""
    for rows in after:
        nreal = sum(1 for t, _ in rows if t != GHOST)
        if len(rows) - nreal > 27 * 27 * max(nreal, 1):
            return True
    return False


def apply_move(pas, move):
    """what happens to the arrays between two updates of the SAME domain
    manager: real particles move, change h, are removed (outlet) and new real
    particles are appended with ParticleArray.add_particles (inlet, splitting).
    The manager and its NNPSParticleArrayWrappers are never rebuilt."""
    for pa, mv in zip(pas, move):
        tag = pa.get_carray('tag').get_npy_array()
        idx = [i for i in range(len(tag)) if tag[i] != GHOST]
        for k, name in enumerate(AX):
            arr = pa.get_carray(name).get_npy_array()
            for j, i in enumerate(idx):
                if j < len(mv['d']):
                    arr[i] += mv['d'][j][k]
        if mv.get('hs'):
            h = pa.get_carray('h').get_npy_array()
            for j, i in enumerate(idx):
                if j < len(mv['hs']):
                    h[i] *= mv['hs'][j]
        if mv.get('rm'):
            rm = sorted(set(idx[j] for j in mv['rm'] if j < len(idx)))
            if rm:
                pa.remove_particles(np.array(rm, dtype=int))
        ad = mv.get('add')
        if ad and len(ad['tag']):
            kw = {k: np.array(ad['cols'][k], dtype=float) for k in NAMED + ('m', 'rho', 'q')}
            kw['pidx'] = np.array(ad['cols']['pidx'], dtype=int)
            kw['tag'] = np.array(ad['tag'], dtype=int)
            if 's2' in pa.properties:
                kw['s2'] = np.array(ad.get('s2') or [0.5] * (2 * len(ad['tag'])), dtype=float)
            pa.add_particles(**kw)


# --------------------------------------------------------------------------
# model side

def num(mode, v):
    return H.qstr(v) if mode == 'Q' else H.fbits(v)


def rows_str(mode, rows):
    return ''.join(' P=%d:%s' % (t, ','.join(num(mode, v) for v in vals))
                   for t, vals in rows)


def bits(bs):
    return ''.join('1' if b else '0' for b in bs) or '_'


def model_line(case, rnd, cols, defaults):
    mode = case['mode']
    b = case['box']
    s = 'upd %s xmin=%s xmax=%s ymin=%s ymax=%s zmin=%s zmax=%s per=%s mir=%s nl=%s rs=%s' % (
        (mode,) + tuple(num(mode, v) for v in b) +
        (bits(case['per']), bits(case['mir']), num(mode, case['nl']),
         num(mode, case['rs'])))
    for i, rows in enumerate(rnd['before']):
        cp = copy_props_for(case, i)
        keep = [cp is None or k in cp for k in ('u', 'v', 'w', 'h')]
        kx = [cp is None or name in cp for name, _ in cols[i]]
        d = defaults[i]
        dx = d['extra']
        s += ' A keep=%s kx=%s d=%s dx=%s' % (
            bits(keep), bits(kx),
            ','.join(num(mode, d[k]) for k in ('u', 'v', 'w', 'h')),
            ','.join(num(mode, v) for v in dx) or '_')
        s += rows_str(mode, rows)
    return s


def impl_answer(case, rnd):
    mode = case['mode']
    return 'c=%s' % num(mode, rnd['cell']) + ''.join(
        ' A' + rows_str(mode, rows) for rows in rnd['after'])


def parse_answer(s):
    """-> (cell token, [Counter of reals, Counter of ghosts] per array)"""
    toks = s.split()
    if not toks or not toks[0].startswith('c='):
        return None
    arrs = []
    for t in toks[1:]:
        if t == 'A':
            arrs.append((Counter(), Counter()))
        elif t.startswith('P='):
            tag = t[2:].split(':')[0]
            arrs[-1][1 if tag == str(GHOST) else 0][t] += 1
        else:
            return None
    return toks[0], arrs


# --------------------------------------------------------------------------
# the property statement, evaluated independently of the model

def F(v):
    return Fr(v)


def oracle_round(case, rnd, cols, defaults, R, rno):
    """returns list of (key, demand, observed)"""
    fails = []
    if runaway(rnd['after']):
        return [('C07:ghosts-accumulate',
                 'round %d: at most 27*27-1 ghosts per real particle' % rno,
                 'rows per array: %s' % [len(r) for r in rnd['after']])]
    per, mir, b = case['per'], case['mir'], case['box']
    lo = [F(b[0]), F(b[2]), F(b[4])]
    hi = [F(b[1]), F(b[3]), F(b[5])]
    L = [hi[k] - lo[k] for k in range(3)]
    active = any(per) or any(mir)
    exact = case['mode'] == 'Q'
    narr = len(rnd['before'])
    allh = [F(vals[6]) for rows in rnd['before'] for _, vals in rows]
    if not active:
        for i in range(narr):
            if rnd['before'][i] != rnd['after'][i]:
                fails.append(('C07:inactive-domain-changes-array',
                              'no periodic/mirror axis: arrays untouched',
                              'array %d changed' % i))
        return fails
    hmax = max(allh) if allh else None
    degenerate = hmax is None or F(case['rs']) * hmax < F(EPS_DEGENERATE)
    delta = None if degenerate else F(case['nl']) * F(case['rs']) * hmax
    if degenerate:
        R.count('oracle:degenerate-h(ghost-set not demanded)')
    after_reals = []
    for i in range(narr):
        bef = [(t, [F(v) for v in vals]) for t, vals in rnd['before'][i] if t != GHOST]
        aft_all = [(t, [F(v) for v in vals]) for t, vals in rnd['after'][i]]
        aft = [r for r in aft_all if r[0] != GHOST]
        gho = [r for r in aft_all if r[0] == GHOST]
        after_reals.append(aft)
        pidx_col = 7 + [n for n, _ in cols[i]].index('pidx')
        # (a) real particles: only wrapped
        kb = {r[1][pidx_col]: r for r in bef}
        ka = {r[1][pidx_col]: r for r in aft}
        if len(kb) != len(bef) or len(ka) != len(aft) or set(kb) != set(ka):
            fails.append(('C07:real-particles-lost-or-duplicated',
                          'the %d non-ghost particles of array %d survive the update, once each' % (len(bef), i),
                          '%d non-ghost particles after, ids %s' % (len(aft), sorted(map(int, ka))[:12])))
            continue
        for pid_, rb in kb.items():
            ra = ka[pid_]
            for c in range(len(rb[1])):
                vb, va = rb[1][c], ra[1][c]
                if c < 3 and per[c] and L[c] > 0:
                    if lo[c] <= vb <= hi[c]:
                        want = [vb]
                    elif lo[c] - L[c] < vb < lo[c]:
                        want = [vb + L[c]]
                    elif hi[c] < vb < hi[c] + L[c]:
                        want = [vb - L[c]]
                    else:
                        want = None          # left by a period or more: not stated
                        R.count('oracle:left-by-a-period-or-more')
                    if want is not None and not exact and abs(va - want[0]) <= Fr(1, 10 ** 9):
                        pass
                    elif want is not None and va not in want:
                        fails.append(('C07:wrap', 'array %d particle %d %s: %s -> %s' % (
                            i, int(pid_), AX[c], float(vb), float(want[0])), float(va)))
                elif vb != va:
                    fails.append(('C07:real-particle-altered',
                                  'array %d particle %d column %d keeps %s' % (i, int(pid_), c, float(vb)),
                                  float(va)))
            if rb[0] != ra[0]:
                fails.append(('C07:real-particle-altered', 'tag kept', ra[0]))
        # (b) alignment bookkeeping the neighbour search relies on
        nloc = sum(1 for t, _ in rnd['after'][i] if t == 0)
        tags = [t for t, _ in rnd['after'][i]]
        if case.get('align_all', True) and (rnd['nreal'][i] != nloc or any(t != 0 for t in tags[:nloc])):
            fails.append(('C07:alignment', 'Local particles first, num_real_particles = %d' % nloc,
                          'num_real=%d tags=%s' % (rnd['nreal'][i], tags[:20])))
        if degenerate or not exact:
            continue
        # (c) ghosts = exactly the images of the particles in the layers
        cp = copy_props_for(case, i)
        names = list(NAMED) + [n for n, _ in cols[i]]
        dflt = [F(defaults[i][k]) for k in NAMED] + [F(v) for v in defaults[i]['extra']]
        keepcol = [cp is None or n in cp for n in names]
        exp = Counter()
        exp_per = Counter()
        for t, vals in aft:
            opts = []
            for k in range(3):
                o = [(0, None)]
                if per[k]:
                    if vals[k] - lo[k] <= delta:
                        o.append((1, vals[k] + L[k]))
                    if hi[k] - vals[k] <= delta:
                        o.append((1, vals[k] - L[k]))
                elif mir[k]:
                    if vals[k] - lo[k] <= delta:
                        o.append((2, 2 * lo[k] - vals[k]))
                    if hi[k] - vals[k] <= delta:
                        o.append((2, 2 * hi[k] - vals[k]))
                opts.append(o)
            for combo in itertools.product(*opts):
                if all(c[0] == 0 for c in combo):
                    continue
                row = list(vals)
                if any(c[0] == 1 for c in combo):
                    row = [v if kc else d for v, kc, d in zip(row, keepcol, dflt)]
                    row[0:3] = vals[0:3]
                for k, c in enumerate(combo):
                    if c[0] != 0:
                        row[k] = c[1]
                    if c[0] == 2:
                        row[3 + k] = -row[3 + k]
                exp[tuple(row)] += 1
                if all(c[0] != 2 for c in combo):
                    exp_per[tuple(row)] += 1
        got = Counter(tuple(vals) for _, vals in gho)
        if exp != got:
            missing = list((exp - got).elements())
            extra = list((got - exp).elements())
            if any(per) and (exp_per - got):
                key = 'C07:periodic-ghosts'     # a purely periodic image is missing
            elif any(mir) and i >= 1:
                key = 'C07:mirror-second-array'
            elif any(mir) and any(per):
                key = 'C07:mirror-after-periodic'
            elif any(mir):
                key = 'C07:mirror-ghosts'
            else:
                key = 'C07:periodic-ghosts'
            fails.append((key,
                          'round %d array %d: %d ghosts = images of the particles within %s of a %s face; '
                          'missing %s' % (rno, i, sum(exp.values()), float(delta),
                                          'periodic/mirror', short(missing, names)),
                          '%d ghosts; unexpected %s' % (sum(got.values()), short(extra, names))))
    # (d) every image that can interact with a real particle is present
    if exact and not degenerate and any(per) and F(case['nl']) >= 1 and \
            all(L[k] > delta for k in range(3) if per[k]):
        rs = F(case['rs'])
        dst = [vals for aft in after_reals for t, vals in aft
               if all(lo[k] <= vals[k] <= hi[k] for k in range(3) if per[k])]
        # float pre-filter (the exact test below decides; the margin is far
        # above the rounding error of these dyadic numbers)
        dstf = [(float(p[0]), float(p[1]), float(p[2]), float(p[6])) for p in dst]
        rsf = float(rs)
        rng = [(-2, -1, 0, 1, 2) if per[k] else (0,) for k in range(3)]
        for i in range(narr):
            have = set(tuple(F(v) for v in vals[:3]) for t, vals in rnd['after'][i] if t == GHOST)
            for t, q in after_reals[i]:
                if not all(lo[k] <= q[k] <= hi[k] for k in range(3) if per[k]):
                    continue        # left by a period or more: not wrapped, not stated
                for abc in itertools.product(*rng):
                    if abc == (0, 0, 0):
                        continue
                    qi = tuple(q[k] + abc[k] * L[k] for k in range(3))
                    if qi in have:
                        continue
                    qf = (float(qi[0]), float(qi[1]), float(qi[2]))
                    hq = float(q[6])
                    for p, pf in zip(dst, dstf):
                        radf = rsf * max(pf[3], hq)
                        if (pf[0] - qf[0]) ** 2 + (pf[1] - qf[1]) ** 2 + (pf[2] - qf[2]) ** 2 \
                                > radf * radf * 1.000001 + 1e-300:
                            continue
                        rad = rs * max(p[6], q[6])
                        d2 = sum((p[k] - qi[k]) ** 2 for k in range(3))
                        if d2 < rad * rad:
                            fails.append(('C07:interacting-image-missing',
                                          'array %d: image %s of particle at %s lies within %s of the real particle at %s'
                                          % (i, [float(v) for v in qi], [float(v) for v in q[:3]],
                                             float(rad), [float(v) for v in p[:3]]),
                                          'no ghost at that position'))
                            break
        R.count('oracle:coverage-evaluated')
    return fails


def short(rows, names, k=3):
    out = []
    for r in rows[:k]:
        out.append({n: float(v) for n, v in zip(names, r) if n in NAMED or n == 'pidx'})
    return out


# --------------------------------------------------------------------------
# generators

def dy(rng, lo, hi, den=64):
    """dyadic number in [lo, hi] on a grid of 1/den"""
    a, b = int(np.ceil(lo * den)), int(np.floor(hi * den))
    if b < a:
        return lo
    return rng.randint(a, b) / den


def gen_case(rng, big=False, mode='Q', force=None):
    dim = rng.choice([1, 2, 2, 3, 3])
    kind = force or rng.choice(['per'] * 10 + ['mir'] * 5 + ['mix'] * 4 + ['none'])
    if kind == 'mix' and dim == 1:
        dim = rng.choice([2, 3])
    per, mir = [False] * 3, [False] * 3
    while True:
        for k in range(dim):
            c = rng.random()
            per[k] = mir[k] = False
            if kind == 'per':
                per[k] = c < 0.75
            elif kind == 'mir':
                mir[k] = c < 0.75
            elif kind == 'mix':
                per[k] = c < 0.4
                mir[k] = 0.4 <= c < 0.8
        if kind == 'none' or (kind == 'per' and any(per)) or (kind == 'mir' and any(mir)) \
                or (kind == 'mix' and any(per) and any(mir)):
            break
    if mode == 'Q':
        hmax = rng.choice([1 / 32, 1 / 16, 3 / 64, 1 / 8])
        rs = rng.choice([2.0, 2.0, 3.0, 1.5, 1.0])
        nl = rng.choice([1.0, 2.0, 2.0, 3.0, 1.5])
        if rng.random() < 0.04:
            hmax = rng.choice([0.0, 2.0 ** -22, 2.0 ** -19])     # the 1e-6 fall-back
    else:
        hmax = rng.uniform(0.02, 0.15)
        rs = rng.choice([2.0, 3.0, rng.uniform(1.0, 3.0)])
        nl = rng.choice([1.0, 2.0, 3.0, rng.uniform(1.0, 3.0)])
    cell = rs * hmax
    if cell < 1e-6:
        cell = 1.0
    delta = nl * cell
    width = rng.choice(['wide'] * 7 + ['narrow'] * 2 + ['vnarrow'])
    box = []
    Ls = []
    for k in range(3):
        if k >= dim:
            box += [0.0, 0.0]
            Ls.append(0.0)
            continue
        if mode == 'Q':
            lo = rng.choice([0.0, -1.0, 0.5, -0.25, 2.0])
            f = {'wide': [2.5, 3.0, 4.0, 8.0], 'narrow': [1.25, 1.5, 2.0],
                 'vnarrow': [0.5, 1.0, 1.0]}[width]
            Lk = delta * rng.choice(f)
        else:
            lo = rng.uniform(-2, 2)
            Lk = delta * rng.uniform(*{'wide': (2.1, 8), 'narrow': (1.05, 2), 'vnarrow': (0.5, 1.0)}[width])
        box += [lo, lo + Lk]
        Ls.append(Lk)
    narr = rng.choice([1, 1, 2, 2, 3])
    # NNPS.update_domain() is `self.domain.update()`; the constructor path is
    # exercised by the corpus only (constructing many LinkedListNNPS objects in
    # one process next to bare DomainManagers crashed the interpreter in the
    # cyclic garbage collector -- outside this property, see the report)
    via_nnps = False
    arrays = []
    tiny = 2.0 ** -10

    def new_cols():
        return {k: [] for k in NAMED + ('m', 'rho', 'pidx', 'q')}

    def gen_row(colsd, pidx, j):
        """one particle: inside, on a face, at / next to the layer thresholds,
        outside the box by less than, exactly, or more than a period"""
        for k in range(3):
            lo, hi, Lk = box[2 * k], box[2 * k + 1], Ls[k]
            if k >= dim:
                # (a dim-D neighbour search must not see other coordinates)
                v = 0.0 if via_nnps or rng.random() < 0.7 else dy(rng, -1, 1)
            elif mode == 'F':
                r = rng.random()
                if r < 0.35:
                    v = rng.uniform(lo, hi)
                elif r < 0.6:
                    v = rng.uniform(lo, lo + 1.2 * delta)
                elif r < 0.85:
                    v = rng.uniform(hi - 1.2 * delta, hi)
                else:
                    v = rng.choice([rng.uniform(lo - 0.9 * Lk, lo), rng.uniform(hi, hi + 0.9 * Lk)])
            else:
                r = rng.random()
                if r < 0.25:
                    v = lo + dy(rng, 0, Lk)
                elif r < 0.40:
                    v = rng.choice([lo, hi])
                elif r < 0.55:
                    v = rng.choice([lo + delta, hi - delta])
                elif r < 0.67:
                    v = rng.choice([lo + delta + tiny, hi - delta - tiny,
                                    lo + delta - tiny, hi - delta + tiny])
                elif r < 0.80:
                    v = rng.choice([lo + dy(rng, 0, min(delta, Lk)), hi - dy(rng, 0, min(delta, Lk))])
                elif r < 0.95:
                    fr = rng.choice([1 / 64, 1 / 4, 1 / 2, 63 / 64])
                    v = rng.choice([lo - fr * Lk, hi + fr * Lk])
                elif r < 0.98:
                    v = rng.choice([lo - Lk, hi + Lk])      # exactly one period out
                else:
                    v = rng.choice([lo - 1.5 * Lk, hi + 1.25 * Lk])
            colsd[AX[k]].append(float(v))
        for k in VEL:
            colsd[k].append(dy(rng, -4, 4, 8) if mode == 'Q' else rng.uniform(-3, 3))
        if mode == 'Q':
            colsd['h'].append(hmax * rng.choice([1, 1, 0.5, 0.75, 0.25]))
        else:
            colsd['h'].append(hmax * rng.uniform(0.3, 1.0))
        colsd['m'].append(dy(rng, 0, 2, 16))
        colsd['rho'].append(1.0 + j)
        colsd['pidx'].append(pidx)
        colsd['q'].append(dy(rng, -1, 1, 4))

    for ai in range(narr):
        nmax = 12 if big else 7
        n = 0 if rng.random() < 0.10 else rng.randint(1, nmax)
        colsd = new_cols()
        for j in range(n):
            gen_row(colsd, 1000 * ai + j, j)
        tag = [0] * n
        align = True
        if n and rng.random() < 0.07:
            # ghosts left in the array by the user / a previous domain manager
            for j in range(n):
                if rng.random() < 0.3:
                    tag[j] = GHOST
            align = rng.random() < 0.6
        a = {'name': 'a%d' % ai, 'tag': tag, 'cols': colsd, 'align': align}
        if rng.random() < 0.2:
            a['s2'] = [dy(rng, -2, 2, 8) for _ in range(2 * n)]
        arrays.append(a)
    # copied-property subsets (periodic images); x, y, z are required by the code
    optional = ['u', 'v', 'w', 'h', 'm', 'rho', 'p', 'au', 'av', 'aw', 'gid', 'pid', 'tag', 'pidx', 'q']

    def subset():
        s = ['x', 'y', 'z'] + [p for p in optional if rng.random() < 0.6]
        if rng.random() < 0.8 and 'h' not in s:
            s.append('h')
        if 'pidx' not in s and rng.random() < 0.7:
            s.append('pidx')
        rng.shuffle(s)
        return s
    r = rng.random()
    if r < 0.55:
        props = None
    elif r < 0.85:
        props = subset()
    else:
        props = {a['name']: (None if rng.random() < 0.2 else subset()) for a in arrays}
        if any(v is None for v in props.values()):
            # a dict entry None means "all properties" for that array
            pass
    nrounds = rng.choice([0, 1, 1, 2, 3])
    if nrounds == 0 and any(len(a['tag']) == 0 for a in arrays) and rng.random() < 0.7:
        nrounds = rng.choice([1, 2])
    # the population of REAL particles changes between updates of the same
    # manager: an inlet / splitting appends rows (add_particles), an outlet
    # removes rows; an array that was empty when the manager was built is
    # filled later
    nreal = [sum(1 for t in a['tag'] if t != GHOST) for a in arrays]
    was_empty = [len(a['tag']) == 0 for a in arrays]
    nadded = [0] * len(arrays)
    moves = []
    for r_ in range(nrounds):
        mv = []
        for ai, a in enumerate(arrays):
            n = nreal[ai]
            d = []
            for j in range(n):
                dd = [0.0, 0.0, 0.0]
                for k in range(dim):
                    Lk = Ls[k]
                    if mode == 'Q':
                        dd[k] = rng.choice([0.0, 0.0, 1 / 64, -1 / 64, delta / 2, -delta / 2,
                                            Lk / 4, -Lk / 4, 3 * Lk / 4, -3 * Lk / 4, delta, -delta])
                    else:
                        dd[k] = rng.choice([0.0, rng.uniform(-0.8 * Lk, 0.8 * Lk), rng.uniform(-delta, delta)])
                d.append(dd)
            m = {'d': d}
            if rng.random() < 0.25:
                m['hs'] = [rng.choice([1.0, 0.5, 2.0, 1.0]) for _ in range(n)]
            if n and rng.random() < 0.2:
                m['rm'] = sorted(set(rng.randrange(n) for _ in range(rng.choice([1, 1, 2, n]))))
                n -= len(m['rm'])
            if rng.random() < (0.8 if was_empty[ai] and nadded[ai] == 0 else 0.35):
                na = rng.choice([1, 1, 2, 3, 5 if big else 3])
                colsd = new_cols()
                for j in range(na):
                    gen_row(colsd, 1000 * ai + 100 * (r_ + 1) + j, nadded[ai] + j)
                m['add'] = {'tag': [0] * na, 'cols': colsd}
                if a.get('s2') is not None:
                    m['add']['s2'] = [dy(rng, -2, 2, 8) for _ in range(2 * na)]
                n += na
                nadded[ai] += na
            nreal[ai] = n
            mv.append(m)
        moves.append(mv)
    case = {'mode': mode, 'dim': dim, 'kind': kind, 'width': width, 'box': box, 'per': per, 'mir': mir,
            'nl': nl, 'rs': rs, 'props': props, 'arrays': arrays, 'moves': moves,
            'via_nnps': via_nnps and all(len(a['tag']) > 0 for a in arrays),
            'align_all': all(a['align'] for a in arrays)}
    return case


def corpus():
    """minimised past failures; always run first"""
    def arr(name, pts, base=0, h=1 / 16):
        n = len(pts)
        return {'name': name, 'tag': [0] * n, 'align': True, 'cols': {
            'x': [p[0] for p in pts], 'y': [p[1] for p in pts], 'z': [p[2] for p in pts],
            'u': [1.0 + j for j in range(n)], 'v': [10.0 + j for j in range(n)],
            'w': [100.0 + j for j in range(n)], 'h': [h] * n, 'm': [1.0] * n,
            'rho': [1.0] * n, 'pidx': [base + j for j in range(n)], 'q': [0.25] * n}}
    base = dict(mode='Q', dim=2, kind='mir', width='wide', box=[0.0, 1.0, 0.0, 1.0, 0.0, 0.0],
                per=[False] * 3, mir=[True, False, False], nl=2.0, rs=2.0, props=None,
                moves=[], via_nnps=False, align_all=True)
    out = []
    # F4: mirror images of the second array use the first array's translations
    out.append(dict(base, arrays=[arr('a0', [[1 / 8, 0.5, 0.0]]), arr('a1', [[3 / 16, 0.5, 0.0]], 1000)]))
    # F4b: periodic in x, mirror in y and z: `added` re-aligned between index computation and use
    pts = [[1.0, 0.625, 0.8125], [0.1875, 0.125, 0.875], [0.875, 0.0, 0.6875], [0.1875, 0.0625, 0.125],
           [1.0, 0.0, 0.625], [0.5, 0.8125, 0.1875], [0.0, 0.5, 0.8125], [0.9375, 0.5625, 0.0],
           [0.75, 0.625, 0.75], [0.9375, 0.875, 0.6875]]
    out.append(dict(base, dim=3, kind='mix', box=[0.0, 1.0, 0.0, 1.0, 0.0, 1.0], per=[True, False, False],
                    mir=[False, True, True], arrays=[arr('a0', pts)]))
    # corner images and the <= tie on both faces, two rounds, through LinkedListNNPS
    out.append(dict(base, kind='per', via_nnps=True, per=[True, True, False], mir=[False] * 3, nl=1.0,
                    arrays=[arr('a0', [[0.0, 0.0, 0.0], [1 / 8, 7 / 8, 0.0], [1 / 8 + 2.0 ** -10, 0.5, 0.0],
                                       [1.0, 1.0, 0.0], [-0.25, 1.25, 0.0]])],
                    moves=[[{'d': [[0.5, 0.5, 0.0]] * 5}]]))
    # seed2-B: the box-wrap loop ran over the particle count cached when the
    # manager was built -> a particle appended later (inlet) and stored at an
    # index >= the original length is never wrapped back into the box
    def added(pts, base_):
        a = arr('_', pts, base_)
        return {'tag': a['tag'], 'cols': a['cols']}
    perxy = dict(base, kind='per', per=[True, True, False], mir=[False] * 3, nl=1.0)
    out.append(dict(perxy, arrays=[arr('a0', [[0.5, 0.5, 0.0]])],
                    moves=[[{'d': [[0.0, 0.0, 0.0]], 'add': added([[1.0 + 1 / 32, 0.5, 0.0]], 100)}]]))
    # ... an array that was EMPTY when the manager was built and is filled later:
    # its particle left through y = 0 next to the x = 0 face (wrap + 3 images)
    out.append(dict(perxy, arrays=[arr('a0', [[0.5, 0.5, 0.0]]), arr('a1', [], 1000)],
                    moves=[[{'d': [[0.0, 0.0, 0.0]]},
                            {'d': [], 'add': added([[1 / 16, -1 / 32, 0.0]], 1100)}]]))
    # ... through LinkedListNNPS.update_domain(), with an outlet removing a row
    # first and a second round in which an added particle leaves through a corner
    out.append(dict(perxy, via_nnps=True,
                    arrays=[arr('a0', [[0.25, 0.25, 0.0], [0.5, 0.5, 0.0], [15 / 16, 0.75, 0.0]])],
                    moves=[[{'d': [[0.0, 0.0, 0.0]] * 3, 'rm': [0],
                             'add': added([[-1 / 32, 0.5, 0.0], [0.5, 0.25, 0.0]], 100)}],
                           [{'d': [[0.0, 0.0, 0.0], [0.0, 0.0, 0.0], [0.0, 0.0, 0.0], [0.53125, 0.78125, 0.0]]}]]))
    return out


# --------------------------------------------------------------------------

def check_cases(cases, R, sample_from=0):
    impls = []
    lines = []
    for c in cases:
        rounds, cols, defaults = run_impl(c)
        gc.collect()
        impls.append((rounds, cols, defaults))
        for rnd in rounds:
            lines.append('skip' if runaway(rnd['after']) else model_line(c, rnd, cols, defaults))
    out = H.run_model('C07', lines)
    if len(out) != len(lines):
        raise SystemExit('model driver answered %d lines for %d' % (len(out), len(lines)))
    pos = 0
    for ci, (c, (rounds, cols, defaults)) in enumerate(zip(cases, impls)):
        nghost = 0
        for rno, rnd in enumerate(rounds):
            m = out[pos]
            ln = lines[pos]
            pos += 1
            g = impl_answer(c, rnd)
            fails = oracle_round(c, rnd, cols, defaults, R, rno)
            for key, demand, observed in fails:
                R.prop_fail(key, c, demand, observed)
                FAILED_KEYS.add(key)
            if ln == 'skip':
                R.count('runaway-round-not-sent-to-model')
            elif m != g:
                pm, pg = parse_answer(m), parse_answer(g)
                if pm is not None and pm == pg:
                    R.count('L2:row-order-differs-only')
                elif any(c['mir']) and (len(c['arrays']) >= 2 or any(c['per'])) and \
                        FAILED_KEYS & MIRROR_DEFECT_KEYS:
                    # the model is the REPAIRED mirror code; on a tree where the
                    # property oracle has already shown (and reported) one of the
                    # two mirror defects, model-vs-code differences in the same
                    # class of configurations add nothing
                    R.count('disagreement-explained-by-reported-mirror-defect')
                else:
                    R.disagree({'case': c, 'round': rno, 'line': ln[:4000]}, m[:4000], g[:4000],
                               'update round %d' % rno)
            nghost += sum(1 for rows in rnd['after'] for t, _ in rows if t == GHOST)
            R.d['traces_validated_against_impl'] += 1
            for rows in rnd['after']:
                R.count('ghosts-created', sum(1 for t, _ in rows if t == GHOST))
            wrapped = sum(1 for rb, ra in zip(rnd['before'], rnd['after'])
                          for (tb, vb), (ta, va) in zip([r for r in rb if r[0] != GHOST], ra)
                          if vb[:3] != va[:3])
            R.count('particles-wrapped', wrapped)
        for mv in c['moves']:
            for ai, m in enumerate(mv):
                if m.get('rm'):
                    R.count('history:real-particles-removed', len(m['rm']))
                ad = m.get('add')
                if ad:
                    R.count('history:real-particles-added', len(ad['tag']))
                    if not c['arrays'][ai]['tag']:
                        R.count('history:added-to-array-empty-at-build')
                    b = c['box']
                    R.count('history:added-outside-periodic-box', sum(
                        1 for j in range(len(ad['tag']))
                        if any(c['per'][k] and not b[2 * k] <= ad['cols'][AX[k]][j] <= b[2 * k + 1]
                               for k in range(3))))
        R.count('mode:' + c['mode'])
        R.count('kind:' + c['kind'])
        R.count('dim:%d' % c['dim'])
        R.count('narrays:%d' % len(c['arrays']))
        R.count('rounds:%d' % len(rounds))
        R.count('width:' + c.get('width', '?'))
        R.count('props:' + ('all' if c['props'] is None else type(c['props']).__name__))
        if c.get('via_nnps'):
            R.count('via-LinkedListNNPS')
        nreal = sum(1 for a in c['arrays'] for t in a['tag'] if t != GHOST)
        R.case(json.dumps(c, sort_keys=True), nreal > 0 and nghost > 0,
               {'case': c, 'impl_round0': impl_answer(c, rounds[0])[:1500], 'model_round0': out[pos - len(rounds)][:1500]}
               if ci < sample_from else None)


def check_many(cases, R, sample_from=0, chunk=150):
    """check_cases in chunks: the per-case gc.collect() (see gen_case) costs time
    proportional to the live heap, so results of earlier chunks are dropped
    before the next one runs"""
    for i in range(0, len(cases), chunk):
        check_cases(cases[i:i + chunk], R, sample_from=sample_from if i == 0 else 0)


def main():
    a = H.args()
    R = H.Result(
        'case = box + periodic/mirror flags per axis (1-3 D) + n_layers + radius_scale + copied-property '
        'subset + 1-3 particle arrays (0-12 particles, points on faces, at and next to the layer '
        'thresholds, outside the box, in corners, variable h) + 0-3 rounds on the SAME manager, each: move / '
        'rescale h / remove real particles / append new real particles (add_particles; also to arrays that '
        'were empty when the manager was built), then update; every '
        'update of every case is one model-vs-code comparison; distinct = distinct case JSON; '
        'non-trivial = at least one real particle and at least one ghost created')
    if a.replay:
        rp = json.load(open(a.replay))
        check_cases([rp['case']], R)
        print(json.dumps({'property_failures': R.d['property_failures'][:5],
                          'disagreements': R.d['disagreements'][:2]}, indent=1, default=str)[:6000])
        sys.exit(1 if R.d['property_failures'] else 0)
    rng = random.Random(a.seed * 104729 + 7)
    quick = a.tier == 'quick'
    check_cases(corpus(), R, sample_from=1)
    R.count('corpus', len(corpus()))
    nq, nf = (700, 200) if quick else (6000, 1500)
    check_many([gen_case(rng, big=not quick, mode='Q') for _ in range(nq)], R, sample_from=2)
    check_many([gen_case(rng, big=not quick, mode='F') for _ in range(nf)], R, sample_from=1)
    if a.broken or R.d['disagreements']:
        rng2 = random.Random(a.seed + 4242)
        extra = 600 if quick else 3000
        check_many([gen_case(rng2, big=True, mode='Q',
                             force=rng2.choice(['per', 'mir', 'mix'])) for _ in range(extra)], R)
        R.d['search'] = {'extra_cases': extra, 'found': len(R.d['property_failures'])}
    R.write(a.out)


if __name__ == '__main__':
    main()
