"""C16 correspondence + property oracle: inlet/outlet bookkeeping.

impl : the real Inlet/Outlet classes of the five shipped families
       (pysph.sph.bc.{donothing,mod_donothing,characteristic,mirror,hybrid})
       and InletBase/OutletBase themselves, driving real ParticleArrays through
       a real SPHEvaluator (IOEvaluate compiled once per array pair), scratch
       build of /repo
model: lean PysphVerif.Model.InletOutlet, run over whole histories at Float
       (bit-exact) and, for dyadic geometry, also at Rat (exact)
oracle: the property statement evaluated with exact rationals on the real
       arrays before/after every update call, plus the history-level account
       (fluid count = initial + entered - left; labels never duplicated).
"""
import importlib
import json
import random
import sys
from collections import Counter
from fractions import Fraction as Fr

import numpy as np

import hcommon as H

H.assert_scratch_import()
from pysph.base.utils import get_particle_array  # noqa: E402
from pysph.base.kernels import QuinticSpline  # noqa: E402
from pysph.sph.bc.inlet_outlet_manager import (  # noqa: E402
    InletInfo, OutletInfo, InletBase, OutletBase)
import pysph.sph.equation as EQ  # noqa: E402

FLOATF = ['x', 'y', 'z', 'u', 'disp']
INTF = ['ioid', 'tag', 'lbl', 'pay']
FIELDS = FLOATF + INTF
# what "its properties" means for the oracle: everything except the two
# working properties the update call itself evaluates
PPROPS = ['x', 'y', 'z', 'u', 'tag', 'lbl', 'pay']
ARRAYS = ['inlet', 'ghost_inlet', 'fluid', 'outlet', 'ghost_outlet']
FAMILIES = ['donothing', 'mod_donothing', 'characteristic', 'mirror',
            'hybrid', 'base']
EPS = 0.000001
BIG = 1000.0
OTHER = ['v', 'w', 'm', 'h', 'rho', 'p']   # real properties outside the model
BAND = Fr(1, 10 ** 9)


# --------------------------------------------------------------------------
# case generation

def dy(rng, lo, hi, den=64):
    """a dyadic rational in [lo, hi] with denominator `den`, as float"""
    return rng.randint(int(lo * den), int(hi * den)) / den


def axis(k, sgn=1.0):
    v = [0.0, 0.0, 0.0]
    v[k] = sgn
    return v


def gen_case(rng, big=False, fam=None, force=None):
    force = force or {}
    fam = fam or rng.choice(FAMILIES)
    dim = rng.choice([1, 2, 3])
    geo = rng.choice(['axis', 'axis', 'axis', 'neg-axis', 'oblique'])
    if dim == 1 and geo == 'oblique':
        geo = 'axis'
    if geo == 'axis':
        k = rng.randrange(dim)
        e = axis(k)
    elif geo == 'neg-axis':
        k = rng.randrange(dim)
        e = axis(k, -1.0)
    else:
        e = rng.choice([[0.6, 0.8, 0.0], [0.8, -0.6, 0.0], [-0.6, 0.8, 0.0]])
        if dim == 3 and rng.random() < 0.5:
            e = [e[0], 0.0, e[1]] if rng.random() < 0.5 else [0.0, e[0], e[1]]
    dyadic = geo != 'oblique'
    # transverse unit vectors (only used to scatter particles)
    if dyadic:
        ts = [axis(j) for j in range(dim) if j != k]
    else:
        ts = [[-e[1], e[0], 0.0]] if e[2] == 0.0 else []
    lin = rng.choice([0.5, 0.25, 1.0, 0.375])
    lout = rng.choice([0.5, 0.25, 1.0, 0.75])
    span = rng.choice([0.5, 1.0, 2.0])           # fluid length between planes
    origin = [dy(rng, -2, 2, 8) if j < dim else 0.0 for j in range(3)]

    def pos(s, t):
        p = list(origin)
        for j in range(3):
            p[j] += s * e[j]
            for tv, tc in zip(ts, t):
                p[j] += tc * tv[j]
        return p

    zin = dict(ref=pos(0.0, [0.0] * len(ts)), normal=[-c for c in e],
               length=lin)
    zout = dict(ref=pos(span, [0.0] * len(ts)), normal=list(e), length=lout)
    lblc = [100]

    def particles(n, slo, shi, nonlocal_p=0.0):
        out = []
        for _ in range(n):
            s = dy(rng, slo, shi)
            t = [dy(rng, -1, 1, 16) for _ in ts]
            p = pos(s, t)
            lblc[0] += 1
            tag = 0
            if rng.random() < nonlocal_p:
                tag = rng.choice([1, 2])
            out.append(dict(x=p[0], y=p[1], z=p[2], u=dy(rng, -2, 2, 8),
                            tag=tag, lbl=lblc[0], pay=rng.randint(-50, 50)))
        return out
    nl = rng.choice([0.0, 0.0, 0.0, 0.25])
    n_in = rng.choice([1, 2, 3, 4, 6, 8 if big else 5])
    n_fl = rng.choice([0, 0, 1, 2, 4, 7, 12 if big else 5])
    n_out = rng.choice([0, 0, 1, 2, 4])
    inlet = particles(n_in, -lin, 0.0, nl)
    fluid = particles(n_fl, 0.0, span, nl)
    outlet = particles(n_out, span, span + lout, nl)
    ghost_in = rng.random() < 0.6
    ghost_out = fam == 'mirror' and rng.random() < 0.75
    mask_kind = force.get('mask') or rng.choice(
        ['none', 'all', 'example', 'example', 'random'])
    if mask_kind == 'none':
        props = None
    elif mask_kind == 'all':
        props = 'lb'
    elif mask_kind == 'example':
        props = ['x', 'y', 'z', 'u', 'v', 'w', 'm', 'h', 'rho', 'p', 'lbl',
                 'pay']
    else:
        pool = ['x', 'y', 'z', 'u', 'lbl', 'pay', 'tag', 'ioid', 'disp'] + OTHER
        props = [p for p in pool if rng.random() < 0.6]
    if ghost_out and props not in (None, 'lb'):
        # the mirror outlet reflects x, y, z, u of the extracted particles
        if rng.random() < 0.9:
            props = sorted(set(props) | {'x', 'y', 'z', 'u'})
    # defaults of the receiving arrays for properties that are not copied
    dflt = {a: dict(u=rng.choice([0.0, 0.0, 1.5]), lbl=rng.choice([0, 0, -7]),
                    pay=rng.choice([0, 0, 9]), disp=rng.choice([0.0, 0.25]),
                    ioid=rng.choice([0.0, 0.0, 1.0]))
            for a in ('fluid', 'outlet', 'ghost_outlet')}
    active = rng.choice([[1], [1], [2], [1, 2]])
    nops = rng.choice([4, 8, 16, 30] if not big else [8, 20, 50, 80])
    style = force.get('style') or rng.choice(
        ['steady', 'steady', 'jumpy', 'back-forth', 'overshoot', 'still'])
    ops = []
    for i in range(nops):
        r = rng.random()
        if r < 0.4:
            ops.append(dict(op='move', seed=rng.randrange(1 << 30),
                            style=style))
        elif r < 0.7:
            ops.append(dict(op='inlet', stage=rng.choice([1, 1, 1, 2])))
        else:
            ops.append(dict(op='outlet', stage=rng.choice([1, 1, 1, 2])))
    case = dict(family=fam, dim=dim, geo=geo, dyadic=dyadic, e=e, ts=ts,
                zin=zin, zout=zout, inlet=inlet, fluid=fluid, outlet=outlet,
                ghost_in=ghost_in, ghost_out=ghost_out, props=props,
                dflt=dflt, active=active, ops=ops,
                uref=[dy(rng, 0, 2, 8), dy(rng, 0, 2, 8)],
                misalign_ghost=(ghost_in and rng.random() < 0.04))
    return case


def move_delta(op, arr, lbl, case):
    """displacement of the particle labelled `lbl` of array `arr` in move
    `op`: a pure function of (move seed, array, label) -- independent of the
    order in which the implementation keeps its particles"""
    r = random.Random('%d/%s/%d' % (op['seed'], arr, lbl))
    st = op['style']
    lin = case['zin']['length']
    if st == 'steady':
        s = r.randint(0, 16) / 64
    elif st == 'jumpy':
        s = r.randint(-8, 48) / 64
    elif st == 'back-forth':
        s = r.choice([-1, 1]) * r.randint(0, 24) / 64
    elif st == 'overshoot':
        s = r.choice([0.0, lin, lin + 0.125, 2 * lin, 0.25])
    else:
        s = 0.0 if r.random() < 0.8 else 0.125
    t = [r.randint(-4, 4) / 64 for _ in case['ts']]
    d = [0.0, 0.0, 0.0]
    for j in range(3):
        d[j] += s * case['e'][j]
        for tv, tc in zip(case['ts'], t):
            d[j] += tc * tv[j]
    du = r.choice([0.0, 0.0, 0.125, -0.25])
    return d[0], d[1], d[2], du


# --------------------------------------------------------------------------
# the real objects

def make_pa(name, parts, dflt=None):
    dflt = dflt or {}
    n = len(parts)
    kw = dict(name=name)
    if n:
        for f in ('x', 'y', 'z', 'u'):
            kw[f] = np.array([p[f] for p in parts], dtype=float)
        kw['h'] = np.ones(n) * 0.25
        kw['m'] = np.ones(n) * 0.5
        kw['tag'] = np.array([p['tag'] for p in parts], dtype=np.int32)
    pa = get_particle_array(**kw)
    pa.add_property('ioid', default=dflt.get('ioid', 0.0))
    pa.add_property('disp', default=dflt.get('disp', 0.0))
    pa.add_property('lbl', type='int', default=dflt.get('lbl', 0))
    pa.add_property('pay', default=float(dflt.get('pay', 0)))
    if 'u' in dflt and dflt['u'] != 0.0:
        pa.default_values['u'] = dflt['u']
    if n:
        pa.get_carray('lbl').get_npy_array()[:] = [p['lbl'] for p in parts]
        pa.get_carray('pay').get_npy_array()[:] = [p['pay'] for p in parts]
        pa.get_carray('ioid').get_npy_array()[:] = 0.0
        pa.get_carray('disp').get_npy_array()[:] = 0.0
        pa.align_particles()
    return pa


def reflect_part(p, zone):
    """mirror image across the interface plane (exact for dyadic data)"""
    n = zone['normal']
    d = sum((p[c] - zone['ref'][j]) * n[j] for j, c in enumerate('xyz'))
    q = dict(p)
    for j, c in enumerate('xyz'):
        q[c] = p[c] - 2 * d * n[j]
    return q


class World:
    def __init__(self, case):
        self.case = case
        fam = case['family']
        if fam == 'base':
            icls, ocls = InletBase, OutletBase
        else:
            icls = importlib.import_module('pysph.sph.bc.%s.inlet' % fam).Inlet
            ocls = importlib.import_module(
                'pysph.sph.bc.%s.outlet' % fam).Outlet
        self.ikind = 'hybrid' if fam == 'hybrid' else 'inlet'
        self.okind = 'mirror' if fam == 'mirror' else 'outlet'
        d = case['dflt']
        self.pa = {}
        self.pa['inlet'] = make_pa('inlet', case['inlet'])
        self.pa['fluid'] = make_pa('fluid', case['fluid'], d['fluid'])
        self.pa['outlet'] = make_pa('outlet', case['outlet'], d['outlet'])
        if case['ghost_in']:
            # aligned inlet order (align_particles may have permuted it)
            snap = self.snap('inlet')
            gp = [reflect_part(dict(zip(FIELDS, r)), case['zin'])
                  for r in zip(*[snap[f] for f in FIELDS])]
            for g in gp:
                g['tag'] = 0
            if case['misalign_ghost'] and gp:
                gp = gp[:-1]
            self.pa['ghost_inlet'] = make_pa('ghost_inlet', gp)
        else:
            self.pa['ghost_inlet'] = None
        if case['ghost_out']:
            snap = self.snap('outlet')
            gp = [reflect_part(dict(zip(FIELDS, r)), case['zout'])
                  for r in zip(*[snap[f] for f in FIELDS])]
            self.pa['ghost_outlet'] = make_pa('ghost_outlet', gp,
                                              d['ghost_outlet'])
        else:
            self.pa['ghost_outlet'] = None
        if fam == 'hybrid':
            self.pa['inlet'].add_constant('uref', case['uref'][0])
            self.pa['fluid'].add_constant('uref', case['uref'][1])
        props = case['props']
        if props == 'lb':
            props = self.pa['fluid'].get_lb_props()
        self.props = props
        dim = case['dim']
        kernel = QuinticSpline(dim=dim)
        ii = InletInfo('inlet', normal=case['zin']['normal'],
                       refpoint=case['zin']['ref'])
        ii.length = case['zin']['length']
        oi = OutletInfo('outlet', normal=case['zout']['normal'],
                        refpoint=case['zout']['ref'], props_to_copy=props)
        oi.length = case['zout']['length']
        self.inlet = icls(self.pa['inlet'], self.pa['fluid'], ii, kernel, dim,
                          active_stages=list(case['active']),
                          ghost_pa=self.pa['ghost_inlet'])
        self.outlet = ocls(self.pa['outlet'], self.pa['fluid'], oi, kernel,
                           dim, active_stages=list(case['active']),
                           ghost_pa=self.pa['ghost_outlet'])
        self.next_lbl = 100000

    def snap(self, name):
        pa = self.pa[name]
        if pa is None:
            return None
        out = {}
        for f in FIELDS:
            v = pa.get(f, only_real_particles=False)
            if f in FLOATF:
                out[f] = [float(t) for t in v]
            else:
                out[f] = [int(t) for t in v]
        out['nreal'] = int(pa.num_real_particles)
        return out

    def snap_all(self):
        s = {a: self.snap(a) for a in ARRAYS}
        if self.case['family'] == 'hybrid':
            s['uref'] = [float(self.pa['inlet'].uref[0]),
                         float(self.pa['fluid'].uref[0])]
        else:
            s['uref'] = [0.0, 0.0]
        return s

    def update(self, which, stage):
        obj = self.inlet if which == 'inlet' else self.outlet
        if obj.io_eval is None:
            # unnamed Groups are numbered by a process-wide counter that leaks
            # into the generated source; restart it so that every evaluator of
            # an array pair maps to ONE cached extension module
            EQ.group_counter = EQ._counter()
        obj.update(0.0, 0.0, stage)

    def move(self, op):
        for a in ARRAYS:
            pa = self.pa[a]
            if pa is None or pa.get_number_of_particles() == 0:
                continue
            lbl = pa.get('lbl', only_real_particles=False)
            d = [move_delta(op, a, int(t), self.case) for t in lbl]
            for j, f in enumerate(('x', 'y', 'z', 'u')):
                arr = pa.get_carray(f).get_npy_array()
                arr[:] = arr + np.array([t[j] for t in d])

    def relabel_inlet(self, idx):
        """fresh labels for the recycled inlet originals (and their ghosts)"""
        new = []
        for i in idx:
            self.next_lbl += 1
            new.append(self.next_lbl)
        for a in ('inlet', 'ghost_inlet'):
            pa = self.pa[a]
            if pa is None:
                continue
            arr = pa.get_carray('lbl').get_npy_array()
            for i, v in zip(idx, new):
                if i < len(arr):
                    arr[i] = v
        return new


# --------------------------------------------------------------------------
# wire

def num(mode, v):
    return H.qstr(v) if mode == 'q' else H.fbits(v)


def nlist(mode, vs):
    vs = list(vs)
    if not vs:
        return '_'
    return ','.join(num(mode, v) for v in vs)


def arr_tokens(mode, name, s):
    t = []
    for f in FLOATF:
        t.append('%s.%s=%s' % (name, f, nlist(mode, s[f])))
    for f in INTF:
        t.append('%s.%s=%s' % (name, f, H.ilist(s[f])))
    return t


def dump_line(mode, snap):
    t = []
    for a in ARRAYS:
        if snap[a] is None:
            t.append('%s=None' % a)
        else:
            t += arr_tokens(mode, a, snap[a])
    t.append('uref.in=' + num(mode, snap['uref'][0]))
    t.append('uref.fluid=' + num(mode, snap['uref'][1]))
    return 'ok ' + ' '.join(t)


def set_arr_line(mode, name, s):
    t = ['%s=%s' % (f, nlist(mode, s[f])) for f in FLOATF]
    t += ['%s=%s' % (f, H.ilist(s[f])) for f in INTF]
    return '%s arr name=%s %s' % (mode, name, ' '.join(t))


def one_tokens(mode, p):
    t = ['%s=%s' % (f, num(mode, p[f])) for f in FLOATF]
    t += ['%s=%d' % (f, int(p[f])) for f in INTF]
    return ' '.join(t)


def zone_line(mode, which, z):
    return ('%s zone which=%s px=%s py=%s pz=%s nx=%s ny=%s nz=%s len=%s '
            'eps=%s big=%s' % (
                mode, which, num(mode, z['ref'][0]), num(mode, z['ref'][1]),
                num(mode, z['ref'][2]), num(mode, z['normal'][0]),
                num(mode, z['normal'][1]), num(mode, z['normal'][2]),
                num(mode, z['length']), num(mode, EPS), num(mode, BIG)))


def default_particle(pa):
    dv = pa.default_values
    return dict(x=float(dv['x']), y=float(dv['y']), z=float(dv['z']),
                u=float(dv['u']), disp=float(dv['disp']),
                ioid=int(dv['ioid']), tag=int(dv['tag']), lbl=int(dv['lbl']),
                pay=int(dv['pay']))


def parse_dump(line):
    """model dump -> {array: list of records | None}"""
    if not line.startswith('ok '):
        return line
    cols = {}
    out = {}
    for tok in line.split()[1:]:
        k, v = tok.split('=', 1)
        if '.' not in k:
            out[k] = None
            continue
        a, f = k.split('.', 1)
        cols.setdefault(a, {})[f] = [] if v == '_' else v.split(',')
    for a, c in cols.items():
        if a == 'uref':
            out['uref'] = (c['in'][0], c['fluid'][0])
        else:
            out[a] = list(zip(*[c[f] for f in FIELDS]))
    return out


# --------------------------------------------------------------------------
# the oracle (exact rationals, independent of model and of IOEvaluate)

def sdist(zone, s, i):
    return sum((Fr(s[c][i]) - Fr(zone['ref'][j])) * Fr(zone['normal'][j])
               for j, c in enumerate('xyz'))


def zone_of(d, length):
    """(zone id, ambiguous?) as the property statement reads: beyond the
    interface (d <= eps) is fluid side, within the zone length is inside,
    further is the far side.  Within BAND of a cut the decision is left to
    the implementation's tolerance."""
    e = Fr(EPS)
    amb = abs(d - e) < BAND or abs(d - length - e) < BAND
    if d > e and d - length < e:
        return 1, amb
    if d - length > e:
        return 2, amb
    return 0, amb


def rec(s, i, props=PPROPS):
    return tuple(s[f][i] for f in props)


def close(a, b, tol):
    return abs(Fr(a) - Fr(b)) <= tol


class Oracle:
    def __init__(self, case, w, R):
        self.case = case
        self.R = R
        self.n0 = w.pa['fluid'].get_number_of_particles()
        self.entered = 0
        self.left = 0
        self.fl_labels = Counter(w.snap('fluid')['lbl'])
        self.fails = 0
        self.tol = Fr(0) if case['dyadic'] else Fr(1, 10 ** 12)
        self.blind = False      # an undetermined update broke the account

    def fail(self, key, k, demand, observed):
        self.fails += 1
        self.R.prop_fail(key, dict(self.case, fail_at_op=k), demand, observed)

    def unchanged(self, k, name, pre, post, key):
        if pre[name] is None:
            return
        if any(pre[name][f] != post[name][f] for f in PPROPS):
            self.fail(key, k, '%s array untouched by this update' % name,
                      {'pre': pre[name], 'post': post[name]})

    def inlet(self, k, pre, post, active, raised):
        """returns the crossing index list (None when not determined)"""
        case = self.case
        zin = case['zin']
        L = Fr(zin['length'])
        s = pre['inlet']
        cross = []
        amb = False
        for i in range(s['nreal']):
            zid, a = zone_of(sdist(zin, s, i), L)
            amb = amb or a
            if zid == 0:
                cross.append(i)
        if amb:
            self.R.count('oracle-skip:ambiguous')
            self.blind = True
            return None
        if not active:
            cross = []
        g = pre['ghost_inlet']
        if raised:
            if g is not None and any(i >= g['nreal'] for i in cross):
                self.R.count('oracle-skip:ghost-misaligned')
            else:
                self.fail('C16:inlet-update-raises', k,
                          'update returns normally', raised)
            return None
        fam = 'C16:inlet:' + ('hybrid' if case['family'] == 'hybrid' else 'base')
        # (a) every crossing particle appears exactly once in the fluid, its
        # properties copied; nothing else appears or disappears
        want = Counter(rec(pre['fluid'], i)
                       for i in range(len(pre['fluid']['x'])))
        want.update(rec(s, i) for i in cross)
        got = Counter(rec(post['fluid'], i)
                      for i in range(len(post['fluid']['x'])))
        if want != got:
            extra = list((got - want).elements())
            missing = list((want - got).elements())
            key = fam + (':fluid-gains-or-loses' if len(extra) != len(missing)
                         else ':fluid-copy-differs')
            self.fail(key, k, 'fluid = fluid before + one copy of each of the '
                      '%d crossing inlet particles %r' % (len(cross), cross),
                      {'unexpected': extra[:6], 'missing': missing[:6]})
        # (b) the originals are recycled one zone length upstream, the others
        # stay; the inlet neither gains nor loses particles
        p = post['inlet']
        if len(p['x']) != len(s['x']):
            self.fail(fam + ':inlet-count', k, 'inlet keeps its %d particles'
                      % len(s['x']), len(p['x']))
        else:
            for i in range(len(s['x'])):
                sh = L if i in cross else Fr(0)
                ok = all(close(p[c][i], Fr(s[c][i]) + sh * Fr(zin['normal'][j]),
                               self.tol) for j, c in enumerate('xyz'))
                ok = ok and all(p[f][i] == s[f][i]
                                for f in ('u', 'tag', 'lbl', 'pay'))
                if not ok:
                    self.fail(fam + (':recycle' if i in cross else
                                     ':inlet-other-changed'), k,
                              'inlet particle %d %s' % (
                                  i, 'moved by +length*normal' if i in cross
                                  else 'unchanged'),
                              {'pre': rec(s, i), 'post': rec(p, i)})
                    break
        if g is not None:
            q = post['ghost_inlet']
            if len(q['x']) != len(g['x']):
                self.fail(fam + ':ghost-count', k, 'ghost count kept',
                          len(q['x']))
            else:
                for i in range(len(g['x'])):
                    sh = L if i in cross else Fr(0)
                    ok = all(close(q[c][i], Fr(g[c][i]) -
                                   sh * Fr(zin['normal'][j]), self.tol)
                             for j, c in enumerate('xyz'))
                    if not ok:
                        self.fail(fam + ':ghost-recycle', k,
                                  'ghost %d moved by -length*normal iff its '
                                  'inlet particle was recycled' % i,
                                  {'pre': rec(g, i), 'post': rec(q, i)})
                        break
        self.unchanged(k, 'outlet', pre, post, fam + ':touches-outlet')
        self.unchanged(k, 'ghost_outlet', pre, post, fam + ':touches-outlet')
        self.entered += len(cross)
        self.fl_labels.update(s['lbl'][i] for i in cross)
        self.account(k, post)
        return cross

    def outlet(self, k, pre, post, active, raised):
        case = self.case
        zo = case['zout']
        L = Fr(zo['length'])
        f = pre['fluid']
        o = pre['outlet']
        amb = False
        moved, far = [], []
        for i in range(f['nreal']):
            zid, a = zone_of(sdist(zo, f, i), Fr(BIG))
            amb = amb or a
            if zid == 1:
                moved.append(i)
            elif zid == 2:
                amb = True      # beyond IOEvaluate's default maxdist
        for i in range(o['nreal']):
            zid, a = zone_of(sdist(zo, o, i), L)
            amb = amb or a
            if zid == 2:
                far.append(i)
        if amb:
            self.R.count('oracle-skip:ambiguous')
            self.blind = True
            return
        if not active:
            moved, far = [], []
        mirror = case['family'] == 'mirror'
        fam = 'C16:outlet:' + ('mirror' if mirror else 'base')
        props = self.props_set
        g = pre['ghost_outlet']
        if raised:
            if g is not None and moved and not {'x', 'y', 'z', 'u'} <= props:
                self.R.count('oracle-skip:mirror-needs-xyzu')
            elif g is not None and len(g['x']) != len(o['x']):
                self.R.count('oracle-skip:ghost-misaligned')
            else:
                self.fail('C16:outlet-update-raises', k,
                          'update returns normally', raised)
            return
        # (a) the crossing fluid particles leave the fluid, nothing else does
        want = Counter(rec(f, i) for i in range(len(f['x']))
                       if i not in moved)
        got = Counter(rec(post['fluid'], i)
                      for i in range(len(post['fluid']['x'])))
        if want != got:
            self.fail(fam + ':fluid-after-outlet', k,
                      'fluid = fluid before minus the %d particles beyond the '
                      'outlet plane %r' % (len(moved), moved),
                      {'unexpected': list((got - want).elements())[:6],
                       'missing': list((want - got).elements())[:6]})
        # (b) outlet = survivors + exactly one copy of each moved particle
        surv = Counter(rec(o, i) for i in range(len(o['x'])) if i not in far)
        got = Counter(rec(post['outlet'], i)
                      for i in range(len(post['outlet']['x'])))
        lost = surv - got
        rest = got - surv
        cp = [p for p in PPROPS if p in props]
        want_new = Counter(rec(f, i, cp) for i in moved)
        got_new = Counter(tuple(r[PPROPS.index(p)] for p in cp)
                          for r in rest.elements())
        if lost:
            self.fail(fam + ':outlet-loses', k,
                      'outlet particles inside the zone stay',
                      list(lost.elements())[:6])
        elif want_new != got_new:
            key = fam + (':outlet-far-not-deleted'
                         if sum(rest.values()) > len(moved) and far
                         else ':outlet-gain-differs')
            self.fail(key, k,
                      'outlet gains exactly one copy (props %r) of each moved '
                      'particle, loses those beyond its far end %r' % (cp, far),
                      {'unexpected': list((got_new - want_new).elements())[:6],
                       'missing': list((want_new - got_new).elements())[:6]})
        if g is not None:
            q = post['ghost_outlet']
            if len(q['x']) != len(post['outlet']['x']):
                self.fail(fam + ':ghost-count', k,
                          'ghost array stays index-aligned with the outlet '
                          '(%d)' % len(post['outlet']['x']), len(q['x']))
            elif 'lbl' in props and q['lbl'] != post['outlet']['lbl'] and \
                    g['lbl'] == o['lbl']:
                self.fail(fam + ':ghost-aligned', k,
                          'ghost i is the image of outlet particle i',
                          {'outlet': post['outlet']['lbl'], 'ghost': q['lbl']})
        self.unchanged(k, 'inlet', pre, post, fam + ':touches-inlet')
        self.unchanged(k, 'ghost_inlet', pre, post, fam + ':touches-inlet')
        self.left += len(moved)
        self.fl_labels.subtract(f['lbl'][i] for i in moved)
        self.fl_labels = +self.fl_labels
        self.account(k, post)

    def account(self, k, post):
        if self.blind:
            return
        n = len(post['fluid']['x'])
        if n != self.n0 + self.entered - self.left:
            self.fail('C16:count', k, 'fluid count = %d + %d - %d' % (
                self.n0, self.entered, self.left), n)
        elif Counter(post['fluid']['lbl']) != self.fl_labels:
            self.fail('C16:history-labels', k,
                      'fluid holds exactly the initial + entered - left labels',
                      {'got': sorted(post['fluid']['lbl'])[:40],
                       'want': sorted(self.fl_labels.elements())[:40]})
        elif max(Counter(post['fluid']['lbl']).values() or [1]) > 1:
            self.fail('C16:duplicate', k, 'no particle is duplicated',
                      sorted(post['fluid']['lbl'])[:40])


# --------------------------------------------------------------------------
# one case: real history, model lines, comparison

def run_case(case, R, want_oracle=True):
    """returns (model lines, expected answers) for the modes of this case"""
    w = World(case)
    orc = Oracle(case, w, R)
    props = w.props
    allp = set(FIELDS) | set(OTHER)
    orc.props_set = allp if props is None else set(props)
    modes = ['f', 'q'] if case['dyadic'] else ['f']
    steps = []        # (kind, payload) ; turned into lines per mode below
    s0 = w.snap_all()
    steps.append(('init', s0, {
        'dF': default_particle(w.pa['fluid']),
        'dO': default_particle(w.pa['outlet']),
        'dG': default_particle(w.pa['ghost_outlet'])
        if w.pa['ghost_outlet'] is not None else None}))
    nup = 0
    for k, op in enumerate(case['ops']):
        if op['op'] == 'move':
            w.move(op)
            steps.append(('set', w.snap_all(), None))
            continue
        pre = w.snap_all()
        active = op['stage'] in case['active']
        raised = None
        try:
            w.update(op['op'], op['stage'])
        except Exception as e:      # noqa
            raised = '%s: %s' % (type(e).__name__, e)
        post = w.snap_all()
        kind = (w.ikind if op['op'] == 'inlet' else w.okind)
        steps.append(('update', (kind, active, raised, post), k))
        nup += 1
        R.count('update:%s:%s' % (kind, 'active' if active else 'inactive'))
        if op['op'] == 'inlet':
            cross = orc.inlet(k, pre, post, active, raised) \
                if want_oracle else None
            if raised:
                R.count('raises')
                break
            if cross:
                R.count('crossing-events', len(cross))
                if len(cross) > 1:
                    R.count('several-cross-in-one-update')
                w.relabel_inlet(cross)
                steps.append(('set', w.snap_all(), None))
            elif cross is None and want_oracle:
                # undetermined: keep labels as they are
                pass
        else:
            if want_oracle:
                before = orc.left
                orc.outlet(k, pre, post, active, raised)
                if orc.left - before > 0:
                    R.count('outlet-move-events', orc.left - before)
            if raised:
                R.count('raises')
                break
            nd = len(pre['outlet']['x']) + (len(pre['fluid']['x']) -
                                            len(post['fluid']['x'])) - \
                len(post['outlet']['x'])
            if nd > 0:
                R.count('outlet-delete-events', nd)
    lines, expect = [], []
    for mode in modes:
        for kind, a, b in steps:
            if kind in ('init', 'set'):
                if kind == 'init':
                    lines.append('%s new' % mode)
                    expect.append(None)
                    lines.append(zone_line(mode, 'in', case['zin']))
                    expect.append(None)
                    lines.append(zone_line(mode, 'out', case['zout']))
                    expect.append(None)
                    for nm, key in (('fluid', 'dF'), ('outlet', 'dO'),
                                    ('ghost_outlet', 'dG')):
                        if b[key] is not None:
                            lines.append('%s dflt which=%s %s' % (
                                mode, nm, one_tokens(mode, b[key])))
                            expect.append(None)
                    if props is None:
                        ms = 'none'
                    else:
                        ms = ','.join(p for p in FIELDS if p in props) or '_'
                    lines.append('%s mask props=%s' % (mode, ms))
                    expect.append(None)
                for nm in ARRAYS:
                    if a[nm] is None:
                        if kind == 'init' and nm.startswith('ghost'):
                            lines.append('%s noarr name=%s' % (mode, nm))
                            expect.append(None)
                    else:
                        lines.append(set_arr_line(mode, nm, a[nm]))
                        expect.append(None)
                lines.append('%s uref in=%s fluid=%s' % (
                    mode, num(mode, a['uref'][0]), num(mode, a['uref'][1])))
                # the model now holds the complete real state again
                expect.append('SYNC')
            else:
                ukind, active, raised, post = a
                ln = '%s %s active=%d' % (mode, ukind, 1 if active else 0)
                if ukind == 'hybrid':
                    ln += ' half=%s' % num(mode, 0.5)
                lines.append(ln)
                expect.append(('raise' if raised else dump_line(mode, post),
                               b, mode))
    return lines, expect, dict(updates=nup, entered=orc.entered, left=orc.left,
                               fails=orc.fails)


NOTE_SET = ('set', )


def compare(case, lines, expect, out, R):
    """diff model answers against the real states; stop at the first
    difference of a mode (the rest of that history is no longer comparable)"""
    dead = set()
    nd = 0
    for ln, ex, got in zip(lines, expect, out):
        mode = ln[0]
        if ex is None or ex == 'SYNC':
            if got != 'ok':
                raise SystemExit('driver rejected %r: %r' % (ln[:200], got))
            if ex == 'SYNC':
                dead.discard(mode)
            continue
        if mode in dead:
            continue
        want, k, _ = ex
        if got == want:
            R.d['traces_validated_against_impl'] += 1
            continue
        dead.add(mode)
        pm, pi = parse_dump(got), parse_dump(want)
        where = 'op %d (%s) mode %s' % (k, ln[2:], mode)
        if isinstance(pm, str) or isinstance(pi, str):
            R.disagree({'case': case, 'op': k}, got[:300], want[:300], where)
            nd += 1
            continue
        diffs = []
        order_only = True
        for a in ARRAYS + ['uref']:
            if pm.get(a) == pi.get(a):
                continue
            if a in ('fluid', 'outlet') and pm.get(a) is not None and \
                    pi.get(a) is not None and \
                    Counter(pm[a]) == Counter(pi[a]) and \
                    pm.get('ghost_outlet') is None:
                diffs.append(a + ':order')
                continue
            order_only = False
            diffs.append(a)
        if order_only:
            R.note('slot order differs (incidental) at %s: %s' % (where, diffs))
            R.count('L2-order-difference')
        else:
            nd += 1
            R.disagree({'case': case, 'op': k},
                       {a: pm.get(a.split(':')[0]) for a in diffs},
                       {a: pi.get(a.split(':')[0]) for a in diffs},
                       where + ' arrays ' + ','.join(diffs))
    return nd


_POOL = [None]


def _worker(arg):
    case, want_oracle = arg
    R = H.Result('')
    lines, expect, info = run_case(case, R, want_oracle)
    return (lines, expect, info, R.d['distribution'],
            R.d['property_failures'])


def pool():
    """worker processes for the real-code side (creating an SPHEvaluator
    costs ~0.5 s per update object even when the extension is cached).  The
    two generated extension modules are compiled once, here, before forking."""
    if _POOL[0] is None:
        import multiprocessing as mp
        # spawn, not fork: the extension modules may have started OpenMP
        # threads in this process, which a forked child would wait on forever
        _POOL[0] = mp.get_context('spawn').Pool(min(12, (mp.cpu_count() or 2)))
        warm = [c for c in corpus() if c.get('family') == 'base'][-2]
        _POOL[0].apply(_worker, ((warm, False),))
    return _POOL[0]


def check_cases(cases, R, sample_from=0, want_oracle=True):
    all_lines, metas = [], []
    if len(cases) > 2:
        res = pool().map(_worker, [(c, want_oracle) for c in cases],
                         chunksize=1)
    else:
        res = [_worker((c, want_oracle)) for c in cases]
    for c, (lines, expect, info, dist, fails) in zip(cases, res):
        for k, v in dist.items():
            R.count(k, v)
        for f in fails:
            R.prop_fail(f['key'], f['case'], f['demand'], f['observed'])
        metas.append((c, len(all_lines), len(lines), expect, info))
        all_lines += lines
    out = H.run_model('C16', all_lines)
    if len(out) != len(all_lines):
        raise SystemExit('model driver answered %d lines for %d'
                         % (len(out), len(all_lines)))
    for j, (c, a, n, expect, info) in enumerate(metas):
        nd = compare(c, all_lines[a:a + n], expect, out[a:a + n], R)
        R.count('family:' + c['family'])
        R.count('geo:%s' % c['geo'])
        R.count('dim:%d' % c['dim'])
        if c['ghost_in']:
            R.count('ghost-inlet')
        if c['ghost_out']:
            R.count('ghost-outlet')
        nontrivial = info['entered'] > 0 and info['left'] > 0
        small = dict((k, c[k]) for k in ('family', 'dim', 'geo', 'zin', 'zout',
                                         'props', 'active'))
        R.case(json.dumps(c, sort_keys=True), nontrivial,
               dict(small, info=info, nops=len(c['ops']), disagreements=nd)
               if j + sample_from < 4 else None)


# --------------------------------------------------------------------------
# corpus of hand-made cases (each aimed at one clause of the statement)

def corpus():
    out = []
    rng = random.Random(16)
    for fam in FAMILIES:
        for style in ('steady', 'overshoot', 'back-forth'):
            c = gen_case(rng, fam=fam, force={'style': style})
            out.append(c)
    # 1-D, three inlet particles crossing together, then again (test file's
    # geometry but a history instead of one call)
    base = dict(family='base', dim=1, geo='axis', dyadic=True,
                e=[1.0, 0.0, 0.0], ts=[],
                zin=dict(ref=[0.0, 0.0, 0.0], normal=[-1.0, 0.0, 0.0],
                         length=0.5),
                zout=dict(ref=[1.0, 0.0, 0.0], normal=[1.0, 0.0, 0.0],
                          length=0.5),
                ghost_in=True, ghost_out=False, props=None,
                dflt={a: dict(u=0.0, lbl=0, pay=0, disp=0.0, ioid=0.0)
                      for a in ('fluid', 'outlet', 'ghost_outlet')},
                active=[1], uref=[1.0, 0.5], misalign_ghost=False)

    def P(x, lbl, tag=0):
        return dict(x=x, y=0.0, z=0.0, u=1.0, tag=tag, lbl=lbl, pay=lbl % 7)
    mv = lambda seed, style: dict(op='move', seed=seed, style=style)  # noqa
    up = lambda w: dict(op=w, stage=1)  # noqa
    hist = [mv(1, 'jumpy'), up('inlet'), up('inlet'), up('outlet'),
            mv(2, 'jumpy'), up('outlet'), up('inlet'), mv(3, 'overshoot'),
            up('inlet'), up('inlet'), up('outlet'), up('outlet'),
            mv(4, 'back-forth'), up('inlet'), up('outlet')]
    c1 = dict(base, inlet=[P(-0.375, 1), P(-0.25, 2), P(-0.125, 3),
                           P(-0.0625, 4)],
              fluid=[P(0.25, 11), P(0.75, 12), P(0.9375, 13)],
              outlet=[P(1.25, 21), P(1.4375, 22)], ops=hist)
    out.append(c1)
    # particle exactly on the planes, and exactly length+eps beyond
    c2 = dict(base, inlet=[P(0.0, 1), P(-0.5, 2), P(-0.5 - EPS, 3)],
              fluid=[P(1.0, 11), P(1.0 + EPS, 12)],
              outlet=[P(1.5, 21), P(1.5 + EPS, 22), P(1.5 + 2 * EPS, 23)],
              ops=[up('inlet'), up('outlet'), up('inlet'), up('outlet')],
              dyadic=False)
    out.append(c2)
    # non-Local particles are not moved by the bookkeeping
    c3 = dict(base, family='mirror', ghost_out=True,
              inlet=[P(-0.25, 1), P(0.125, 2), P(0.25, 3, tag=2)],
              fluid=[P(0.5, 11), P(1.25, 12), P(1.125, 13, tag=2),
                     P(1.0625, 14, tag=1)],
              outlet=[P(1.25, 21), P(1.75, 22), P(1.875, 23, tag=2)],
              ops=[up('inlet'), up('outlet'), mv(5, 'steady'), up('outlet'),
                   up('inlet'), mv(6, 'jumpy'), up('outlet'), up('outlet')])
    out.append(c3)
    return out


def main():
    a = H.args()
    R = H.Result(
        'cases = histories of 4-80 operations (move by a random dyadic '
        'displacement field / Inlet.update / Outlet.update at stage 1 or 2) '
        'on real inlet, fluid, outlet (+ghost) arrays, 1-3 D, axis-aligned, '
        'reversed and (3/5,4/5) normals, six update classes, props_to_copy '
        'None / all / the examples\' list / random; distinct = distinct case '
        'JSON; non-trivial = at least one particle entered the fluid AND at '
        'least one left it during the history')
    if a.replay:
        rp = json.load(open(a.replay))
        case = rp['case']
        case.pop('fail_at_op', None)
        check_cases([case], R)
        for f in R.d['property_failures'][:3]:
            print(json.dumps({k: f[k] for k in ('key', 'demand', 'observed')},
                             indent=1, default=str)[:3000])
            print('failing operation index:', f['case'].get('fail_at_op'))
        for d in R.d['disagreements'][:2]:
            print('model/implementation disagree at', d['where'])
        sys.exit(1 if R.d['property_failures'] else 0)
    rng = random.Random(a.seed * 7919 + 16)
    n = 70 if a.tier == 'quick' else 1200
    cp = corpus()
    check_cases(cp, R, 99)
    R.count('corpus', len(cp))
    cases = []
    for i in range(n):
        cases.append(gen_case(rng, big=(a.tier != 'quick'),
                              fam=FAMILIES[i % len(FAMILIES)]))
    check_cases(cases, R, 0)
    if a.broken or R.d['disagreements']:
        rng2 = random.Random(a.seed + 12345)
        before = len(R.d['property_failures'])
        extra = [gen_case(rng2, big=True, fam=FAMILIES[i % len(FAMILIES)])
                 for i in range(60)]
        check_cases(extra, R, 99)
        R.d['search'] = {'extra_cases': len(extra),
                         'found': len(R.d['property_failures']) - before}
    R.write(a.out)


if __name__ == '__main__':
    main()
