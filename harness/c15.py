"""C15 translator validation (tie) + property oracle: Riemann solvers.

impl  : pysph.sph.gas_dynamics.riemann_solver (scratch build of /repo), the
        pure-Python functions of its HELPERS list, called directly.
model : lean PysphVerif.Gen.Riemann (regenerated from the same source by
        translate/riemann2lean.py) executed at Float by the driver; compared
        BIT FOR BIT (return code, result[0], result[1]) — the two libm `pow`
        calls are the same function here, so `exact` is compared exactly too.
oracle: the property's own predicates evaluated on the implementation alone
        (reflection, equal states, Galilean shift, scaling, positivity,
        pressure-function residual, vacuum report), with the rounding
        tolerances stated at each predicate.

`riemann_solver.printf` takes one argument but is called with two (it is C's
printf after transpilation); under CPython the two failure paths of `exact`
and `hllc` therefore raise TypeError instead of returning 1.  The harness
replaces `printf` by a variadic no-op (a module global, not the solvers) and
records the fact as a note.
"""
import inspect
import json
import math
import random
import struct
import sys
import warnings

import hcommon as H

H.assert_scratch_import()
warnings.simplefilter('ignore')
import pysph.sph.gas_dynamics.riemann_solver as rs  # noqa: E402

SOLVER_PARAMS = ['rhol', 'rhor', 'pl', 'pr', 'ul', 'ur', 'gamma', 'niter',
                 'tol', 'result']
ITERATIVE = ('exact', 'van_leer')
# solvers with a reflect_ theorem in Props/C15.lean ...
PROVED = ('non_diffusive', 'van_leer', 'hlle', 'roe', 'llxf', 'hllc_ball',
          'hll_ball', 'hllsy', 'hllc', 'exact')
# ... and the one whose reflection symmetry is proved there only under an
# explicit hypothesis on the data (reflect_ducowicz_partial; the full statement
# is the def ReflectSymDucowicz) and is judged by the oracle below
STATED_ONLY = ('ducowicz',)
DISPATCH = ['non_diffusive', 'van_leer', 'exact', 'hllc', 'ducowicz', 'hlle',
            'roe', 'llxf', 'hllc_ball', 'hll_ball', 'hllsy']   # documented method numbers

_printf_note = None


def _patch_printf():
    global _printf_note
    try:
        rs.printf(b"%s", b"x")
        _printf_note = 'printf accepts two arguments'
    except TypeError:
        _printf_note = ('riemann_solver.printf(s) is called as printf(b"%s", msg): under CPython the '
                        'failure paths of exact/hllc raise TypeError instead of returning 1; harness '
                        'substitutes a variadic no-op')
    rs.printf = lambda *a: None


def impl_solvers():
    out = []
    for f in rs.HELPERS:
        try:
            ps = list(inspect.signature(f).parameters)
        except (TypeError, ValueError):
            continue
        if ps == SOLVER_PARAMS:
            out.append(f.__name__)
    return out


def call(name, st, r0=0.0, r1=0.0):
    """('ok', code, p, u) | ('raise', ExcName)"""
    r = [r0, r1]
    try:
        c = getattr(rs, name)(st['rhol'], st['rhor'], st['pl'], st['pr'],
                              st['ul'], st['ur'], st['gamma'], st['niter'],
                              st['tol'], r)
    except (ZeroDivisionError, ValueError, OverflowError, TypeError) as e:
        return ('raise', type(e).__name__)
    try:
        return ('ok', -1 if c is None else int(c), float(r[0]), float(r[1]))
    except TypeError:
        return ('raise', 'ComplexResult')


# ---------------------------------------------------------------- generators

GAMMAS = [1.4, 5.0 / 3.0, 1.1, 2.0, 3.0]


def gen_state(rng, profile):
    dec = {'moderate': 3, 'wide': 6, 'extreme': 12}[profile]
    style = rng.choice(['free', 'free', 'free', 'same-rho', 'same-p', 'sod',
                        'strong', 'equal'])
    rhol = 10 ** rng.uniform(-dec, dec)
    rhor = 10 ** rng.uniform(-dec, dec)
    pl = 10 ** rng.uniform(-dec, dec)
    pr = 10 ** rng.uniform(-dec, dec)
    if style == 'same-rho':
        rhor = rhol
    elif style == 'same-p':
        pr = pl
    elif style == 'sod':
        rhol, rhor, pl, pr = 1.0, 0.125, 1.0, 0.1
        if rng.random() < 0.5:
            rhol, rhor, pl, pr = rhor, rhol, pr, pl
    elif style == 'strong':
        pr = pl * 10 ** rng.uniform(-dec, -1)
    elif style == 'equal':
        rhor, pr = rhol, pl
    g = rng.choice(GAMMAS + [rng.uniform(1.0001, 3.0)])
    cs = max(math.sqrt(g * pl / rhol), math.sqrt(g * pr / rhor))
    mach = rng.choice([0.0, 0.01, 0.3, 1.0, 3.0])
    ul = rng.uniform(-1, 1) * cs * mach
    ur = rng.uniform(-1, 1) * cs * mach
    if style == 'equal':
        ur = ul
    return dict(rhol=rhol, rhor=rhor, pl=pl, pr=pr, ul=ul, ur=ur, gamma=g,
                niter=rng.choice([2, 3, 5, 10, 20, 40, 40]),
                tol=rng.choice([1e-10, 1e-10, 1e-6, 1e-3]), style=style,
                profile=profile)


def mirror(st):
    m = dict(st)
    m.update(rhol=st['rhor'], rhor=st['rhol'], pl=st['pr'], pr=st['pl'],
             ul=-st['ur'], ur=-st['ul'])
    return m


def scales(st, *res):
    cl = math.sqrt(st['gamma'] * st['pl'] / st['rhol'])
    cr = math.sqrt(st['gamma'] * st['pr'] / st['rhor'])
    U = max([abs(st['ul']), abs(st['ur']), cl, cr] + [abs(r[3]) for r in res])
    # pressure scale: static pressures and the momentum flux rho u^2 (several
    # solvers form p* from differences of momentum / energy fluxes)
    P = max([st['pl'], st['pr'], max(st['rhol'], st['rhor']) * U * U]
            + [abs(r[2]) for r in res])
    return P, U


def finite(*xs):
    return all(math.isfinite(x) for x in xs)


# ------------------------------------------------- the property's predicates
# each returns None (holds / not applicable) or (key, demand, observed)

def rtol_for(name, st):
    """Rounding allowance.  Non-iterative solvers: 1e-7 relative to the
    pressure / velocity scale of the problem on data spanning 6 decades
    (the worst observed on the clean tree is 3e-10).  Iterative solvers are
    only accurate to their own tolerance, which is added."""
    return 1e-7 + (st['tol'] if name in ITERATIVE else 0.0)


def reflect_key(name, st):
    """class of failing input for a reflection failure.  `ducowicz` has its own
    class on the measure-zero set umin == umax (the two sign tests of cases C and
    D both passed there before the fix proposed_fixes/C15-ducowicz-case-c-guard.diff)"""
    if name == 'ducowicz':
        al = 0.5 * (st['gamma'] + 1.0)
        umin = st['ur'] - 0.5 * math.sqrt(st['gamma'] * st['pr'] * st['rhor']) / al
        umax = st['ul'] + 0.5 * math.sqrt(st['gamma'] * st['pl'] * st['rhol']) / al
        if umin == umax:
            return 'C15:reflect:ducowicz-umin-eq-umax'
    return 'C15:reflect:%s' % name


def chk_reflect(name, st):
    a, b = call(name, st), call(name, mirror(st))
    if a[0] != 'ok' or b[0] != 'ok':
        if name not in ITERATIVE:
            return ('C15:raises:%s' % name, 'a star state for admissible data',
                    'orig=%s mirror=%s' % (a, b))
        return None
    if a[1] != b[1]:
        if name in ITERATIVE:
            return 'code-asym'       # convergence boundary crossed by rounding: logged
        return ('C15:reflect:%s' % name, 'same return code for mirrored data',
                'orig=%s mirror=%s' % (a, b))
    if a[1] != 0:
        return None
    if not finite(a[2], a[3], b[2], b[3]):
        if name in ITERATIVE:
            return None              # judged by chk_success
        return ('C15:reflect:%s' % name, 'finite star state', 'orig=%s mirror=%s' % (a, b))
    P, U = scales(st, a, b)
    t = rtol_for(name, st)
    ep, eu = abs(a[2] - b[2]) / P, abs(a[3] + b[3]) / U
    if ep > t or eu > t:
        return (reflect_key(name, st),
                'p*(mirror)=p* and u*(mirror)=-u* within %.1e of the problem scales' % t,
                'orig=(%r,%r) mirror=(%r,%r) rel.dev p %.3e u %.3e' % (a[2], a[3], b[2], b[3], ep, eu))
    return None


def chk_equal(name, st):
    e = dict(st)
    # keep the Mach number of the common state at the generator's (<= 3): the
    # velocities were drawn relative to the larger of the two sound speeds
    cl = math.sqrt(st['gamma'] * st['pl'] / st['rhol'])
    cr = math.sqrt(st['gamma'] * st['pr'] / st['rhor'])
    u = st['ul'] * cl / max(cl, cr)
    e.update(rhor=st['rhol'], pr=st['pl'], ul=u, ur=u)
    a = call(name, e)
    dem = 'code 0, p*=p, u*=u for equal left/right states'
    if a[0] != 'ok':
        return ('C15:equal-states:%s' % name, dem, str(a))
    if a[1] != 0 or not finite(a[2], a[3]):
        return ('C15:equal-states:%s' % name, dem, str(a))
    P, U = scales(e, a)
    if abs(a[2] - e['pl']) / P > 1e-9 or abs(a[3] - e['ul']) / U > 1e-9:
        return ('C15:equal-states:%s' % name, dem + ' (1e-9 relative)',
                'p=%r u=%r returned p*=%r u*=%r' % (e['pl'], e['ul'], a[2], a[3]))
    return None


def chk_galilean(name, st, shift):
    s = dict(st)
    s.update(ul=st['ul'] + shift, ur=st['ur'] + shift)
    a, b = call(name, st), call(name, s)
    if a[0] != 'ok' or b[0] != 'ok' or a[1] != 0 or b[1] != 0:
        return None
    if not finite(a[2], a[3], b[2], b[3]):
        return None
    P, U = scales(s, a, b)
    t = rtol_for(name, st)
    ep, eu = abs(a[2] - b[2]) / P, abs(a[3] + shift - b[3]) / U
    if ep > t or eu > t:
        return ('C15:galilean:%s' % name,
                'adding %r to both velocities leaves p* and shifts u* (within %.1e)' % (shift, t),
                'orig=(%r,%r) shifted=(%r,%r)' % (a[2], a[3], b[2], b[3]))
    return None


def chk_scaling(name, st, lam):
    s = dict(st)
    s.update(rhol=st['rhol'] * lam, rhor=st['rhor'] * lam, pl=st['pl'] * lam,
             pr=st['pr'] * lam)
    a, b = call(name, st), call(name, s)
    if a[0] != 'ok' or b[0] != 'ok' or a[1] != 0 or b[1] != 0:
        return None
    if not finite(a[2], a[3], b[2], b[3]):
        return None
    if min(a[2], b[2]) <= 1e-24:        # van_leer's smallp floor does not scale
        return None
    _, U = scales(st, a, b)
    t = rtol_for(name, st)
    ep = abs(a[2] * lam - b[2]) / max(abs(b[2]), s['pl'], s['pr'])
    eu = abs(a[3] - b[3]) / U
    if ep > t or eu > t:
        return ('C15:scaling:%s' % name,
                'scaling p and rho by %r scales p* and keeps u* (within %.1e)' % (lam, t),
                'orig=(%r,%r) scaled=(%r,%r)' % (a[2], a[3], b[2], b[3]))
    return None


def chk_success(name, st):
    a = call(name, st)
    if a[0] != 'ok' or a[1] != 0:
        return None
    if not (finite(a[2], a[3]) and a[2] > 0):
        return ('C15:success-positive-finite:%s' % name,
                'reported success implies finite positive p* and finite u*',
                'code 0 with p*=%r u*=%r' % (a[2], a[3]))
    return None


def pressure_function(p, rho, pk, g):
    """Toro's f_K(p) and derivative, written independently of the code"""
    ck = math.sqrt(g * pk / rho)
    if p <= pk:
        f = 2 * ck / (g - 1) * ((p / pk) ** ((g - 1) / (2 * g)) - 1)
        fd = (p / pk) ** (-(g + 1) / (2 * g)) / (rho * ck)
    else:
        A = 2 / ((g + 1) * rho)
        B = (g - 1) / (g + 1) * pk
        f = (p - pk) * math.sqrt(A / (B + p))
        fd = math.sqrt(A / (B + p)) * (1 - (p - pk) / (2 * (B + p)))
    return f, fd


def chk_pressure_function(st):
    a = call('exact', st)
    if a[0] != 'ok' or a[1] != 0 or not finite(a[2], a[3]) or a[2] <= 0:
        return None
    g = st['gamma']
    fl, fdl = pressure_function(a[2], st['rhol'], st['pl'], g)
    fr, fdr = pressure_function(a[2], st['rhor'], st['pr'], g)
    F = fl + fr + (st['ur'] - st['ul'])
    cl = math.sqrt(g * st['pl'] / st['rhol'])
    cr = math.sqrt(g * st['pr'] / st['rhor'])
    bound = 2 * st['tol'] * a[2] * (fdl + fdr) + 1e-9 * (cl + cr + abs(st['ur'] - st['ul']))
    um = 0.5 * (st['ul'] + st['ur'] + fr - fl)
    if abs(F) > bound or abs(um - a[3]) > 1e-9 * (cl + cr + abs(a[3])) + bound:
        return ('C15:exact-pressure-function',
                '|f_L(p*)+f_R(p*)+du| <= 2 tol p* f\'(p*) + rounding, u* the contact speed',
                'p*=%r u*=%r residual=%r bound=%r contact=%r' % (a[2], a[3], F, bound, um))
    return None


def chk_vacuum(st):
    g = st['gamma']
    cl = math.sqrt(g * st['pl'] / st['rhol'])
    cr = math.sqrt(g * st['pr'] / st['rhor'])
    crit = 2.0 / (g - 1.0) * (cl + cr)
    du = st['ur'] - st['ul']
    if du < crit * (1 + 1e-9):
        return None
    a = call('exact', st)
    if a[0] == 'ok' and a[1] == 0:
        return ('C15:exact-vacuum-not-reported',
                'failure reported when ur-ul >= 2/(gamma-1) (cl+cr) (vacuum)',
                'du=%r critical=%r returned %s' % (du, crit, a))
    return None


def eval_check(c):
    k = c['check']
    if k == 'reflect':
        return chk_reflect(c['solver'], c['state'])
    if k == 'equal':
        return chk_equal(c['solver'], c['state'])
    if k == 'galilean':
        return chk_galilean(c['solver'], c['state'], c['shift'])
    if k == 'scaling':
        return chk_scaling(c['solver'], c['state'], c['lam'])
    if k == 'success':
        return chk_success(c['solver'], c['state'])
    if k == 'pressure-function':
        return chk_pressure_function(c['state'])
    if k == 'vacuum':
        return chk_vacuum(c['state'])
    raise SystemExit('unknown check kind %r' % k)


# -------------------------------------------------------------------- oracle

def run_oracle(R, rng, names, n_states, label):
    fails = 0

    def do(case):
        nonlocal fails
        r = eval_check(case)
        R.count('%s:%s' % (label, case['check']))
        if r == 'code-asym':
            R.count('%s:iterative-return-code-differs-under-reflection(logged)' % label)
            return
        if r is not None:
            fails += 1
            R.prop_fail(r[0], case, r[1], r[2])
    for i in range(n_states):
        st = gen_state(rng, 'moderate')
        for n in names:
            do({'check': 'reflect', 'solver': n, 'state': st})
        if i % 3 == 0:
            for n in names:
                do({'check': 'equal', 'solver': n, 'state': st})
        # iterative contact solvers: wide data, the statement's other clauses
        sw = gen_state(rng, rng.choice(['moderate', 'wide']))
        cs = max(math.sqrt(sw['gamma'] * sw['pl'] / sw['rhol']),
                 math.sqrt(sw['gamma'] * sw['pr'] / sw['rhor']))
        shift = rng.choice([-8, -3, -1, 1, 2, 5]) * 0.25 * 2.0 ** math.floor(math.log2(cs))
        lam = rng.choice([2.0 ** rng.randint(-20, 20), 10 ** rng.uniform(-3, 3)])
        for n in ITERATIVE:
            if n not in names:
                continue
            do({'check': 'galilean', 'solver': n, 'state': sw, 'shift': shift})
            do({'check': 'scaling', 'solver': n, 'state': sw, 'lam': lam})
            do({'check': 'success', 'solver': n, 'state': sw})
            do({'check': 'success', 'solver': n, 'state': gen_state(rng, 'extreme')})
        if 'exact' in names:
            do({'check': 'pressure-function', 'state': sw})
            v = dict(sw)
            crit = 2.0 / (v['gamma'] - 1.0) * (
                math.sqrt(v['gamma'] * v['pl'] / v['rhol']) + math.sqrt(v['gamma'] * v['pr'] / v['rhor']))
            v['ur'] = v['ul'] + crit * rng.choice([1.0 + 1e-6, 1.001, 1.1, 2.0, 10.0])
            do({'check': 'vacuum', 'state': v})
    return fails


# ----------------------------------------------------------------------- tie

def fb(x):
    return H.fbits(x)


def same_bits(impl_f, model_bits):
    if impl_f != impl_f:
        m = H.bits2f(model_bits)
        return m != m
    return fb(impl_f) == model_bits


def run_tie(R, rng, names_impl, n_states):
    model_names = H.run_model('C15', ['names'])[0].split(',')
    if sorted(model_names) != sorted(names_impl):
        R.disagree({'what': 'solver set'}, model_names, names_impl,
                   'functions with the solver signature in HELPERS vs generated model')
    missing = [n for n in names_impl if n not in PROVED + STATED_ONLY]
    if missing:
        R.disagree({'what': 'theorem coverage'}, list(PROVED + STATED_ONLY), names_impl,
                   'solver(s) %s shipped without any statement in Props/C15.lean' % missing)
    lines, metas = [], []
    for i in range(n_states):
        st = gen_state(rng, rng.choice(['moderate', 'wide', 'wide', 'extreme']))
        st['niter'] = rng.choice([0, 1, 2, 3, 5, 10, 20, 40])
        if rng.random() < 0.05:
            k = rng.choice(['rhol', 'rhor', 'pl', 'pr'])
            st[k] = rng.choice([0.0, -st[k]])        # inadmissible: same text must still agree
        r0, r1 = rng.uniform(-2, 2), rng.uniform(-2, 2)
        a = ' '.join(fb(st[k]) for k in ('rhol', 'rhor', 'pl', 'pr', 'ul', 'ur', 'gamma'))
        tail = '%d %s %s %s' % (st['niter'], fb(st['tol']), fb(r0), fb(r1))
        for n in sorted(set(names_impl) | set(model_names)):
            lines.append('S %s %s %s' % (n, a, tail))
            metas.append(('S', n, st, r0, r1))
        m = rng.randint(-2, 13)
        lines.append('D %d %s %s' % (m, a, tail))
        metas.append(('D', m, st, r0, r1))
    for i in range(max(50, n_states // 4)):
        x, y = rng.uniform(-3, 3), rng.choice([0.0, -0.0, rng.uniform(-3, 3)])
        lines.append('SIGN %s %s' % (fb(x), fb(y)))
        metas.append(('SIGN', x, y))
        g = rng.choice(GAMMAS)
        v = [10 ** rng.uniform(-3, 3) for _ in range(4)]      # p dk pk ck
        gs = [(g - 1) / (2 * g), (g + 1) / (2 * g), 2 / (g - 1), 2 / (g + 1), (g - 1) / (g + 1)]
        lines.append('PF ' + ' '.join(fb(t) for t in v + gs + [0.5, -0.5]))
        metas.append(('PF', v, gs))
    out = H.run_model('C15', lines)
    if len(out) != len(lines):
        raise SystemExit('driver answered %d lines for %d requests' % (len(out), len(lines)))
    for meta, line, o in zip(metas, lines, out):
        kind = meta[0]
        if kind in ('S', 'D'):
            _, sel, st, r0, r1 = meta
            if kind == 'S':
                if not hasattr(rs, sel):
                    continue
                res = call(sel, st, r0, r1)
                tag = sel
            else:
                r = [r0, r1]
                try:
                    c = rs.riemann_solve(sel, st['rhol'], st['rhor'], st['pl'], st['pr'], st['ul'],
                                         st['ur'], st['gamma'], st['niter'], st['tol'], r)
                    res = ('ok', -1 if c is None else int(c), float(r[0]), float(r[1]))
                except (ZeroDivisionError, ValueError, OverflowError, TypeError) as e:
                    res = ('raise', type(e).__name__)
                tag = 'dispatch'
            admissible = min(st['rhol'], st['rhor'], st['pl'], st['pr']) > 0
            nontrivial = res[0] == 'ok' and admissible
            R.case((tag, line), nontrivial,
                   {'solver': tag, 'state': st, 'impl': res, 'model': o} if nontrivial else None)
            R.count('tie:%s:%s' % (tag, 'compared' if res[0] == 'ok' else 'impl-raises-' + res[1]))
            if res[0] != 'ok':
                continue          # CPython raises where C arithmetic continues with inf/nan
            R.d['traces_validated_against_impl'] += 1
            t = o.split()
            if len(t) != 3 or int(t[0]) != res[1] or not same_bits(res[2], t[1]) \
                    or not same_bits(res[3], t[2]):
                R.disagree({'line': line, 'state': st, 'solver': tag}, o,
                           '%d %s %s' % (res[1], fb(res[2]), fb(res[3])),
                           'generated model vs python source, bit-exact')
        elif kind == 'SIGN':
            v = rs.SIGN(meta[1], meta[2])
            R.case(('SIGN', line), True)
            R.count('tie:SIGN')
            if fb(v) != o:
                R.disagree({'line': line}, o, fb(v), 'SIGN')
        else:
            v, gs = meta[1], meta[2]
            r = [0.5, -0.5]
            try:
                c = rs.prefun_exact(*(v + gs + [r]))
            except (ZeroDivisionError, ValueError, OverflowError, TypeError):
                continue
            R.case(('PF', line), True)
            R.count('tie:prefun_exact')
            want = '%d %s %s' % (-1 if c is None else int(c), fb(r[0]), fb(r[1]))
            if want != o:
                R.disagree({'line': line}, o, want, 'prefun_exact')
    # the documented method numbering of riemann_solve
    for m, n in enumerate(DISPATCH):
        if n not in names_impl:
            continue
        st = gen_state(rng, 'moderate')
        r1_, r2_ = [0.0, 0.0], [0.0, 0.0]
        try:
            c1 = rs.riemann_solve(m, st['rhol'], st['rhor'], st['pl'], st['pr'], st['ul'], st['ur'],
                                  st['gamma'], st['niter'], st['tol'], r1_)
            c2 = getattr(rs, n)(st['rhol'], st['rhor'], st['pl'], st['pr'], st['ul'], st['ur'],
                                st['gamma'], st['niter'], st['tol'], r2_)
        except (ZeroDivisionError, ValueError, OverflowError, TypeError):
            continue
        if c1 != c2 or [fb(x) for x in r1_] != [fb(x) for x in r2_]:
            R.prop_fail('C15:dispatch:%d' % m, {'check': 'dispatch', 'method': m, 'state': st},
                        'riemann_solve(%d) is %s' % (m, n), '%r %r vs %r %r' % (c1, r1_, c2, r2_))


# ---------------------------------------------------------------------- main

CORPUS = [
    # Sod tube and its mirror image, the two states of the pinned test-suite
    {'check': 'reflect', 'solver': None,
     'state': dict(rhol=1.0, rhor=0.125, pl=1.0, pr=0.1, ul=0.0, ur=0.0, gamma=1.4, niter=20, tol=1e-6)},
    {'check': 'reflect', 'solver': None,
     'state': dict(rhol=1.0, rhor=1.0, pl=1000.0, pr=0.01, ul=0.0, ur=0.0, gamma=1.4, niter=40, tol=1e-6)},
    {'check': 'reflect', 'solver': None,
     'state': dict(rhol=5.99924, rhor=5.99242, pl=460.894, pr=46.095, ul=19.5975, ur=-6.19633,
                   gamma=1.4, niter=40, tol=1e-6)},
    {'check': 'equal', 'solver': None,
     'state': dict(rhol=1.0, rhor=1.0, pl=1.0, pr=1.0, ul=0.75, ur=0.75, gamma=1.4, niter=20, tol=1e-6)},
    # ducowicz on umin == umax (ur - ul = (csl + csr)/(gamma + 1), csl = sqrt(gamma pl rhol)): before
    # proposed_fixes/C15-ducowicz-case-c-guard.diff both the sign test of case C and the untested one of
    # case D passed and the two orientations took non-mirror branches
    {'check': 'reflect', 'solver': 'ducowicz',
     'state': dict(rhol=0.25, rhor=0.5, pl=0.5, pr=0.25, ul=0.0, ur=1.0 / 3.0, gamma=2.0, niter=20, tol=1e-6)},
    {'check': 'reflect', 'solver': 'ducowicz',
     'state': dict(rhol=0.5, rhor=0.25, pl=0.25, pr=0.5, ul=-1.0 / 3.0, ur=-0.0, gamma=2.0, niter=20, tol=1e-6)},
    {'check': 'reflect', 'solver': 'ducowicz',
     'state': dict(rhol=1.0, rhor=4.0, pl=3.0, pr=3.0, ul=0.0, ur=2.25, gamma=3.0, niter=20, tol=1e-6)},
    {'check': 'reflect', 'solver': 'ducowicz',
     'state': dict(rhol=4.0, rhor=1.0, pl=3.0, pr=3.0, ul=-2.25, ur=-0.0, gamma=3.0, niter=20, tol=1e-6)},
    # known finding C15:raises:ducowicz: equal densities and umin == umax make case A 0/0
    # (c = d = a = 0): ZeroDivisionError under CPython
    {'check': 'reflect', 'solver': 'ducowicz',
     'state': dict(rhol=1.0, rhor=1.0, pl=3.0, pr=3.0, ul=0.0, ur=1.5, gamma=3.0, niter=20, tol=1e-6)},
]


def replay(path):
    _patch_printf()
    rp = json.load(open(path))
    case = rp.get('case')
    if not case or 'check' not in case:
        print('replay file has no executable case (kind=%s)' % rp.get('kind'))
        return 0
    if case['check'] == 'dispatch':
        print('dispatch case: re-run ./check C15')
        return 0
    r = eval_check(case)
    print('case    :', json.dumps(case))
    if r is None or r == 'code-asym':
        print('property holds on this input now')
        return 0
    print('demand  :', r[1])
    print('observed:', r[2])
    return 1


def main():
    a = H.args()
    if a.replay:
        sys.exit(replay(a.replay))
    _patch_printf()
    rng = random.Random(0xC15 * 7919 + a.seed)
    R = H.Result('a tie case is non-trivial when the data are admissible and the Python source returned '
                 '(did not raise); distinct = distinct (solver, request line)')
    R.note(_printf_note)
    names = impl_solvers()
    R.count('solvers:%d' % len(names))
    thorough = a.tier == 'thorough'
    for c in CORPUS:
        for n in ([c['solver']] if c['solver'] in names else names if c['solver'] is None else []):
            cc = dict(c, solver=n, state=dict(c['state']))
            r = eval_check(cc)
            R.count('corpus:%s' % c['check'])
            if r is not None and r != 'code-asym':
                R.prop_fail(r[0], cc, r[1], r[2])
    run_tie(R, rng, names, 6000 if thorough else 1200)
    run_oracle(R, rng, names, 40000 if thorough else 2500, 'oracle')
    if a.broken or R.d['disagreements']:
        n = 60000 if thorough else 12000
        f = run_oracle(R, random.Random(a.seed + 977), names, n, 'search')
        R.d['search'] = {'states': n, 'failures_found': f,
                         'aimed_at': a.broken or 'correspondence disagreement'}
    R.write(a.out)


if __name__ == '__main__':
    main()
