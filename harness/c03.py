"""C03 correspondence + property oracle: order of calls of one acceleration
evaluation.

impl  : the REAL pipeline -- pysph.sph.acceleration_eval.AccelerationEval
        (MegaGroup regrouping) -> SPHCompiler -> mako template + helper ->
        compyle/Cython/g++ -> compiled module -> compute(t, dt), observed through
        tracer equations (every hook appends one record to a C-level log that
        lives in the generated module, Python-level callables log through the
        same log, a spying NNPS subclass logs update_domain/update), serial mode,
        so the observed order is total.
model : lean PysphVerif.Model.Schedule.implTrace through the driver, with the
        oracle (array sizes, named start/stop values, neighbour lists as the
        NNPS returns them, scripted condition/convergence outcomes) supplied by
        the harness.
oracle: an independent Python transcription of the property statement
        (spec_trace below) using BRUTE-FORCE neighbour sets on the current
        particle positions; observed == expected up to the order of neighbours
        inside one particle's neighbour loop.
"""
import hashlib
import importlib
import json
import os
import random
import sys
import time

import hcommon as H

H.assert_scratch_import()

HOOKS = ['pi', 'in', 'ip', 'la', 'lp', 'pl', 'rd']
HOOK_METHOD = {'pi': 'py_initialize', 'in': 'initialize', 'ip': 'initialize_pair',
               'la': 'loop_all', 'lp': 'loop', 'pl': 'post_loop', 'rd': 'reduce'}
H_SMOOTH = 0.0625         # every particle's h
RADIUS_SCALE = 2.0        # neighbour radius 0.125, dyadic
GRID = 64                 # positions are multiples of 1/64
DEFAULT_ATTRS = dict(real=True, start=['n', 0], stop=None, iter=False, min=0,
                     max=1, cond=False, pre=False, post=False, nnps=False,
                     name=None)
# `name` = the user's Group(name=...) (None: not given, PySPH numbers the group).
# It is documented as a label for the profiling output; nothing requires it to
# be unique, and several groups / sub-groups may carry the same one.
LABELS = ['density', 'correct', 'sweep', 'stage', 'outer']

# --------------------------------------------------------------------------
# tracer classes (source text; written to a module file because compyle reads
# the class source with inspect)

HEADER = r'''
from libc.stdlib cimport exit as c03_exit
cdef long _C03LOG[1200000]
cdef long _C03N = 0
cdef inline void c03ev(long a, long b, long c, long d, long e, long f) noexcept nogil:
    global _C03N
    if _C03N >= 1199990:
        # 200 000 calls in one evaluation of a handful of particles: the
        # iteration loop of the generated code does not terminate
        c03_exit(97)
    _C03LOG[_C03N] = a; _C03LOG[_C03N+1] = b; _C03LOG[_C03N+2] = c
    _C03LOG[_C03N+3] = d; _C03LOG[_C03N+4] = e; _C03LOG[_C03N+5] = f
    _C03N += 6
def c03_get():
    global _C03N
    return [_C03LOG[i] for i in range(_C03N)]
def c03_reset():
    global _C03N
    _C03N = 0
def c03_put(long a, long b, long c, long d, long e, long f):
    c03ev(a, b, c, d, e, f)
'''

METHODS = {
    'pi': '''
    def py_initialize(self, dst, t, dt):
        c03h.py_event(self.eid, 0, int(dst.aid[0]), -1, -1, -1, t, dt, dst)
''',
    'in': '''
    def initialize(self, d_idx, d_aid):
        c03ev(self.eid, 1, d_aid[0], -1, d_idx, -1)
''',
    'ip': '''
    def initialize_pair(self, d_idx, d_aid, s_aid):
        c03ev(self.eid, 2, d_aid[0], s_aid[0], d_idx, -1)
''',
    'la': '''
    def loop_all(self, d_idx, d_aid, s_aid, NBRS, N_NBRS):
        k = declare('int')
        c03ev(self.eid, 3, d_aid[0], s_aid[0], d_idx, N_NBRS)
        for k in range(N_NBRS):
            c03ev(self.eid, 9, d_aid[0], s_aid[0], d_idx, NBRS[k])
''',
    'lp': '''
    def loop(self, d_idx, s_idx, d_aid, s_aid):
        c03ev(self.eid, 4, d_aid[0], s_aid[0], d_idx, s_idx)
''',
    'lp-nosrc': '''
    def loop(self, d_idx, d_aid):
        c03ev(self.eid, 14, d_aid[0], -1, d_idx, -1)
''',
    'pl': '''
    def post_loop(self, d_idx, d_aid, d_x):
        c03ev(self.eid, 5, d_aid[0], -1, d_idx, -1)
        d_x[d_idx] += self.shift
''',
    'rd': '''
    def reduce(self, dst, t, dt):
        c03ev(self.eid, 6, dst.aid[0], -1, -1, -1)
''',
}

CLASS_HEAD = '''
class {name}(Equation):
    def __init__(self, dest, sources, eid=0, cmask=0, shift=0.0, head=0):
        self.eid = eid
        self.cmask = cmask
        self.ncalls = 0
        self.shift = shift
        self.head = head
        super({name}, self).__init__(dest, sources)

    def _cython_code_(self):
        if self.head == 1:
            return HEADER
        return ''

    def converged(self):
        self.ncalls += 1
        if (self.cmask >> (self.ncalls - 1)) & 1:
            c03ev(self.eid, 7, 1, -1, -1, -1)
            return 1.0
        c03ev(self.eid, 7, 0, -1, -1, -1)
        return -1.0
'''


def class_name(eq):
    bits = ''.join('1' if hk in eq['hooks'] else '0' for hk in HOOKS)
    return 'Tr%s%s' % (bits, 'N' if not eq['src'] else 'S')


def tracer_module_source(prog):
    out = ['from pysph.sph.equation import Equation',
           'from compyle.api import declare',
           'import c03h',
           'HEADER = %r' % HEADER]
    done = set()
    for eq in all_eqs(prog):
        nm = class_name(eq)
        if nm in done:
            continue
        done.add(nm)
        src = CLASS_HEAD.format(name=nm)
        for hk in HOOKS:
            if hk in eq['hooks']:
                key = hk
                if hk == 'lp' and not eq['src']:
                    key = 'lp-nosrc'
                src += METHODS[key]
        out.append(src)
    return '\n'.join(out) + '\n'


# --------------------------------------------------------------------------
# programs

def all_leaves(prog):
    """[(gid string, attrs, eqs)] of every group that holds equations"""
    out = []
    for gi, top in enumerate(prog['tops']):
        if top['kind'] == 'leaf':
            out.append((str(gi), top['attrs'], top['eqs']))
        else:
            for k, sub in enumerate(top['subs']):
                out.append(('%d.%d' % (gi, k), sub['attrs'], sub['eqs']))
    return out


def all_eqs(prog):
    return [e for _, _, eqs in all_leaves(prog) for e in eqs]


def all_attrs(prog):
    out = []
    for gi, top in enumerate(prog['tops']):
        out.append((str(gi), top['attrs']))
        if top['kind'] == 'parent':
            for k, sub in enumerate(top['subs']):
                out.append(('%d.%d' % (gi, k), sub['attrs']))
    return out


def classify_wf(prog):
    """which hypothesis of implTrace_eq_specTrace (Program.WF) a program
    violates; '' if none.  The statement does not determine the behaviour of
    such programs; they are still compared with the model."""
    for gi, top in enumerate(prog['tops']):
        a = top['attrs']
        if a['iter'] and not (1 <= a['max'] and a['min'] <= a['max']):
            return 'min>max-or-max=0'
        if top['kind'] == 'leaf' and not top['eqs'] and not prog['flat'] and (
                a['cond'] or a['pre'] or a['post'] or a['nnps']):
            return 'empty-top-group-with-callables'
    for _, _, eqs in all_leaves(prog):
        for e in eqs:
            if len(set(e['src'])) != len(e['src']):
                return 'duplicate-source'
    return ''


def parent_under_guard(prog):
    """a group with sub-groups that has a condition or iterates, and has
    something the template emits at a fixed indentation (its own pre / post /
    update_nnps, or a sub-group with a condition)"""
    for top in prog['tops']:
        if top['kind'] == 'parent':
            a = top['attrs']
            if (a['cond'] or a['iter']) and (
                    a['pre'] or a['post'] or a['nnps'] or
                    any(sub['attrs']['cond'] for sub in top['subs'])):
                return True
    return False


def fail_key(prog, what):
    """the class of failing input (what known_findings.json matches on).  Every
    failure of a program with a guarded parent group gets the one key of the
    template-indentation defect (proposed_fixes/C03-subgroup-template-
    indentation.diff); all other programs get a key that says what differed."""
    if parent_under_guard(prog):
        return 'C03:sub-groups-under-condition-or-iterate'
    return 'C03:' + what


def gen_attrs(rng, narr_min_real, sub=False, allow_nnps=True):
    a = dict(DEFAULT_ATTRS)
    a['real'] = rng.random() < 0.6
    r = rng.random()
    if r < 0.25:
        a['start'] = ['n', rng.choice([1, 2, 3])]
    elif r < 0.4:
        a['start'] = ['k', 0]
    r = rng.random()
    if r < 0.27:
        # numeric stop_idx: gen_variant sizes every array so that the stop is
        # inside the array, and (hand-made ghosts) often beyond the real count
        a['stop'] = ['n', rng.choice([2, 3, 4, 5, 6, 7, 8])]
    elif r < 0.47:
        a['stop'] = ['k', 1]
    if not sub and rng.random() < 0.45:
        a['iter'] = True
        a['max'] = rng.choice([1, 2, 3, 4])
        a['min'] = rng.choice([0, 0, 1, 2, a['max']])
        a['min'] = min(a['min'], a['max'])
    elif sub and rng.random() < 0.2:
        # the template never looks at a sub-group's `iterate`
        a['iter'] = True
        a['max'] = 3
        a['min'] = 2
    a['cond'] = rng.random() < 0.4
    a['pre'] = rng.random() < 0.4
    a['post'] = rng.random() < 0.4
    if allow_nnps:
        a['nnps'] = rng.random() < 0.3
    return a


def gen_eqs(rng, narr, next_id, attrs, allow_mover):
    n = rng.choice([1, 2, 2, 3, 3, 4])
    eqs = []
    for _ in range(n):
        dest = rng.randrange(narr)
        if rng.random() < 0.25:
            src = []
        else:
            k = rng.choice([1, 1, 2, narr])
            src = rng.sample(range(narr), min(k, narr))
        r = rng.random()
        if r < 0.15:
            hooks = list(HOOKS)
        elif r < 0.25:
            hooks = []
        else:
            hooks = [hk for hk in HOOKS if rng.random() < 0.45]
        eqs.append({'id': next_id[0], 'dest': dest, 'src': src, 'hooks': hooks,
                    'shift': 0.0})
        next_id[0] += 1
    if allow_mover and attrs['nnps'] and rng.random() < 0.8:
        # a mover: shifts its destination in post_loop; it must own the last
        # destination of the group so that no neighbour query ever sees
        # positions the NNPS has not binned
        dests = first_appearance([e['dest'] for e in eqs])
        last = dests[-1]
        cands = [e for e in eqs if e['dest'] == last]
        e = rng.choice(cands)
        if 'pl' not in e['hooks']:
            e['hooks'] = [hk for hk in HOOKS if hk in e['hooks'] or hk == 'pl']
        e['shift'] = rng.choice([3, 5, 8, 13, -7]) / GRID
    return eqs


def rand_hooks(rng, need=None):
    """random hook subset; `need` = one of these hooks is guaranteed"""
    hooks = [hk for hk in HOOKS if rng.random() < 0.4]
    if need and not any(hk in hooks for hk in need):
        add = rng.choice(need)
        hooks = [hk for hk in HOOKS if hk in hooks or hk == add]
    return hooks


def loop_pairs(eqs):
    """the (dest, source) pairs of one group that get a neighbour loop, in the
    documented order (destinations and sources by first appearance)"""
    out = []
    for d in first_appearance([e['dest'] for e in eqs]):
        mine = [e for e in eqs if e['dest'] == d]
        for s_ in first_appearance([x for e in mine for x in e['src']]):
            if any(s_ in e['src'] and ('lp' in e['hooks'] or 'la' in e['hooks'])
                   for e in mine):
                out.append((d, s_))
    return out


def top_eqs(top):
    if top['kind'] == 'leaf':
        return top['eqs']
    return [e for sub in top['subs'] for e in sub['eqs']]


def top_loop_pairs(top):
    if top['kind'] == 'leaf':
        return loop_pairs(top['eqs'])
    return [p for sub in top['subs'] for p in loop_pairs(sub['eqs'])]


def backedge_tops(prog):
    """indices of the iterated groups whose neighbour loops are entered in a
    different NNPS context on the first pass and on the later ones: the group
    before ends on the pair the body starts with, the body ends on another"""
    out = []
    for gi in range(1, len(prog['tops'])):
        top, prev = prog['tops'][gi], prog['tops'][gi - 1]
        if not top['attrs']['iter']:
            continue
        body, before = top_loop_pairs(top), top_loop_pairs(prev)
        if body and before and len(set(body)) >= 2 and before[-1] == body[0] \
                and body[-1] != body[0]:
            out.append(gi)
    return out


def gen_chain_program(rng):
    """an unconditional group that ends on the neighbour loop of one (dest,
    source) pair, followed by an iterated group (plain or with sub-groups) whose
    body starts with the same pair, has at least one more pair, and runs two or
    more passes: the pair processed before the body's first loop differs between
    the first pass and the back-edge of the iteration"""
    narr = rng.choice([2, 2, 3])
    next_id = [1]

    def eq(dest, src, need=None, hooks=None):
        e = {'id': next_id[0], 'dest': dest, 'src': src,
             'hooks': rand_hooks(rng, need) if hooks is None else hooks, 'shift': 0.0}
        next_id[0] += 1
        return e
    d = rng.randrange(narr)
    s_ = rng.randrange(narr)
    others = [(dd, ss) for dd in range(narr) for ss in range(narr) if (dd, ss) != (d, s_)]
    prog = {'arrays': ['a%d' % i for i in range(narr)],
            'domain': rng.choice(['none', 'none', 'periodic']), 'flat': False, 'tops': []}
    # optional unrelated group in front
    if rng.random() < 0.3:
        a = gen_attrs(rng, 0, allow_nnps=False)
        prog['tops'].append({'kind': 'leaf', 'attrs': a,
                             'eqs': gen_eqs(rng, narr, next_id, a, False)})
    # the group before: no condition, no NNPS refresh; destination d last, and
    # s_ the last source of d
    a = gen_attrs(rng, 0, allow_nnps=False)
    a['cond'] = False
    eqs = []
    for dd in range(narr):
        if dd != d and rng.random() < 0.4:
            eqs.append(eq(dd, rng.sample(range(narr), rng.choice([0, 1, 2]))))
    if rng.random() < 0.4:
        src = [x for x in range(narr) if x != s_]
        eqs.append(eq(d, [rng.choice(src)]))
    eqs.append(eq(d, [s_], need=['lp', 'la']))
    prog['tops'].append({'kind': 'leaf', 'attrs': a, 'eqs': eqs})
    # the iterated group
    a = gen_attrs(rng, 0)
    a['cond'] = False
    a['iter'] = True
    a['min'] = rng.choice([0, 1, 2, 2, 3])
    a['max'] = max(a['min'], rng.choice([2, 3, 4]))
    a['nnps'] = a['nnps'] and rng.random() < 0.5
    d2, s2 = rng.choice(others)
    first = eq(d, [s_] + ([x for x in range(narr) if x != s_][:1]
                          if rng.random() < 0.3 else []), need=['lp', 'la'])
    more = [eq(d2, [s2], need=['lp', 'la'])]
    if rng.random() < 0.5:
        dd, ss = rng.choice(others)
        more.append(eq(dd, [ss]))
    if rng.random() < 0.35:
        more.append(eq(rng.randrange(narr), []))
    if rng.random() < 0.5:
        prog['tops'].append({'kind': 'leaf', 'attrs': a, 'eqs': [first] + more})
    else:
        subs = []
        sa = gen_attrs(rng, 0, sub=True, allow_nnps=False)
        sa['cond'] = False
        k = rng.randrange(len(more) + 1)
        subs.append({'attrs': sa, 'eqs': [first] + more[:k]})
        if more[k:]:
            sa = gen_attrs(rng, 0, sub=True, allow_nnps=False)
            subs.append({'attrs': sa, 'eqs': more[k:]})
        prog['tops'].append({'kind': 'parent', 'attrs': a, 'subs': subs})
    # optional group behind
    if rng.random() < 0.4:
        a = gen_attrs(rng, 0)
        prog['tops'].append({'kind': 'leaf', 'attrs': a,
                             'eqs': gen_eqs(rng, narr, next_id, a, True)})
    return prog


def name_classes(prog):
    """{label: [gid, ...]} of the explicit names carried by two or more groups"""
    by = {}
    for gid, a in all_attrs(prog):
        if a.get('name'):
            by.setdefault(a['name'], []).append(gid)
    return {k: v for k, v in by.items() if len(v) >= 2}


def names_class(prog):
    """how the program labels its groups (for the input distribution)"""
    if not any(a.get('name') for _, a in all_attrs(prog)):
        return 'none'
    nc = name_classes(prog)
    if not nc:
        return 'unique'
    kinds = set()
    for gids in nc.values():
        tops = [g for g in gids if '.' not in g]
        subs = [g for g in gids if '.' in g]
        if len(tops) >= 2:
            kinds.add('top+top')
        if tops and subs:
            kinds.add('top+sub')
        if len(subs) >= 2:
            same = len({g.split('.')[0] for g in subs}) < len(subs)
            kinds.add('sub+sub-same-parent' if same else 'sub+sub-other-parent')
    return 'shared:' + ','.join(sorted(kinds))


def assign_names(rng, prog, mode=None, touch_cond=True):
    """give groups explicit `name=` labels.  mode 'shared': two or more groups
    -- top-level and/or sub-groups, of the same or of different parents -- get
    the SAME label, and every namesake gets callables of its own (condition,
    pre, post; the tracer callables log the position of the group they were
    given to), so that a callback dispatched to a namesake is observable."""
    if prog['flat']:
        return prog
    attrs = all_attrs(prog)
    mode = mode or rng.choice(['none', 'none', 'unique', 'shared', 'shared', 'shared'])
    if mode == 'none':
        return prog
    if mode == 'unique' or len(attrs) < 2:
        for k, (gid, a) in enumerate(attrs):
            if rng.random() < 0.6:
                a['name'] = 'g%s_%s' % (gid.replace('.', '_'), rng.choice(LABELS))
        return prog
    labels = rng.sample(LABELS, 2)
    pool = [a for _, a in attrs]
    rng.shuffle(pool)
    n1 = rng.choice([2, 2, 3, len(pool)])
    first, rest = pool[:n1], pool[n1:]
    classes = [(labels[0], first)]
    if len(rest) >= 2 and rng.random() < 0.5:
        classes.append((labels[1], rest[:rng.choice([2, len(rest)])]))
    elif rest and rng.random() < 0.4:
        rest[0]['name'] = 'only_' + labels[1]
    for label, members in classes:
        for a in members:
            a['name'] = label
            if touch_cond and rng.random() < 0.75:
                a['cond'] = True
            a['pre'] = a['pre'] or rng.random() < 0.6
            a['post'] = a['post'] or rng.random() < 0.6
            if not (a['cond'] or a['pre'] or a['post']):
                a[rng.choice(['pre', 'post'] + (['cond'] if touch_cond else []))] = True
    return prog


def gen_program(rng, kind=None, names=None):
    kind = kind or rng.choice(['flat', 'groups', 'groups', 'groups', 'mixed', 'mixed',
                               'chain'])
    prog = gen_program_shape(rng, kind)
    # the chain shape relies on its groups being unconditional
    return assign_names(rng, prog, names, touch_cond=(kind != 'chain'))


def gen_program_shape(rng, kind):
    if kind == 'chain':
        return gen_chain_program(rng)
    narr = rng.choice([1, 2, 2, 3])
    domain = rng.choice(['none', 'none', 'periodic'])
    next_id = [1]
    prog = {'arrays': ['a%d' % i for i in range(narr)], 'domain': domain,
            'flat': kind == 'flat', 'tops': []}
    if kind == 'flat':
        a = dict(DEFAULT_ATTRS)
        prog['tops'].append({'kind': 'leaf', 'attrs': a,
                             'eqs': gen_eqs(rng, narr, next_id, a, False)})
        return prog
    ntop = rng.choice([1, 2, 3, 3, 4])
    for _ in range(ntop):
        if kind == 'mixed' and rng.random() < 0.5:
            a = gen_attrs(rng, 0)
            subs = []
            for _ in range(rng.choice([1, 2, 3])):
                sa = gen_attrs(rng, 0, sub=True)
                subs.append({'attrs': sa,
                             'eqs': gen_eqs(rng, narr, next_id, sa, True)})
            prog['tops'].append({'kind': 'parent', 'attrs': a, 'subs': subs})
        else:
            a = gen_attrs(rng, 0)
            prog['tops'].append({'kind': 'leaf', 'attrs': a,
                                 'eqs': gen_eqs(rng, narr, next_id, a, True)})
    return prog


def max_numeric_stop(prog):
    """largest numeric stop_idx of the program: every destination array must be
    at least this long (ASSUMPTIONS: indices are within the array)"""
    return max([a['stop'][1] for _, a in all_attrs(prog)
                if a['stop'] is not None and a['stop'][0] == 'n'] + [0])


def gen_variant(rng, prog, first=False):
    narr = len(prog['arrays'])
    maxstop = max_numeric_stop(prog)
    arrs = []
    for _ in range(narr):
        if prog['domain'] == 'periodic':
            # the ghosts are made (and re-made at every NNPS refresh) by the
            # DomainManager, their number depends on the positions: explicit
            # stops stay within the real particles here
            nreal = max(rng.choice([4, 5, 6, 8]), maxstop)
            xs = sorted(rng.sample(range(GRID), nreal))
            x = [v / GRID for v in xs]
            gx, gt = [], []
            c1 = min(rng.choice([2, 3, 4, nreal]), nreal)
        else:
            # hand-made non-local particles, stored after the real ones:
            # tag 2 = Ghost, tag 1 = Remote
            nreal = rng.choice([3, 4, 5, 6, 7])
            nghost = max(rng.choice([0, 1, 2, 3, 4]), maxstop - nreal)
            pts = rng.sample(range(-8, 40), nreal + nghost)
            x = [v / GRID for v in pts[:nreal]]
            gx = [v / GRID for v in pts[nreal:]]
            gt = [rng.choice([2, 2, 1]) for _ in gx]
            # a named stop may select ghost/remote destinations as well
            c1 = rng.choice([2, 3, 4, nreal, nreal + 1, nreal + nghost,
                             nreal + nghost])
            c1 = min(c1, nreal + nghost)
        # named start (c0) and stop (c1)
        c0 = rng.choice([0, 1, 2])
        arrs.append({'x': x, 'gx': gx, 'gt': gt, 'c': [c0, c1]})
    forced = prog.get('force', {}).get('arrays')
    if forced and first:
        # the minimised input of a corpus program (first variant only)
        arrs = [dict(a) for a in forced]
    cond = {}
    for gid, a in all_attrs(prog):
        if a['cond']:
            cond[gid] = {'v': [rng.random() < 0.7 for _ in range(rng.choice([1, 2, 4]))],
                         'rest': rng.random() < 0.7}
    conv = {}
    for e in all_eqs(prog):
        v = [rng.random() < 0.5 for _ in range(rng.choice([0, 1, 2, 3]))]
        conv[str(e['id'])] = {'v': v, 'rest': True if rng.random() < 0.8 else False}
    # iteration must terminate: with min>max / max=0 only convergence stops it
    if classify_wf(prog) == 'min>max-or-max=0':
        for c in conv.values():
            c['rest'] = True
    # groups that share a name get conditions with DIFFERENT outcomes (one always
    # False, one always True), most of the time
    for label, gids in sorted(name_classes(prog).items()):
        cg = [g for g in gids if g in cond]
        if len(cg) >= 2 and rng.random() < 0.75:
            lo, hi = rng.sample(cg, 2)
            cond[lo] = {'v': [], 'rest': False}
            cond[hi] = {'v': [], 'rest': True}
    for gid, sc in prog.get('force', {}).get('cond', {}).items():
        cond[gid] = sc
    for eid, sc in prog.get('force', {}).get('conv', {}).items():
        conv[eid] = sc
    return {'arrays': arrs, 'cond': cond, 'conv': conv,
            't': rng.choice([0.0, 0.5, 1.25]), 'dt': rng.choice([0.125, 0.0625])}


def first_appearance(xs):
    out = []
    for x in xs:
        if x not in out:
            out.append(x)
    return out


# --------------------------------------------------------------------------
# the worker: builds the real pipeline for one program, runs every variant

def script_mask(sc):
    m = 0
    for k, b in enumerate(sc['v']):
        if b:
            m |= 1 << k
    if sc['rest']:
        m |= ((1 << 60) - 1) & ~((1 << len(sc['v'])) - 1)
    return m


def worker(task):
    idx, prog, variants, work = task
    try:
        return _worker(idx, prog, variants, work)
    except Exception as e:    # noqa
        import traceback
        return {'idx': idx, 'error': '%s: %s\n%s' % (type(e).__name__, e,
                                                    traceback.format_exc())}


def _worker(idx, prog, variants, work):
    import numpy as np
    import c03h
    from pysph.base.utils import get_particle_array
    from pysph.base.kernels import CubicSpline
    from pysph.base.nnps import LinkedListNNPS, DomainManager
    from pysph.sph.equation import Group
    from pysph.sph.acceleration_eval import AccelerationEval
    from pysph.sph.sph_compiler import SPHCompiler
    from cyarray.api import UIntArray

    t0 = time.time()
    src = tracer_module_source(prog)
    modname = 'c03tr_' + hashlib.sha256(src.encode()).hexdigest()[:16]
    path = os.path.join(work, modname + '.py')
    if not os.path.exists(path):
        with open(path + '.%d' % os.getpid(), 'w') as fh:
            fh.write(src)
        os.replace(path + '.%d' % os.getpid(), path)
    if work not in sys.path:
        sys.path.insert(0, work)
    tm = importlib.import_module(modname)

    names = prog['arrays']
    narr = len(names)

    def make_arrays(var):
        pas = []
        for aid, av in enumerate(var['arrays']):
            x = np.array(av['x'] + av['gx'], dtype=float)
            tag = np.array([0] * len(av['x']) + list(av.get('gt', [2] * len(av['gx']))),
                           dtype=np.int32)
            pa = get_particle_array(name=names[aid], x=x,
                                    h=np.ones_like(x) * H_SMOOTH, tag=tag)
            pa.add_constant('aid', np.array([aid], dtype=np.int32))
            pa.add_constant('c0', np.array([av['c'][0]], dtype=np.int32))
            pa.add_constant('c1', np.array([av['c'][1]], dtype=np.int32))
            pa.align_particles()
            pas.append(pa)
        return pas

    # -- the user's equations/groups, exactly as a user would write them
    state = {'cond': {}, 'ncond': {}, 't': None, 'dt': None, 'argfail': []}
    c03h.STATE = state

    def mk_cond(gid):
        def condition(t, dt):
            n = state['ncond'].get(gid, 0)
            state['ncond'][gid] = n + 1
            sc = state['cond'][gid]
            b = sc['v'][n] if n < len(sc['v']) else sc['rest']
            g, s = (gid.split('.') + ['-1'])[:2]
            c03h.MOD.c03_put(-3, 22, int(g), int(s), 1 if b else 0, -1)
            if (t, dt) != (state['t'], state['dt']):
                state['argfail'].append(('condition', gid, t, dt))
            return b
        return condition

    def mk_prepost(gid, code):
        def f():
            g, s = (gid.split('.') + ['-1'])[:2]
            c03h.MOD.c03_put(-3, code, int(g), int(s), -1, -1)
        return f

    eq_objs = {}
    first = [True]

    def mk_eq(e):
        cls = getattr(tm, class_name(e))
        o = cls(dest=names[e['dest']],
                sources=[names[s] for s in e['src']] if e['src'] else None,
                eid=e['id'], cmask=0, shift=float(e['shift']),
                head=1 if first[0] else 0)
        first[0] = False
        eq_objs[e['id']] = o
        return o

    def mk_group(gid, a, members):
        kw = dict(real=a['real'], update_nnps=a['nnps'], iterate=a['iter'],
                  max_iterations=a['max'], min_iterations=a['min'])
        if a['start'] != ['n', 0]:
            kw['start_idx'] = a['start'][1] if a['start'][0] == 'n' else 'c%d' % a['start'][1]
        if a['stop'] is not None:
            kw['stop_idx'] = a['stop'][1] if a['stop'][0] == 'n' else 'c%d' % a['stop'][1]
        if a['cond']:
            kw['condition'] = mk_cond(gid)
        if a['pre']:
            kw['pre'] = mk_prepost(gid, 20)
        if a['post']:
            kw['post'] = mk_prepost(gid, 21)
        if a.get('name'):
            kw['name'] = a['name']
        return Group(equations=members, **kw)

    if prog['flat']:
        equations = [mk_eq(e) for e in prog['tops'][0]['eqs']]
    else:
        equations = []
        for gi, top in enumerate(prog['tops']):
            if top['kind'] == 'leaf':
                equations.append(mk_group(str(gi), top['attrs'],
                                          [mk_eq(e) for e in top['eqs']]))
            else:
                subs = [mk_group('%d.%d' % (gi, k), sub['attrs'],
                                 [mk_eq(e) for e in sub['eqs']])
                        for k, sub in enumerate(top['subs'])]
                equations.append(mk_group(str(gi), top['attrs'], subs))
    if not eq_objs:
        return {'idx': idx, 'error': 'program without equations'}

    pas = make_arrays(variants[0])
    kernel = CubicSpline(dim=1)
    a_eval = AccelerationEval(pas, equations, kernel)
    comp = SPHCompiler(a_eval, None)
    try:
        comp.compile()
    except BaseException as e:     # noqa  (compyle exits the interpreter on a failed build)
        code = a_eval and comp.acceleration_eval_helpers[0].get_code()
        return {'idx': idx, 'compile_error': '%s: %s' % (type(e).__name__, e),
                'code_tail': code[-2500:]}
    mod = comp.module
    c03h.MOD = mod
    t_compile = time.time() - t0

    pairs = sorted({(e['dest'], s) for e in all_eqs(prog) for s in e['src']})

    class Spy(LinkedListNNPS):
        def update_domain(self):
            mod.c03_put(-3, 30, -1, -1, -1, -1)
            LinkedListNNPS.update_domain(self)

        def update(self):
            if c03h.SPY_ON:
                mod.c03_put(-3, 31, -1, -1, -1, -1)
            LinkedListNNPS.update(self)
            if c03h.SPY_ON:
                c03h.SNAPS.append(snapshot(self))

        def set_context(self, src_index, dst_index):
            # the (source, destination) pair the evaluation last bound the NNPS
            # to; the snapshot's own queries re-bind it and must put it back, so
            # that the neighbour lists the generated loops iterate are the ones
            # of the context the generated code itself established
            if not c03h.IN_SNAPSHOT:
                c03h.LAST_CTX = (src_index, dst_index)
            LinkedListNNPS.set_context(self, src_index, dst_index)

    def snapshot(nnps):
        c03h.IN_SNAPSHOT = True
        try:
            return _snapshot(nnps)
        finally:
            if c03h.LAST_CTX is not None:
                LinkedListNNPS.set_context(nnps, *c03h.LAST_CTX)
            c03h.IN_SNAPSHOT = False

    def _snapshot(nnps):
        ps = nnps.particles
        snap = {'sizes': [[p.get_number_of_particles(True),
                           p.get_number_of_particles(False)] for p in ps],
                'x': [[float(v) for v in p.get('x', only_real_particles=False)]
                      for p in ps],
                'named': [[int(p.c0[0]), int(p.c1[0])] for p in ps],
                'nb': {}}
        nb = UIntArray()
        for d, s in pairs:
            rows = []
            for i in range(ps[d].get_number_of_particles(False)):
                nnps.get_nearest_particles(s, d, i, nb)
                rows.append([int(v) for v in nb.get_npy_array()])
            snap['nb']['%d,%d' % (d, s)] = rows
        return snap

    results = []
    for vi, var in enumerate(variants):
        pas = make_arrays(var)
        c03h.SPY_ON = False
        c03h.SNAPS = []
        c03h.LAST_CTX = None
        if prog['domain'] == 'periodic':
            dm = DomainManager(xmin=0.0, xmax=1.0, periodic_in_x=True)
            nnps = Spy(dim=1, particles=pas, domain=dm, radius_scale=RADIUS_SCALE)
        else:
            nnps = Spy(dim=1, particles=pas, radius_scale=RADIUS_SCALE)
        a_eval.update_particle_arrays(pas)
        a_eval.set_nnps(nnps)
        c03h.SNAPS.append(snapshot(nnps))
        state['cond'] = var['cond']
        state['ncond'] = {}
        state['t'], state['dt'] = var['t'], var['dt']
        state['argfail'] = []
        state['pas'] = {id(p): k for k, p in enumerate(pas)}
        for e in all_eqs(prog):
            ce = getattr(a_eval.c_acceleration_eval, eq_objs[e['id']].var_name)
            ce.cmask = script_mask(var['conv'][str(e['id'])])
            ce.ncalls = 0
        mod.c03_reset()
        c03h.SPY_ON = True
        with open(os.path.join(work, 'progress_%d_%d' % (os.getppid(), idx)), 'w') as fh:
            fh.write(str(vi))
        raised = None
        try:
            a_eval.compute(var['t'], var['dt'])
        except Exception as e:    # noqa
            # the evaluation itself raised (e.g. the generated code called a
            # callable of a group that has none): the calls made so far are
            # compared as usual, the exception is reported with them
            import traceback
            raised = '%s: %s | %s' % (type(e).__name__, e,
                                      ' <- '.join(traceback.format_exc().strip().split('\n')[-4:-1]))
        c03h.SPY_ON = False
        raw = mod.c03_get()
        results.append({'raw': raw, 'snaps': c03h.SNAPS,
                        'argfail': state['argfail'], 'raised': raised})
    return {'idx': idx, 'results': results, 't_compile': t_compile,
            't_total': time.time() - t0}


# --------------------------------------------------------------------------
# rendering observed records as events (the model driver's format)

def render_observed(raw):
    ev = []
    recs = [raw[i:i + 6] for i in range(0, len(raw), 6)]
    k = 0
    while k < len(recs):
        e, code, d, s, i, j = recs[k]
        k += 1
        if code == 0:
            ev.append('pi:%d:%d' % (e, d))
        elif code == 1:
            ev.append('in:%d:%d:%d' % (e, d, i))
        elif code == 2:
            ev.append('ip:%d:%d:%d:%d' % (e, d, s, i))
        elif code == 3:
            nb = []
            for _ in range(j):
                if k < len(recs) and recs[k][1] == 9 and recs[k][:1] == [e]:
                    nb.append(recs[k][5])
                    k += 1
                else:
                    nb.append('?')
            ev.append('la:%d:%d:%d:%d:%s' % (e, d, s, i,
                                              '+'.join(map(str, nb)) if nb else '_'))
        elif code == 4:
            ev.append('lp:%d:%d:%d:%d:%d' % (e, d, s, i, j))
        elif code == 14:
            ev.append('ln:%d:%d:%d' % (e, d, i))
        elif code == 5:
            ev.append('pl:%d:%d:%d' % (e, d, i))
        elif code == 6:
            ev.append('rd:%d:%d' % (e, d))
        elif code == 7:
            ev.append('cv:%d:%d' % (e, d))
        elif code in (20, 21, 22):
            gid = str(d) if s < 0 else '%d.%d' % (d, s)
            if code == 22:
                ev.append('cond:%s:%d' % (gid, i))
            else:
                ev.append('%s:%s' % ('pre' if code == 20 else 'post', gid))
        elif code == 30:
            # update_domain must be immediately followed by update
            if k < len(recs) and recs[k][1] == 31:
                k += 1
                ev.append('nnps')
            else:
                ev.append('update_domain-alone')
        elif code == 31:
            ev.append('update-alone')
        else:
            ev.append('?%r' % ([e, code, d, s, i, j],))
    return ev


def strip_gid_nnps(ev):
    return ['nnps' if x.startswith('nnps:') else x for x in ev]


def canon(ev):
    """neighbour order inside one particle's neighbour loop is the NNPS's
    business (L2): sort the list handed to loop_all, and sort each maximal run
    of `loop` calls of one (dest, source, particle) by neighbour index, stably
    (so the equation order for one pair is kept)."""
    out = []
    k = 0
    while k < len(ev):
        x = ev[k]
        if x.startswith('la:'):
            p = x.split(':')
            if p[5] != '_':
                p[5] = '+'.join(map(str, sorted(int(v) if v != '?' else -1
                                                for v in p[5].split('+'))))
            out.append(':'.join(p))
            k += 1
        elif x.startswith('lp:'):
            key = x.split(':')[2:5]
            run = []
            while k < len(ev) and ev[k].startswith('lp:') and \
                    ev[k].split(':')[2:5] == key:
                run.append(ev[k])
                k += 1
            run.sort(key=lambda y: int(y.split(':')[5]))
            out += run
        else:
            out.append(x)
            k += 1
    return out


# --------------------------------------------------------------------------
# model side

def idx_str(v):
    return '%s%d' % ('n' if v[0] == 'n' else 'k', v[1])


def attrs_str(a):
    return ('real=%d start=%s stop=%s iter=%d min=%d max=%d cond=%d pre=%d '
            'post=%d nnps=%d name=%s' % (a['real'], idx_str(a['start']),
                                         '-' if a['stop'] is None else idx_str(a['stop']),
                                         a['iter'], a['min'], a['max'], a['cond'],
                                         a['pre'], a['post'], a['nnps'],
                                         a.get('name') or '-'))


def bl(v):
    return ','.join('1' if b else '0' for b in v) if v else '_'


def model_lines(prog, var, snaps):
    L = ['new arrays=%d epochs=%d fuel=%d flat=%d' % (
        len(prog['arrays']), len(snaps) - 1, 200, 1 if prog['flat'] else 0)]

    def eq_line(e):
        return 'eq id=%d dest=%d src=%s hooks=%s' % (
            e['id'], e['dest'], H.ilist(e['src']),
            ','.join(e['hooks']) if e['hooks'] else '_')
    for top in prog['tops']:
        L.append('top kind=%s %s' % (top['kind'], attrs_str(top['attrs'])))
        if top['kind'] == 'leaf':
            L += [eq_line(e) for e in top['eqs']]
        else:
            for sub in top['subs']:
                L.append('sub ' + attrs_str(sub['attrs']))
                L += [eq_line(e) for e in sub['eqs']]
    for gid, sc in var['cond'].items():
        L.append('cond g=%s v=%s rest=%d' % (gid, bl(sc['v']), sc['rest']))
    for eid, sc in var['conv'].items():
        L.append('conv e=%s v=%s rest=%d' % (eid, bl(sc['v']), sc['rest']))
    for ep, sn in enumerate(snaps):
        for a, (nr, na) in enumerate(sn['sizes']):
            L.append('size ep=%d a=%d real=%d all=%d' % (ep, a, nr, na))
        for key, rows in sn['nb'].items():
            d, s = key.split(',')
            for i, row in enumerate(rows):
                L.append('nb ep=%d d=%s s=%s i=%d l=%s' % (ep, d, s, i, H.ilist(row)))
    for a, cs in enumerate(snaps[0]['named']):
        for k, v in enumerate(cs):
            L.append('named a=%d k=%d v=%d' % (a, k, v))
    L.append('run impl')
    L.append('run spec')
    return L


# --------------------------------------------------------------------------
# the property statement, transcribed independently (Python, brute-force
# neighbours on the positions current at the time of the query)

class SpecRun:
    def __init__(self, prog, var, snaps):
        self.prog, self.var, self.snaps = prog, var, snaps
        self.ev = []
        self.epoch = 0
        self.ncond = {}
        self.nconv = {}
        self.passes = {}      # gid -> passes of an iterated group (bookkeeping)

    # what the evaluation reads from outside
    def size(self, a, real):
        if self.epoch >= len(self.snaps):
            raise IndexError('more NNPS refreshes expected than observed')
        return self.snaps[self.epoch]['sizes'][a][0 if real else 1]

    def named(self, a, k):
        return self.snaps[0]['named'][a][k]

    def nbrs(self, d, s, i):
        """every source particle, ghosts included, within the kernel radius"""
        sn = self.snaps[self.epoch]
        xd = sn['x'][d][i]
        r2 = (RADIUS_SCALE * H_SMOOTH) ** 2
        return [j for j, xs in enumerate(sn['x'][s]) if (xd - xs) ** 2 < r2]

    def cond(self, gid):
        n = self.ncond.get(gid, 0)
        self.ncond[gid] = n + 1
        sc = self.var['cond'][gid]
        return sc['v'][n] if n < len(sc['v']) else sc['rest']

    def conv(self, eid):
        n = self.nconv.get(eid, 0)
        self.nconv[eid] = n + 1
        sc = self.var['conv'][str(eid)]
        return sc['v'][n] if n < len(sc['v']) else sc['rest']

    # the statement
    def dest_range(self, a, d):
        start = a['start'][1] if a['start'][0] == 'n' else self.named(d, a['start'][1])
        if a['stop'] is None:
            n = self.size(d, a['real'])
        elif a['stop'][0] == 'n':
            n = a['stop'][1]
        else:
            n = self.named(d, a['stop'][1])
        return list(range(start, n))

    def group_pass(self, gid, a, eqs):
        if a['pre']:
            self.ev.append('pre:' + gid)
        for d in first_appearance([e['dest'] for e in eqs]):
            mine = [e for e in eqs if e['dest'] == d]
            rng = self.dest_range(a, d)
            for e in mine:
                if 'pi' in e['hooks']:
                    self.ev.append('pi:%d:%d' % (e['id'], d))
            for i in rng:
                for e in mine:
                    if 'in' in e['hooks']:
                        self.ev.append('in:%d:%d:%d' % (e['id'], d, i))
            for i in rng:
                for e in mine:
                    if not e['src'] and 'lp' in e['hooks']:
                        self.ev.append('ln:%d:%d:%d' % (e['id'], d, i))
            for s in first_appearance([s for e in mine for s in e['src']]):
                grp = [e for e in mine if s in e['src']]
                for i in rng:
                    for e in grp:
                        if 'ip' in e['hooks']:
                            self.ev.append('ip:%d:%d:%d:%d' % (e['id'], d, s, i))
                for i in rng:
                    nb = self.nbrs(d, s, i)
                    for e in grp:
                        if 'la' in e['hooks']:
                            self.ev.append('la:%d:%d:%d:%d:%s' % (
                                e['id'], d, s, i,
                                '+'.join(map(str, nb)) if nb else '_'))
                    for j in nb:
                        for e in grp:
                            if 'lp' in e['hooks']:
                                self.ev.append('lp:%d:%d:%d:%d:%d' % (e['id'], d, s, i, j))
            for i in rng:
                for e in mine:
                    if 'pl' in e['hooks']:
                        self.ev.append('pl:%d:%d:%d' % (e['id'], d, i))
            for e in mine:
                if 'rd' in e['hooks']:
                    self.ev.append('rd:%d:%d' % (e['id'], d))
        if a['nnps']:
            self.ev.append('nnps')
            self.epoch += 1
        if a['post']:
            self.ev.append('post:' + gid)

    def guarded(self, gid, a, body):
        if a['cond']:
            b = self.cond(gid)
            self.ev.append('cond:%s:%d' % (gid, b))
            if not b:
                return
        body()

    def repeat(self, a, eqs, one_pass, gid=None):
        if not a['iter']:
            one_pass()
            return
        count = 0
        while True:
            one_pass()
            count += 1
            self.passes[gid] = count
            if count >= a['min']:
                res = [self.conv(e['id']) for e in eqs]    # all are asked
                for e, b in zip(eqs, res):
                    self.ev.append('cv:%d:%d' % (e['id'], b))
                if all(res):
                    return
            if count >= a['max']:
                return

    def run(self):
        for gi, top in enumerate(self.prog['tops']):
            gid = str(gi)
            a = top['attrs']
            if top['kind'] == 'leaf':
                self.guarded(gid, a, lambda: self.repeat(
                    a, top['eqs'], lambda: self.group_pass(gid, a, top['eqs']), gid))
            else:
                def parent_pass():
                    if a['pre']:
                        self.ev.append('pre:' + gid)
                    for k, sub in enumerate(top['subs']):
                        sg = '%d.%d' % (gi, k)
                        self.guarded(sg, sub['attrs'], lambda: self.group_pass(
                            sg, sub['attrs'], sub['eqs']))
                    if a['nnps']:
                        self.ev.append('nnps')
                        self.epoch += 1
                    if a['post']:
                        self.ev.append('post:' + gid)
                eqs = [e for sub in top['subs'] for e in sub['eqs']]
                self.guarded(gid, a, lambda: self.repeat(a, eqs, parent_pass, gid))
        return self.ev


def kind_of(x):
    return x.split(':')[0] if x else 'end'


# --------------------------------------------------------------------------
# checking one (program, variant) against model and statement

def check_variant(R, prog, var, res, tag, model_out):
    case = {'prog': prog, 'variant': var}
    obs = render_observed(res['raw'])
    obs_c = canon(obs)
    # ---- L1: model vs implementation
    impl_line, spec_line = model_out
    wfclass = classify_wf(prog)
    if impl_line.startswith('bad-op') or spec_line.startswith('bad-op'):
        R.disagree(case, impl_line, 'driver rejected the case', 'driver')
        mod_impl = []
    else:
        mod_impl = strip_gid_nnps([] if impl_line == '_' else impl_line.split(' '))
        mod_spec = strip_gid_nnps([] if spec_line == '_' else spec_line.split(' '))
        if mod_impl != obs:
            if canon(mod_impl) == obs_c:
                R.note('neighbour order differs from the NNPS query (L2) in case %s' % tag)
                R.count('L2-neighbour-order')
            else:
                k = next((i for i, (x, y) in enumerate(zip(mod_impl, obs)) if x != y),
                         min(len(mod_impl), len(obs)))
                R.disagree(case, {'at': k, 'events': mod_impl[max(0, k - 3):k + 4],
                                  'len': len(mod_impl)},
                           {'at': k, 'events': obs[max(0, k - 3):k + 4], 'len': len(obs)},
                           'implTrace vs observed calls')
        if not wfclass and mod_spec != mod_impl:
            # the theorem says this cannot happen
            R.disagree(case, mod_spec[:20], mod_impl[:20],
                       'driver: specTrace != implTrace on a well-formed program')
    # ---- the property's own predicate on the real code
    for af in res['argfail']:
        R.prop_fail('C03:t-dt-arguments', case, 'callables receive compute\'s (t, dt)',
                    repr(af))
    if wfclass:
        R.count('oracle-skip:' + wfclass)
        if wfclass == 'min>max-or-max=0':
            passes = max([obs.count('cv:%d:0' % e['id']) + obs.count('cv:%d:1' % e['id'])
                          for e in all_eqs(prog)] + [0])
            R.count('excluded-point:min>max convergence queries observed: %d' % passes)
    else:
        sr = SpecRun(prog, var, res['snaps'])
        try:
            sr.run()
            err = None
        except IndexError as e:
            err = str(e)
        exp = sr.ev
        exp_c = canon(exp)
        if err or exp_c != obs_c:
            k = next((i for i, (x, y) in enumerate(zip(exp_c, obs_c)) if x != y),
                     min(len(exp_c), len(obs_c)))
            ek = kind_of(exp_c[k] if k < len(exp_c) else '')
            ok = kind_of(obs_c[k] if k < len(obs_c) else '')
            R.prop_fail(fail_key(prog, 'first-difference:expected-%s:observed-%s' % (ek, ok)), case,
                        {'at': k, 'documented': exp_c[max(0, k - 3):k + 4],
                         'n': len(exp_c), 'error': err},
                        {'at': k, 'observed': obs_c[max(0, k - 3):k + 4],
                         'n': len(obs_c)})
    if res.get('raised'):
        R.count('compute-raises')
        R.prop_fail(fail_key(prog, 'compute-raises'), case,
                    'compute(t, dt) makes the documented calls and returns',
                    {'exception': res['raised'], 'calls-made-before': obs_c[-6:],
                     'n': len(obs_c)})
    # ---- bookkeeping
    kinds = {kind_of(x) for x in obs}
    for kd in sorted(kinds):
        R.count('event:' + kd, sum(1 for x in obs if kind_of(x) == kd))
    R.count('programs:%s' % ('flat' if prog['flat'] else
                             'sub-groups' if any(t['kind'] == 'parent' for t in prog['tops'])
                             else 'groups'))
    R.count('domain:' + prog['domain'])
    R.count('group-names:' + names_class(prog))
    for label, gids in name_classes(prog).items():
        outs = {g: ('%s' % var['cond'][g]['rest']) for g in gids
                if g in var['cond'] and not var['cond'][g]['v']}
        if len(set(outs.values())) == 2:
            R.count('namesakes-with-conditions-of-different-outcome')
        if sum(1 for g, a in all_attrs(prog) if g in gids and
               (a['cond'] or a['pre'] or a['post'])) >= 2:
            R.count('namesakes-with-own-callables')
    R.count('narr:%d' % len(prog['arrays']))
    R.count('epochs:%d' % (len(res['snaps']) - 1))
    sizes0 = res['snaps'][0]['sizes']
    named0 = res['snaps'][0]['named']
    if any(na > nr for nr, na in sizes0):
        R.count('arrays-with-ghost-or-remote-particles',
                sum(1 for nr, na in sizes0 if na > nr))
    for gid, a, eqs in all_leaves(prog):
        if a['stop'] is None:
            continue
        for d in first_appearance([e['dest'] for e in eqs]):
            stop = a['stop'][1] if a['stop'][0] == 'n' else named0[d][a['stop'][1]]
            if stop > sizes0[d][0]:
                # the destinations selected by the explicit stop_idx include
                # ghost/remote particles
                R.count('dest-range:explicit-%s-stop-beyond-real:real=%d:%s' % (
                    'numeric' if a['stop'][0] == 'n' else 'named', a['real'],
                    'default-start' if a['start'] == ['n', 0] else 'with-start'))
    if not wfclass:
        for gi in backedge_tops(prog):
            R.count('iterated-group-entered-from-its-own-first-pair:%s' % (
                'passes>=2' if sr.passes.get(str(gi), 0) >= 2 else 'one-pass-or-skipped'))
    nontrivial = len(kinds) >= 4 and len(obs) >= 10
    sample = None
    if tag < 2:
        sample = {'program': prog, 'variant': {k: var[k] for k in ('cond', 'conv')},
                  'observed_head': obs[:25], 'model_head': mod_impl[:25]}
    R.case(json.dumps([prog, var], sort_keys=True), nontrivial, sample)
    R.d['traces_validated_against_impl'] += 1


def run_workers(items, work, nproc, timeout=600):
    """one subprocess per program (a crash or hang of generated code must not
    take the harness down), at most nproc at a time"""
    import subprocess
    pending = list(enumerate(items))
    running = {}
    outs = [None] * len(items)
    uid = '%d_%d' % (os.getpid(), int(time.time() * 1000) % 100000)
    while pending or running:
        while pending and len(running) < nproc:
            k, (p, vs) = pending.pop(0)
            tf = os.path.join(work, 'task_%s_%d.json' % (uid, k))
            of = os.path.join(work, 'out_%s_%d.json' % (uid, k))
            with open(tf, 'w') as fh:
                json.dump([k, p, vs, work], fh)
            lf = open(of + '.log', 'wb')
            pr = subprocess.Popen([sys.executable, os.path.abspath(__file__),
                                   '--worker-task', tf, '--worker-out', of],
                                  stdout=lf, stderr=subprocess.STDOUT,
                                  stdin=subprocess.DEVNULL)
            lf.close()
            running[k] = (pr, of, time.time())
        time.sleep(0.2)
        for k in list(running):
            pr, of, t0 = running[k]
            rc = pr.poll()
            if rc is None:
                if time.time() - t0 > timeout:
                    pr.kill()
                    outs[k] = {'idx': k, 'error': 'worker timed out (generated code hangs?)'}
                    del running[k]
                continue
            log = open(of + '.log', 'rb').read().decode(errors='replace')
            if rc == 97:
                try:
                    vi = int(open(os.path.join(work, 'progress_%d_%d' % (os.getpid(), k))).read())
                except (OSError, ValueError):
                    vi = 0
                outs[k] = {'idx': k, 'diverged': vi}
                del running[k]
                continue
            if rc == 0 and os.path.exists(of):
                outs[k] = json.load(open(of))
                if 'compile_error' in outs[k]:
                    m = log.find('Error compiling Cython file')
                    outs[k]['compile_error'] += ' | ' + (log[m:m + 1200] if m >= 0 else log[-1200:])
            else:
                outs[k] = {'idx': k, 'error': 'worker exit code %s: %s' % (rc, log[-3000:])}
            del running[k]
    return outs


def run_batch(R, items, work, nproc, tag0=0):
    """items: [(prog, [variants])]"""
    t0 = time.time()
    outs = run_workers(items, work, nproc)
    R.note('%d programs compiled and run in %.0fs (compile times %s)' % (
        len(items), time.time() - t0,
        ' '.join('%.0f' % o.get('t_compile', -1) for o in outs)))
    lines, index = [], []
    for o in outs:
        if 'error' in o:
            raise SystemExit('worker failed on program %d: %s' % (o['idx'], o['error']))
        prog, variants = items[o['idx']]
        if 'diverged' in o:
            R.count('does-not-terminate')
            R.prop_fail(fail_key(prog, 'evaluation-does-not-terminate'),
                        {'prog': prog, 'variant': variants[o['diverged']]},
                        'an iterated group runs at most max_iterations passes'
                        if not classify_wf(prog) else
                        'the scripted convergence ends the iteration',
                        'more than 200000 calls logged in one compute(): the generated '
                        'iteration loop does not terminate')
            R.case(json.dumps(prog, sort_keys=True), True, None)
            continue
        if 'compile_error' in o:
            # the generated module does not build: the evaluation cannot run at all
            R.count('does-not-compile')
            R.prop_fail(fail_key(prog, 'does-not-compile'),
                        {'prog': prog, 'variant': variants[0]},
                        'the program is generated, compiled and run in the documented order',
                        {'compile_error': o['compile_error']})
            R.case(json.dumps(prog, sort_keys=True), True, None)
            continue
        for vi, (var, res) in enumerate(zip(variants, o['results'])):
            ls = model_lines(prog, var, res['snaps'])
            index.append((prog, var, res, len(lines), len(ls)))
            lines += ls
    out = H.run_model('C03', lines)
    if len(out) != len(lines):
        raise SystemExit('model driver answered %d lines for %d' % (len(out), len(lines)))
    for k, (prog, var, res, at, n) in enumerate(index):
        seg = out[at:at + n]
        bad = [x for x in seg[:-2] if x != 'ok']
        mo = (seg[-2], seg[-1]) if not bad else ('bad-op ' + bad[0], 'bad-op')
        check_variant(R, prog, var, res, tag0 + k, mo)


# --------------------------------------------------------------------------
# corpus: hand-written programs, always run first (compile cache makes them
# cheap after the first run on a tree)

def E(i, dest, src, hooks, shift=0.0):
    return {'id': i, 'dest': dest, 'src': src, 'hooks': hooks.split(',') if hooks else [],
            'shift': shift}


def A(**kw):
    a = dict(DEFAULT_ATTRS)
    a.update(kw)
    return a


def corpus():
    allh = ','.join(HOOKS)
    progs = []
    # 1. flat list, two destinations interleaved, shared and distinct sources
    progs.append({'arrays': ['a0', 'a1'], 'domain': 'none', 'flat': True, 'tops': [
        {'kind': 'leaf', 'attrs': A(), 'eqs': [
            E(1, 1, [0, 1], allh), E(2, 0, [1], 'in,lp,pl'), E(3, 1, [1], 'ip,la,lp,rd'),
            E(4, 0, [], 'pi,in,lp,pl,rd'), E(5, 1, [0], 'lp')]}]})
    # 2. iterated group with min/max, ghost destinations, numeric and named ranges
    progs.append({'arrays': ['a0', 'a1'], 'domain': 'none', 'flat': False, 'tops': [
        {'kind': 'leaf', 'attrs': A(iter=True, min=2, max=4, pre=True, post=True),
         'eqs': [E(1, 0, [0, 1], 'in,lp,rd'), E(2, 1, [0], 'pi,pl')]},
        {'kind': 'leaf', 'attrs': A(real=False, start=['n', 2], cond=True),
         'eqs': [E(3, 0, [1], 'in,ip,lp')]},
        {'kind': 'leaf', 'attrs': A(start=['k', 0], stop=['k', 1]),
         'eqs': [E(4, 1, [1, 0], 'in,la,pl')]},
        {'kind': 'leaf', 'attrs': A(stop=['n', 3], real=False),
         'eqs': [E(5, 0, [0], 'in,lp')]}]})
    # 3. update_nnps with a dependent later group, periodic ghosts
    progs.append({'arrays': ['a0', 'a1'], 'domain': 'periodic', 'flat': False, 'tops': [
        {'kind': 'leaf', 'attrs': A(nnps=True, post=True),
         'eqs': [E(1, 1, [0], 'lp'), E(2, 0, [0, 1], 'in,lp,pl', 13 / GRID)]},
        {'kind': 'leaf', 'attrs': A(real=False),
         'eqs': [E(3, 0, [0, 1], 'la,lp'), E(4, 1, [0], 'in,lp,pl')]}]})
    # 4. sub-groups: own condition / pre / post / real / range, iterated parent
    progs.append({'arrays': ['a0', 'a1', 'a2'], 'domain': 'none', 'flat': False, 'tops': [
        {'kind': 'parent', 'attrs': A(iter=True, min=1, max=3, pre=True, post=True, cond=True),
         'subs': [
             {'attrs': A(cond=True, pre=True), 'eqs': [E(1, 0, [1], 'in,lp'), E(2, 2, [], 'lp,rd')]},
             {'attrs': A(real=False, start=['n', 1], post=True, nnps=True),
              'eqs': [E(3, 1, [0, 2], 'ip,lp,pl', 5 / GRID)]},
             {'attrs': A(stop=['k', 1], iter=True, min=2, max=3), 'eqs': [E(4, 2, [1], 'pi,la,rd')]}]},
        {'kind': 'leaf', 'attrs': A(), 'eqs': [E(5, 0, [1, 2], 'lp')]}]})
    # 5. a group with sub-groups whose condition is false: nothing of it may run
    progs.append({'arrays': ['a0', 'a1'], 'domain': 'none', 'flat': False,
                  'force': {'cond': {'0': {'v': [False, True], 'rest': False}}},
                  'tops': [
        {'kind': 'parent', 'attrs': A(cond=True, post=True, nnps=True),
         'subs': [
             {'attrs': A(), 'eqs': [E(1, 0, [1], 'in,lp')]},
             {'attrs': A(cond=True, real=False), 'eqs': [E(2, 1, [0], 'lp,pl', 3 / GRID)]}]},
        {'kind': 'leaf', 'attrs': A(pre=True), 'eqs': [E(3, 0, [0, 1], 'lp')]}]})
    # 6. iterated group with sub-groups, own pre/post, sub-group conditions
    progs.append({'arrays': ['a0'], 'domain': 'none', 'flat': False, 'tops': [
        {'kind': 'parent', 'attrs': A(iter=True, min=2, max=3, pre=True, post=True),
         'subs': [
             {'attrs': A(cond=True), 'eqs': [E(1, 0, [0], 'in,lp')]},
             {'attrs': A(pre=True, post=True), 'eqs': [E(2, 0, [], 'lp,rd')]}]}]})
    # 7. (minimised from a seeded defect) explicit stop_idx beyond the number of
    # real particles: N = stop_idx whatever `real` says; ghost (a0) and remote
    # (a1) destinations, numeric and named stops, with and without start_idx
    progs.append({'arrays': ['a0', 'a1'], 'domain': 'none', 'flat': False,
                  'force': {'arrays': [
                      {'x': [0 / GRID, 5 / GRID, 9 / GRID, 14 / GRID],
                       'gx': [18 / GRID, 22 / GRID], 'gt': [2, 2], 'c': [2, 5]},
                      {'x': [2 / GRID, 11 / GRID, 20 / GRID],
                       'gx': [7 / GRID, 16 / GRID, 25 / GRID], 'gt': [1, 1, 2], 'c': [1, 6]}]},
                  'tops': [
        {'kind': 'leaf', 'attrs': A(stop=['n', 6]),
         'eqs': [E(1, 0, [0], 'in,lp,pl')]},
        {'kind': 'leaf', 'attrs': A(start=['k', 0], stop=['k', 1]),
         'eqs': [E(2, 0, [1], 'in,ip,la'), E(3, 1, [0], 'in,lp,pl')]},
        {'kind': 'leaf', 'attrs': A(real=False, stop=['n', 6]),
         'eqs': [E(4, 1, [1], 'in,lp')]},
        {'kind': 'leaf', 'attrs': A(start=['n', 1], stop=['n', 5]),
         'eqs': [E(5, 0, [], 'in,lp,pl'), E(6, 1, [0, 1], 'la')]},
        {'kind': 'leaf', 'attrs': A(real=False, start=['k', 0], stop=['k', 1]),
         'eqs': [E(7, 0, [0], 'in,pl')]},
        {'kind': 'parent', 'attrs': A(), 'subs': [
            {'attrs': A(stop=['k', 1]), 'eqs': [E(8, 1, [0], 'in,lp')]},
            {'attrs': A(start=['n', 3], stop=['n', 6]), 'eqs': [E(9, 0, [1], 'ip,pl')]}]}]})
    # 8. (minimised from a seeded defect) the neighbours iterated on the second
    # and later passes of an iterated group: the group before ends on the pair
    # (a0 <- a0) the body starts with, the body ends on (a0 <- a1)
    progs.append({'arrays': ['a0', 'a1'], 'domain': 'none', 'flat': False,
                  'force': {'arrays': [
                      {'x': [0 / GRID, 6 / GRID, 12 / GRID, 18 / GRID, 24 / GRID],
                       'gx': [], 'gt': [], 'c': [0, 5]},
                      {'x': [3 / GRID, 21 / GRID], 'gx': [], 'gt': [], 'c': [0, 2]}]},
                  'tops': [
        {'kind': 'leaf', 'attrs': A(), 'eqs': [E(1, 0, [0], 'lp')]},
        {'kind': 'leaf', 'attrs': A(iter=True, min=2, max=3),
         'eqs': [E(2, 0, [0], 'in,lp'), E(3, 0, [1], 'lp')]}]})
    # 9. the same through sub-groups and loop_all, two destinations
    progs.append({'arrays': ['a0', 'a1'], 'domain': 'none', 'flat': False,
                  'force': {'conv': {'3': {'v': [False], 'rest': True}}, 'arrays': [
                      {'x': [0 / GRID, 6 / GRID, 12 / GRID, 18 / GRID],
                       'gx': [27 / GRID], 'gt': [2], 'c': [0, 4]},
                      {'x': [3 / GRID, 9 / GRID, 21 / GRID], 'gx': [], 'gt': [], 'c': [0, 3]}]},
                  'tops': [
        {'kind': 'leaf', 'attrs': A(pre=True), 'eqs': [E(1, 0, [], 'in'), E(2, 1, [0], 'la')]},
        {'kind': 'parent', 'attrs': A(iter=True, min=0, max=3, post=True), 'subs': [
            {'attrs': A(), 'eqs': [E(3, 1, [0], 'la,lp')]},
            {'attrs': A(real=False), 'eqs': [E(4, 0, [1], 'lp,pl'), E(5, 1, [1], 'la')]}]}]})
    # 10. (minimised from a seeded defect) groups that share a user-given name:
    # two top-level groups called 'density' (first condition False, second True),
    # two sub-groups called 'correct' in one parent (first True, second False),
    # and the labels re-used across levels ('correct' on a top-level group,
    # 'density' on a sub-group of another parent): each group keeps its OWN
    # condition / pre / post
    progs.append({'arrays': ['a0'], 'domain': 'none', 'flat': False,
                  'force': {'cond': {'0': {'v': [], 'rest': False},
                                     '1': {'v': [], 'rest': True},
                                     '2.0': {'v': [], 'rest': True},
                                     '2.1': {'v': [], 'rest': False},
                                     '3.0': {'v': [], 'rest': True},
                                     '3.1': {'v': [], 'rest': False}},
                            'arrays': [{'x': [0 / GRID, 6 / GRID, 12 / GRID],
                                        'gx': [], 'gt': [], 'c': [0, 3]}]},
                  'tops': [
        {'kind': 'leaf', 'attrs': A(name='density', cond=True, pre=True, post=True),
         'eqs': [E(1, 0, [], 'in')]},
        {'kind': 'leaf', 'attrs': A(name='density', cond=True, pre=True, post=True),
         'eqs': [E(2, 0, [0], 'in,lp')]},
        {'kind': 'parent', 'attrs': A(name='outer', pre=True, post=True), 'subs': [
            {'attrs': A(name='correct', cond=True, pre=True, post=True),
             'eqs': [E(3, 0, [], 'in,pl')]},
            {'attrs': A(name='correct', cond=True, pre=True, post=True),
             'eqs': [E(4, 0, [], 'in,rd')]}]},
        {'kind': 'parent', 'attrs': A(name='correct', post=True), 'subs': [
            {'attrs': A(name='density', cond=True, post=True), 'eqs': [E(5, 0, [0], 'lp')]},
            {'attrs': A(name='outer', cond=True, pre=True), 'eqs': [E(6, 0, [], 'in')]}]}]})
    return progs


def corpus_excluded():
    """points excluded by Program.WF: the statement does not say what happens;
    the model must still reproduce the code"""
    progs = []
    progs.append({'arrays': ['a0'], 'domain': 'none', 'flat': False, 'tops': [
        {'kind': 'leaf', 'attrs': A(iter=True, min=3, max=2),
         'eqs': [E(1, 0, [0], 'in,lp')]},
        {'kind': 'leaf', 'attrs': A(pre=True, post=True, cond=True), 'eqs': []},
        {'kind': 'leaf', 'attrs': A(), 'eqs': [E(2, 0, [0, 0], 'ip,lp')]}]})
    return progs


def main():
    if '--worker-task' in sys.argv:
        tf = sys.argv[sys.argv.index('--worker-task') + 1]
        of = sys.argv[sys.argv.index('--worker-out') + 1]
        k, p, vs, work = json.load(open(tf))
        sys.path.insert(0, work)
        o = worker((k, p, vs, work))
        with open(of, 'w') as fh:
            json.dump(o, fh)
        sys.exit(0)
    a = H.args()
    R = H.Result(
        'case = (program, oracle variant): program = flat list / groups / one level of '
        'sub-groups over 1-3 arrays (hand-made ghost/remote particles or periodic ghosts), 1-4 '
        'equations per group with random hook subsets, real, numeric and named start/stop '
        '(explicit stops also beyond the number of real particles), iterate/min/max, '
        'condition, pre/post, update_nnps followed by dependent groups, iterated groups '
        'entered from a group that ends on the pair their body starts with, explicit group '
        'names (none / unique / the SAME name on several top-level groups and sub-groups, each '
        'with its own condition/pre/post, conditions of different outcome); variant = particle '
        'positions/counts, named values, scripted condition/convergence outcomes; one '
        'compute(t, dt) per case through the real compiled pipeline; distinct = distinct '
        'case JSON; non-trivial = at least 4 kinds of events and at least 10 calls observed')
    os.makedirs(a.work, exist_ok=True)
    with open(os.path.join(a.work, 'c03h.py'), 'w') as fh:
        fh.write(C03H)
    sys.path.insert(0, a.work)
    nproc = int(os.environ.get('C03_PROCS', '8'))
    if a.replay:
        rp = json.load(open(a.replay))
        case = rp['case']
        run_batch(R, [(case['prog'], [case['variant']])], a.work, 1)
        for f in R.d['property_failures'][:3]:
            print('key     :', f['key'])
            print('demand  :', json.dumps(f['demand'])[:1500])
            print('observed:', json.dumps(f['observed'])[:1500])
        for dgr in R.d['disagreements'][:2]:
            print('model   :', json.dumps(dgr['model'])[:800])
            print('impl    :', json.dumps(dgr['impl'])[:800])
        print('replay: %d property failure(s) on the real code' % len(R.d['property_failures']))
        sys.exit(1 if R.d['property_failures'] else 0)
    rng = random.Random(a.seed * 7919 + 303)
    quick = a.tier == 'quick'
    nrand = 8 if quick else 150
    nvar = 5 if quick else 8
    items = []
    for p in corpus() + corpus_excluded():
        items.append((p, [gen_variant(rng, p, first=(k == 0)) for k in range(nvar)]))
    R.count('corpus-programs', len(items))
    for k in range(nrand):
        # every run has at least one program of the iterated-back-edge shape
        # and at least one whose groups / sub-groups share explicit names
        if k % 8 == 0:
            p = gen_program(rng, 'chain')
        elif k % 8 == 1:
            p = gen_program(rng, 'mixed', names='shared')
        else:
            p = gen_program(rng)
        items.append((p, [gen_variant(rng, p) for _ in range(nvar)]))
    R.count('random-programs', nrand)
    chunk = 40
    for c in range(0, len(items), chunk):
        run_batch(R, items[c:c + chunk], a.work, nproc, tag0=c)
    if a.broken or R.d['disagreements']:
        # failing-input search on the real code: more programs, every one
        # checked against the statement (check_variant does that)
        rng2 = random.Random(a.seed + 4242)
        extra = []
        for k in range(16):
            p = gen_program(rng2, 'chain') if k % 4 == 0 else \
                gen_program(rng2, 'mixed', names='shared') if k % 4 == 1 else \
                gen_program(rng2)
            extra.append((p, [gen_variant(rng2, p) for _ in range(nvar)]))
        run_batch(R, extra, a.work, nproc, tag0=1000)
        R.d['search'] = {'extra_programs': len(extra),
                         'found': len(R.d['property_failures'])}
    R.write(a.out)


# helper module imported by the tracer classes (py_initialize is a pure Python
# hook; it logs through the compiled module's log)
C03H = '''
MOD = None
STATE = None
SPY_ON = False
SNAPS = []
IN_SNAPSHOT = False
LAST_CTX = None


def py_event(a, b, c, d, e, f, t, dt, dst):
    MOD.c03_put(a, b, c, d, e, f)
    if (t, dt) != (STATE['t'], STATE['dt']):
        STATE['argfail'].append(('py_initialize', a, t, dt))
    if STATE['pas'].get(id(dst)) != c:
        STATE['argfail'].append(('py_initialize-dst', a, c))
'''


if __name__ == '__main__':
    main()
