"""C12 tie + property oracle: every shipped scheme yields a complete,
generatable simulation.

impl : the scratch build of /repo: Scheme.configure / configure_solver /
       setup_properties / get_equations on plain particle arrays, then the
       real fail-fast checkers (acceleration_eval.AccelerationEval ->
       check_equation_array_properties; sph_compiler.SPHCompiler ->
       IntegratorCythonHelper checks), real code generation, and for a sample
       real compilation + 2 time steps.
model: lean PysphVerif.Model.SchemeNeeds over the table Gen/Schemes.lean that
       translate/schemes2tables.py re-extracted from the same tree just before
       (driver model_c12, `point <Scheme> <index>`).

Three things are checked:
 (a) table = code: for grid points (quick: a seeded stratified sample, all
     points of the small grids; thorough: every point) the configuration is
     run again here and described with the REAL code's own functions
     (`Group([eq]).get_array_names()`, `get_array_names(getfullargspec(...))`,
     array property dicts); the model's decoded answer for that grid point --
     arrays, equations with computed needs, steppers, accepted/complete
     verdicts -- must be identical.  Disagreement = broken tie.
 (b) property oracle, independent of model and table: for EVERY grid point the
     real AccelerationEval construction (which runs the real property checker)
     and the integrator helper's checks must not raise; for a sample (thorough:
     every distinct outcome) the whole code generation must succeed.  A raise is
     a property failure with the concrete configuration as replay.
 (c) execution: a stratified sample is compiled and run for 2 steps with
     output enabled; every float property must stay finite.
 (d) types: for EVERY grid point the known C types the real code generator is
     given (get_known_types_for_arrays(get_all_array_names(arrays))) must be
     integer pointers for every array argument an element of which an equation
     or stepper uses as an index; and for a stratified sample that covers every
     scheme and every pair of option values (every value at least once) the
     generated source is put through the real Cython translation step
     (pyx -> C++, no C compiler), set up as compyle's ExtModule does.  A Cython
     error is a property failure `C12:<Scheme>:cython:<first error>`.
"""
import contextlib
import io
import json
import multiprocessing as mp
import os
import random
import sys
import time
import traceback

import hcommon as H

H.assert_scratch_import()
sys.path.insert(0, os.path.join(os.path.dirname(os.path.abspath(__file__)),
                                '..', 'translate'))
import schemes2tables as S  # noqa: E402


# --------------------------------------------------------------------------
# describing one grid point with the real code's own functions

def _names(xs):
    xs = sorted(xs)
    return ','.join(xs) if xs else '_'


def real_description(name, digits, scheme, particles, equations):
    """canonical line, same format as the driver's `point` answer"""
    from pysph.sph.equation import Group, get_array_names
    from inspect import getfullargspec
    labels = ','.join('%s=%s' % kv for kv in S.describe(name, digits).items())
    parts = ['labels:' + labels]
    have = {}
    for pa in particles:
        have[pa.name] = set(pa.properties.keys()) | set(pa.constants.keys())
        parts.append('arr:%s:%s' % (pa.name, _names(have[pa.name])))
    # C types / strides straight from the carrays of the real arrays
    ctype = {}
    for pa in particles:
        ty = {}
        for coll in (pa.properties, pa.constants):
            for n, arr in coll.items():
                ty[n] = arr.get_c_type()
        ctype[pa.name] = ty
        strides = sorted((n, int(sd)) for n, sd in pa.stride.items()
                         if n in ty and int(sd) != 1)
        parts.append('ty:%s:int=%s;uint=%s;long=%s;float=%s;strides=%s' % (
            pa.name,
            _names(n for n, c in ty.items() if c == 'int'),
            _names(n for n, c in ty.items() if c == 'unsigned int'),
            _names(n for n, c in ty.items() if c == 'long'),
            _names(n for n, c in ty.items() if c == 'float'),
            ','.join('%s*%d' % x for x in strides) if strides else '_'))
        other = set(ty.values()) - set(S.CTYPES)
        if other:
            raise RuntimeError('C types outside the model: %s' % other)
    index_used = set()
    complete = True
    missing = []
    for st in S.flatten_groups(equations):
        for _, eq in st:
            src, dst = Group([eq]).get_array_names()
            nd = set(x[2:] for x in dst)
            ns = set(x[2:] for x in src)
            imp = set()
            for h in S.IMPLICIT_EQ:
                if hasattr(eq, h):
                    imp |= set(S.implicit_reads(type(eq), h))
            if eq.sources is None:
                srcs = '-'
            elif len(eq.sources) == 0:
                srcs = '_'
            else:
                srcs = '+'.join(s if s in have else '!invalid'
                                for s in eq.sources)
            dname = eq.dest if eq.dest in have else '!invalid'
            ix = set()
            for h in S.HOOKS:
                if getattr(eq, h, None) is not None:
                    ix |= set(S.index_uses(type(eq), h))
            ixd = set(x[2:] for x in ix if x.startswith('d_'))
            ixs = set(x[2:] for x in ix if x.startswith('s_'))
            index_used |= ixd | ixs
            parts.append('eq:%s:%s:%s:%s:%s:%s:%s:%s' % (
                type(eq).__name__, dname, srcs, _names(nd), _names(ns),
                _names(imp), _names(ixd), _names(ixs)))
            if eq.dest not in have:
                complete = False
                missing.append((type(eq).__name__, eq.dest, ['<no such array>']))
            else:
                m = (nd | imp) - have[eq.dest]
                if m:
                    complete = False
                    missing.append((type(eq).__name__, eq.dest, sorted(m)))
            for s in (eq.sources or []):
                if s not in have:
                    complete = False
                    missing.append((type(eq).__name__, s, ['<no such array>']))
                else:
                    m = ns - have[s]
                    if m:
                        complete = False
                        missing.append((type(eq).__name__, s, sorted(m)))
    integ = scheme.get_solver().integrator
    for arr, stp in integ.steppers.items():
        need = set()
        imp = set()
        six = set()
        for x in dir(stp):
            if x.startswith('py_stage'):
                imp |= set(S.implicit_reads(type(stp), x))
            elif x.startswith('stage') or x == 'initialize':
                s, d = get_array_names(getfullargspec(getattr(stp, x)).args)
                need |= set(y[2:] for y in (s | d))
                six |= set(y[2:] for y in S.index_uses(type(stp), x))
        index_used |= six
        parts.append('st:%s:%s:%s:%s:%s' % (
            type(stp).__name__, arr if arr in have else '!invalid',
            _names(need), _names(imp), _names(six)))
        if arr not in have:
            complete = False
            missing.append((type(stp).__name__, arr, ['<no such array>']))
        else:
            m = (need | imp) - have[arr]
            if m:
                complete = False
                missing.append((type(stp).__name__, arr, sorted(m)))
    # the model's type verdict, evaluated here on the real arrays' carrays:
    # index-used names are an integer property somewhere, a floating one nowhere
    typesok = True
    for n in index_used:
        cts = [ty[n] for ty in ctype.values() if n in ty]
        if not any(c in S.INTEGRAL_CTYPES for c in cts) or \
                any(c not in S.INTEGRAL_CTYPES for c in cts):
            typesok = False
    return parts, complete, missing, typesok


def index_type_failures(scheme, particles, equations):
    """property oracle for the types, on the real code generator's own view:
    get_known_types_for_arrays(get_all_array_names(arrays)) is what
    AccelerationEvalCythonHelper hands to compyle; an argument without a known
    type is `double*` (CythonGenerator.detect_type).  -> [(class, method,
    argument, c type)] for the arguments an element of which is used as an
    index while the known type is not an integer pointer"""
    from pysph.sph.acceleration_eval_cython_helper import (
        get_all_array_names, get_known_types_for_arrays)
    known = get_known_types_for_arrays(get_all_array_names(particles))
    okt = set(c + '*' for c in S.INTEGRAL_CTYPES)
    bad = []

    def chk(obj, meths):
        for h in meths:
            for arg in S.index_uses(type(obj), h):
                kt = known[arg].type if arg in known else 'double*'
                if kt not in okt:
                    bad.append((type(obj).__name__, h, arg, kt))
    for st in S.flatten_groups(equations):
        for _, eq in st:
            chk(eq, [h for h in S.HOOKS if getattr(eq, h, None) is not None])
    for arr, stp in scheme.get_solver().integrator.steppers.items():
        chk(stp, [x for x in dir(stp) if (x.startswith('stage') or
                                          x == 'initialize')])
    return sorted(set(bad))


def real_checkers(scheme, particles, equations, codegen):
    """run the real fail-fast checks (and optionally the whole code
    generation); returns None or (stage, exception type, message)"""
    from pysph.sph.acceleration_eval import make_acceleration_evals
    from pysph.sph.sph_compiler import SPHCompiler
    solver = scheme.get_solver()
    try:
        aevals = make_acceleration_evals(particles, equations, solver.kernel)
    except Exception as e:
        return ('AccelerationEval', type(e).__name__, str(e)[:400])
    try:
        comp = SPHCompiler(aevals, solver.integrator)
        ih = comp.integrator_helper
        if codegen:
            code = comp._get_code()
            for h in comp.acceleration_eval_helpers[1:]:
                code += h.get_code()
            if len(code) < 1000:
                return ('codegen', 'short', 'generated %d chars' % len(code))
        else:
            for m in ih.get_stepper_method_wrapper_names():
                ih.get_array_declarations(m)
    except Exception as e:
        return ('SPHCompiler', type(e).__name__, str(e)[:400])
    return None


def key_of(name, missing, fail):
    if missing:
        cls, arr, names = missing[0]
        return 'C12:%s:%s:%s.%s' % (name, cls, arr, '+'.join(names))
    if fail:
        return 'C12:%s:%s:%s' % (name, fail[0], fail[1])
    return 'C12:%s:unknown' % name


def examine(job):
    """worker: one grid point on the real code"""
    name, idx, codegen, describe_it = job
    digits = S.config_of_index(name, idx)
    out = {'scheme': name, 'index': idx, 'digits': digits,
           'labels': dict(S.describe(name, digits))}
    buf = io.StringIO()
    try:
        with contextlib.redirect_stdout(buf):
            scheme, particles, equations = S.run_scheme(name, digits)
    except Exception as e:
        opts = S.config_values(name, digits)[0]
        out['raised'] = (type(e).__name__, str(e)[:300])
        out['declared_rejection'] = bool(S.SPECS[name]['rejects'](opts)) \
            and isinstance(e, ValueError)
        return out
    try:
        with contextlib.redirect_stdout(buf):
            fail = real_checkers(scheme, particles, equations, codegen)
            tbad = index_type_failures(scheme, particles, equations)
            if describe_it or fail is not None:
                parts, complete, missing, typesok = real_description(
                    name, digits, scheme, particles, equations)
            else:
                # the real checkers accepted; the full description (and the
                # dst.<name> reads) is evaluated on the compared points
                parts, complete, missing, typesok = [], True, [], None
    except Exception as e:
        out['harness_error'] = traceback.format_exc()[-800:]
        return out
    out['complete'] = complete
    out['missing'] = missing
    out['fail'] = fail
    out['accepted'] = fail is None
    out['type_failures'] = tbad
    out['classes'] = sorted(
        set(type(eq).__name__ for st in S.flatten_groups(equations)
            for _, eq in st) |
        set(type(x).__name__
            for x in scheme.get_solver().integrator.steppers.values()))
    if describe_it:
        out['line'] = '|'.join(parts + [
            'accepted:%s' % ('T' if fail is None else 'F'),
            'complete:%s' % ('T' if complete else 'F'),
            'typesok:%s' % ('T' if typesok else 'F')])
    out['neq'] = sum(1 for p in parts if p.startswith('eq:'))
    return out


# --------------------------------------------------------------------------
# compile + run

# schemes whose 2-step run on the small free-standing lattice block used here
# diverges on the UNCHANGED tree (blow-up of the pressure iteration, not a
# missing property): finiteness is recorded but not demanded for them
FINITE_NOT_DEMANDED = {
    'PCISPHScheme': 'pressure-correction iteration diverges on an unconfined '
                    '5x5 block with dt=1e-4',
}

def init_values(particles):
    """physically harmless starting values for the properties set-up added"""
    import numpy as np
    for pa in particles:
        n = pa.get_number_of_particles()
        if n == 0:
            continue
        if 'e' in pa.properties:
            pa.e[:] = 1.0
        if 'cs' in pa.properties:
            pa.cs[:] = 1.0
        if 'rho0' in pa.properties and len(pa.rho0) == n:
            pa.rho0[:] = pa.rho
        if 'h0' in pa.properties and len(pa.h0) == n:
            pa.h0[:] = pa.h
        if 'V' in pa.properties:
            pa.V[:] = pa.rho / pa.m
        if 'n' in pa.properties and len(pa.n) == n:
            pa.n[:] = pa.rho / pa.m
        for nm in ('xn', 'yn', 'zn'):
            if nm in pa.properties:
                getattr(pa, nm)[:] = 1.0 if nm == 'yn' else 0.0


def run_job(job):
    """worker: compile one grid point for real and run 2 steps"""
    name, idx, work = job
    digits = S.config_of_index(name, idx)
    out = {'scheme': name, 'index': idx, 'digits': digits,
           'labels': dict(S.describe(name, digits))}
    import numpy as np
    t0 = time.time()
    buf = io.StringIO()
    try:
        with contextlib.redirect_stdout(buf), contextlib.redirect_stderr(buf):
            scheme, particles, equations = S.run_scheme(
                name, digits, patch_evaluator=False)
            init_values(particles)
            solver = scheme.get_solver()
            from pysph.base.nnps import LinkedListNNPS
            kernel = solver.kernel
            nnps = LinkedListNNPS(dim=solver.dim, particles=particles,
                                  radius_scale=kernel.radius_scale)
            solver.set_parallel_manager(None)
            solver.setup(particles, equations, nnps, kernel)
            d = os.path.join(work, 'out_%s_%d' % (name, idx))
            os.makedirs(d, exist_ok=True)
            solver.set_output_directory(d)
            solver.set_output_fname('run')
            solver.set_print_freq(1)
            solver.set_max_steps(2)
            solver.solve(show_progress=False)
    except (Exception, SystemExit) as e:   # compyle ends a failed build with sys.exit(1)
        out['error'] = (type(e).__name__, str(e)[:500],
                        traceback.format_exc()[-1200:])
        out['wall'] = time.time() - t0
        return out
    bad = []
    for pa in particles:
        for p, arr in pa.properties.items():
            a = arr.get_npy_array()
            if a.dtype.kind == 'f' and a.size and not np.isfinite(a).all():
                bad.append('%s.%s' % (pa.name, p))
    out['nonfinite'] = sorted(bad)
    out['steps'] = int(solver.count)
    out['dumps'] = len([f for f in os.listdir(d)]) if os.path.isdir(d) else 0
    out['wall'] = time.time() - t0
    return out


# --------------------------------------------------------------------------
# code generation + the Cython translation step (no C compiler)

def cythonize_source(code, workdir):
    """pyx -> C++ by Cython alone, with the extension set up the way
    compyle.ext_module.ExtModule.build does for the generated module
    (language c++, numpy include, the pysph root on the cython include path;
    pyxbuild would next hand the .cpp to the C++ compiler, which is what the
    full runs do).  The verdict per distinct source text is cached in
    `workdir`.  -> (ok, first error line, excerpt)"""
    import hashlib
    import re
    name = 'm_' + hashlib.md5(code.encode()).hexdigest()
    os.makedirs(workdir, exist_ok=True)
    resf = os.path.join(workdir, name + '.json')
    if os.path.exists(resf):
        try:
            return tuple(json.load(open(resf))) + (True,)
        except ValueError:
            pass
    ok, text = _run_cython(code, workdir, name)
    first, excerpt = '', ''
    if not ok:
        # (warnings have the same shape, prefixed with "warning: ")
        m = re.search(r'^(?!warning:)[^\n]*\.pyx:\d+:\d+: (.*)$', text, re.M)
        lines = [l for l in text.split('\n') if l.strip()]
        first = m.group(1).strip() if m else (lines[-1] if lines else '?')
        k = text.find('Error compiling Cython file')
        excerpt = text[k:k + 900] if k >= 0 else text[-900:]
    tmp = resf + '.%d' % os.getpid()
    with open(tmp, 'w') as fh:
        json.dump([ok, first, excerpt], fh)
    os.replace(tmp, resf)
    return ok, first, excerpt, False


def _run_cython(code, workdir, tag):
    """-> (ok, all output) of Cython on `code`"""
    from Cython.Build import cythonize
    from Cython.Distutils import Extension
    import numpy
    import pysph
    os.makedirs(workdir, exist_ok=True)
    pyx = os.path.join(workdir, '%s_%d.pyx' % (tag, os.getpid()))
    with open(pyx, 'w') as fh:
        fh.write(code)
    root = os.path.dirname(os.path.dirname(os.path.realpath(pysph.__file__)))
    ext = Extension(name=tag, sources=[pyx],
                    include_dirs=[numpy.get_include()],
                    cython_include_dirs=[root], language='c++')
    err = io.StringIO()
    ok = True
    try:
        with contextlib.redirect_stderr(err), contextlib.redirect_stdout(err):
            cythonize([ext], force=True, quiet=True, nthreads=0,
                      include_path=[root],
                      build_dir=os.path.join(workdir, 'b%d' % os.getpid()))
    except (Exception, SystemExit) as e:    # CompileError
        ok = False
        err.write('\n%s: %s' % (type(e).__name__, e))
    for f in (pyx, pyx[:-4] + '.cpp'):
        try:
            os.remove(f)
        except OSError:
            pass
    return ok, err.getvalue()


_INT_NEEDED = ("Cannot assign type 'double' to '", "Invalid index type 'double'")


def scan_job(job):
    """worker: validate the translator's index-use scan against Cython's own
    type checker.  The real code generator is run for one grid point with
    EVERY array argument declared `double*` (known types overridden); Cython
    then flags exactly the places where an element of an array argument must
    be an integer.  Per wrapper class and method the flagged lines must be
    explained by the scan (some array subscripted on the line is in the
    scan's answer) and every name the scan reports must be on a flagged
    line."""
    import re
    name, idx, work = job
    digits = S.config_of_index(name, idx)
    out = {'scheme': name, 'index': idx, 'digits': digits,
           'labels': dict(S.describe(name, digits)), 'problems': [],
           'classes': []}
    buf = io.StringIO()
    try:
        with contextlib.redirect_stdout(buf), contextlib.redirect_stderr(buf):
            scheme, particles, equations = S.run_scheme(name, digits)
            from pysph.sph.acceleration_eval import make_acceleration_evals
            from pysph.sph.sph_compiler import SPHCompiler
            from compyle.cython_generator import KnownType
            solver = scheme.get_solver()
            aevals = make_acceleration_evals(particles, equations,
                                             solver.kernel)
            comp = SPHCompiler(aevals, solver.integrator)
            for h in comp.acceleration_eval_helpers:
                h.known_types = {k: KnownType('double*')
                                 for k in h.known_types}
            codes = [comp._get_code()] + [
                h.get_code() for h in comp.acceleration_eval_helpers[1:]]
    except Exception as e:
        out['error'] = (type(e).__name__, str(e)[:400])
        return out
    scan = {}
    objs = [eq for st in S.flatten_groups(equations) for _, eq in st]
    for eq in objs:
        for h in S.HOOKS:
            if getattr(eq, h, None) is not None:
                scan.setdefault((type(eq).__name__, h), set()).update(
                    S.index_uses(type(eq), h))
    for stp in solver.integrator.steppers.values():
        for x in dir(stp):
            if x.startswith('stage') or x == 'initialize':
                scan.setdefault((type(stp).__name__, x), set()).update(
                    S.index_uses(type(stp), x))
    known_cls = set(c for c, _ in scan)
    flagged = {}
    for k, code in enumerate(codes):
        ok, text = _run_cython(code, os.path.join(work, 'cython'),
                               'mut%d_%d' % (idx, k))
        lines = code.split('\n')
        for m in re.finditer(r'^(?!warning:)[^\n]*\.pyx:(\d+):(\d+): (.*)$',
                             text, re.M):
            ln, msg = int(m.group(1)), m.group(3).strip()
            cls = meth = None
            for j in range(ln - 1, -1, -1):
                mm = re.match(r'\s+cdef inline [\w \*]+? (\w+)\(', lines[j])
                if mm and meth is None:
                    meth = mm.group(1)
                mm = re.match(r'cdef class (\w+)', lines[j])
                if mm:
                    cls = mm.group(1)
                    break
            if cls not in known_cls or meth is None:
                continue        # the module's own d_x = dst.x.data lines
            src = lines[ln - 1]
            names = set(re.findall(r'\b([ds]_\w+)\s*\[', src)) - \
                {'d_idx', 's_idx'}
            if not msg.startswith(_INT_NEEDED):
                out['problems'].append(
                    ('unmodelled-constraint', cls, meth, msg, src.strip()))
                continue
            flagged.setdefault((cls, meth), []).append(names)
            if not (names & scan.get((cls, meth), set())):
                out['problems'].append(
                    ('missed-by-scan', cls, meth, msg, src.strip()))
    for (cls, meth), names in scan.items():
        for n in names:
            if not any(n in fl for fl in flagged.get((cls, meth), [])):
                out['problems'].append(
                    ('not-confirmed-by-cython', cls, meth, n, ''))
    out['classes'] = sorted(known_cls)
    out['with_index_use'] = sorted('%s.%s' % k for k, v in scan.items() if v)
    return out


def pool_job(job):
    return scan_job(job[1:]) if job[0] == 'scan' else cython_job(job[1:])


def class_cover(results, bad, rng):
    """a few grid points whose equation / stepper classes cover every class
    that occurs at any (non-failing) grid point.  Greedy set cover."""
    by_set = {}
    for o in results:
        if 'classes' in o and (o['scheme'], o['index']) not in bad:
            by_set.setdefault(frozenset(o['classes']), []).append(
                (o['scheme'], o['index']))
    need = set().union(*by_set) if by_set else set()
    chosen = []
    while need:
        best = max(sorted(by_set, key=sorted), key=lambda c: len(c & need))
        chosen.append(rng.choice(sorted(by_set[best])))
        need -= best
    return chosen


def cython_job(job):
    """worker: real code generation of the whole problem + Cython translation
    of every generated module of one grid point"""
    name, idx, work = job
    digits = S.config_of_index(name, idx)
    out = {'scheme': name, 'index': idx, 'digits': digits,
           'labels': dict(S.describe(name, digits)), 'modules': 0,
           'cached': 0}
    t0 = time.time()
    buf = io.StringIO()
    try:
        with contextlib.redirect_stdout(buf), contextlib.redirect_stderr(buf):
            scheme, particles, equations = S.run_scheme(name, digits)
            from pysph.sph.acceleration_eval import make_acceleration_evals
            from pysph.sph.sph_compiler import SPHCompiler
            solver = scheme.get_solver()
            aevals = make_acceleration_evals(particles, equations,
                                             solver.kernel)
            comp = SPHCompiler(aevals, solver.integrator)
            codes = [comp._get_code()] + [
                h.get_code() for h in comp.acceleration_eval_helpers[1:]]
    except Exception as e:
        out['codegen_error'] = (type(e).__name__, str(e)[:400])
        out['wall'] = time.time() - t0
        return out
    out['lines'] = sum(c.count('\n') for c in codes)
    for code in codes:
        ok, first, excerpt, cached = cythonize_source(
            code, os.path.join(work, 'cython'))
        out['modules'] += 1
        out['cached'] += 1 if cached else 0
        if not ok:
            out['cython_error'] = (first, excerpt)
            break
    out['wall'] = time.time() - t0
    return out


def _pairs(dg, small):
    """(axis, value, axis, value) for every pair of `small` axes, and
    (axis, value, axis, value) with the axis twice for every single axis"""
    return {(i, dg[i], j, dg[j]) for i in small for j in small if i < j} | \
        {(i, dg[i], i, dg[i]) for i in range(len(dg))}


def cython_sample(name, rng, valid):
    """a small set of the grid points in `valid` (those that the scheme does
    not reject and that pass the checkers) covering every value of every axis
    (bool / enumerated option, dim, solids, clean) that occurs in `valid` at
    all, and every PAIR of values of the axes with at most 3 values (an axis
    like GSPH's 11 Riemann solvers is covered value by value).  Greedy."""
    valid = sorted(valid)
    if not valid:
        return []
    small = [k for k, (_, vals) in enumerate(S.grid_axes(name))
             if len(vals) <= 3]
    digs = {i: S.config_of_index(name, i) for i in valid}
    need = set()
    for dg in digs.values():
        need |= _pairs(dg, small)
    chosen = []
    while need:
        cand = rng.sample(valid, min(len(valid), 40))
        best = max(cand, key=lambda i: len(_pairs(digs[i], small) & need))
        if not (_pairs(digs[best], small) & need):
            pr = sorted(need)[0]
            best = next(i for i in valid if pr in _pairs(digs[i], small))
        chosen.append(best)
        need -= _pairs(digs[best], small)
    return chosen


# --------------------------------------------------------------------------
# selection of grid points

def stratified(name, rng, per_axis_value=2, extra=20):
    """indices covering every value of every axis several times"""
    axes = S.grid_axes(name)
    size = S.grid_size(name)
    chosen = set()
    for k, (ax, vals) in enumerate(axes):
        for v in range(len(vals)):
            for _ in range(per_axis_value):
                dg = [rng.randrange(len(vs)) for _, vs in axes]
                dg[k] = v
                chosen.add(S.index_of_digits(name, dg))
    for _ in range(extra):
        chosen.add(rng.randrange(size))
    chosen.add(0)
    chosen.add(size - 1)
    return sorted(chosen)


def pairwise(name, rng, tries=40):
    """a small set of grid points covering every pair of axis values"""
    axes = S.grid_axes(name)
    need = set()
    for a in range(len(axes)):
        for b in range(a + 1, len(axes)):
            for va in range(len(axes[a][1])):
                for vb in range(len(axes[b][1])):
                    need.add((a, va, b, vb))
    chosen = []
    while need:
        best, bestc = None, -1
        for _ in range(tries):
            dg = [rng.randrange(len(vs)) for _, vs in axes]
            c = sum(1 for (a, va, b, vb) in need if dg[a] == va and dg[b] == vb)
            if c > bestc:
                best, bestc = dg, c
        if bestc <= 0:
            a, va, b, vb = next(iter(need))
            best = [rng.randrange(len(vs)) for _, vs in axes]
            best[a], best[b] = va, vb
        chosen.append(best)
        need = {(a, va, b, vb) for (a, va, b, vb) in need
                if not (best[a] == va and best[b] == vb)}
    return [S.index_of_digits(name, dg) for dg in chosen]


# --------------------------------------------------------------------------

def case_of(o):
    return {'scheme': o['scheme'], 'index': o['index'], 'digits': o['digits'],
            'labels': o['labels']}


def replay(path, work):
    rp = json.load(open(path))
    case = rp['case']
    name, digits = case['scheme'], case['digits']
    idx = S.index_of_digits(name, digits)
    mode = case.get('mode', 'check')
    print('replaying %s #%d %s (%s)' % (name, idx, case.get('labels'), mode))
    print('demand  :', rp.get('demand'))
    failed = False
    o = examine((name, idx, True, True))
    if 'raised' in o and not o.get('declared_rejection'):
        print('observed: configuration raised', o['raised'])
        failed = True
    elif 'raised' not in o:
        if not o['accepted'] or not o['complete']:
            print('observed: missing', o['missing'], 'checker', o['fail'])
            failed = True
        else:
            print('observed: complete, accepted, code generated')
        if o.get('type_failures'):
            print('observed: index-used arguments whose known type is not an '
                  'integer pointer (class, method, argument, known type):',
                  o['type_failures'])
            failed = True
    if mode in ('types', 'cython') and 'raised' not in o and o['accepted']:
        c = cython_job((name, idx, work))
        if 'codegen_error' in c:
            print('observed: code generation raised', c['codegen_error'])
            failed = True
        elif 'cython_error' in c:
            print('observed: Cython rejects the generated module: %s\n%s'
                  % tuple(c['cython_error']))
            failed = True
        else:
            print('observed: Cython translated %d generated module(s), %d '
                  'lines' % (c['modules'], c.get('lines', 0)))
    if mode == 'run' and not failed:
        r = run_job((name, idx, work))
        print('observed run:', {k: r[k] for k in r if k not in ('digits',)})
        if 'error' in r or r.get('nonfinite'):
            failed = True
    sys.exit(1 if failed else 0)


def main():
    a = H.args()
    if a.replay:
        replay(a.replay, a.work)
    R = H.Result(
        'cases = grid points (scheme class x option combination x dim x '
        'solids x clean) run on the real code; for every point: real property '
        'checkers; for the compared points: full description vs the model\'s '
        'decoded table entry; distinct = distinct description lines (same '
        'arrays, equations, needs, steppers count once); non-trivial = at '
        'least 3 equations')
    rng = random.Random(a.seed * 7919 + 12)
    thorough = a.tier != 'quick'
    t0 = time.time()
    names = list(S.SPECS)

    # grid agreement between the table and the harness' own view
    glines = H.run_model('C12', ['schemes'] + ['grid %s' % n for n in names])
    if glines[0] != ','.join(names):
        R.disagree({'what': 'scheme list'}, glines[0], ','.join(names), 'schemes')
    for n, gl in zip(names, glines[1:]):
        want = 'size=%d|entries=%d|axes=%s' % (
            S.grid_size(n), S.grid_size(n),
            ';'.join('%s:%s' % (ax, ','.join(l for l, _ in vals))
                     for ax, vals in S.grid_axes(n)))
        if gl != want:
            R.disagree({'what': 'grid', 'scheme': n}, gl, want, 'grid')

    # which points are described and compared, which get full code generation
    compare = {}
    for n in names:
        size = S.grid_size(n)
        if thorough or size <= 100:
            compare[n] = set(range(size))
        else:
            compare[n] = set(stratified(n, rng, 3, 40))
    jobs = []
    for n in names:
        size = S.grid_size(n)
        cg = set(rng.sample(sorted(compare[n]), min(len(compare[n]), 40))) \
            if not thorough else None
        for idx in range(size):
            described = idx in compare[n]
            codegen = described if thorough else (idx in cg)
            jobs.append((n, idx, codegen, described))
    # GSPH's options do not change the set-up outcome; thorough code
    # generation for all 9504 of its points adds nothing: keep every 8th
    if thorough:
        jobs = [(n, i, (cgn and (n != 'GSPHScheme' or i % 8 == 0)), d)
                for (n, i, cgn, d) in jobs]
    rng.shuffle(jobs)
    nproc = min(16, os.cpu_count() or 4)
    ctx = mp.get_context('fork')
    results = []
    with ctx.Pool(nproc) as pool:
        for o in pool.imap_unordered(examine, jobs, chunksize=32):
            results.append(o)
    R.note('examined %d grid points on the real code in %.0fs'
           % (len(results), time.time() - t0))

    # model answers for the compared points
    cmp_res = sorted((o for o in results if 'line' in o or 'raised' in o),
                     key=lambda o: (o['scheme'], o['index']))
    cmp_res = [o for o in cmp_res
               if o['index'] in compare[o['scheme']]]
    mlines = H.run_model('C12', ['point %s %d' % (o['scheme'], o['index'])
                                 for o in cmp_res])
    if len(mlines) != len(cmp_res):
        raise SystemExit('model driver answered %d lines for %d'
                         % (len(mlines), len(cmp_res)))
    nsample = 0
    for o, ml in zip(cmp_res, mlines):
        if 'raised' in o:
            impl = 'rejected' if o['declared_rejection'] else \
                'raised %s' % (o['raised'],)
        else:
            impl = o['line']
        if ml != impl:
            R.disagree(case_of(o), ml[:3000], impl[:3000], 'point')
        R.d['traces_validated_against_impl'] += 1
        # fingerprint: the outcome without the option labels
        fp = impl.split('|', 1)[1] if impl.startswith('labels:') else \
            impl + str(case_of(o)['labels'])
        R.case(fp, o.get('neq', 0) >= 3,
               {'case': case_of(o), 'impl': impl[:600], 'model': ml[:600]}
               if nsample < 3 and 'line' in o else None)
        if 'line' in o:
            nsample += 1

    # property oracle on every examined point
    nfail = 0
    per_key = {}
    type_fail = {}
    for o in sorted(results, key=lambda o: (o['scheme'], o['index'])):
        R.count('scheme:' + o['scheme'])
        if 'harness_error' in o:
            raise SystemExit('harness error on %s #%d: %s'
                             % (o['scheme'], o['index'], o['harness_error']))
        if 'raised' in o:
            if o['declared_rejection']:
                R.count('rejected-by-scheme (declared)')
            else:
                nfail += 1
                R.prop_fail('C12:%s:raises:%s' % (o['scheme'], o['raised'][0]),
                            dict(case_of(o), mode='check'),
                            'configure_solver / setup_properties / '
                            'get_equations run for this documented option '
                            'combination', 'raised %s: %s' % tuple(o['raised']))
            continue
        R.count('accepted' if o['accepted'] else 'REJECTED-by-real-checker')
        if o.get('type_failures'):
            cls, meth, arg, kt = o['type_failures'][0]
            k = 'C12:%s:index-type:%s.%s:%s' % (o['scheme'], cls, arg,
                                                kt.rstrip('*'))
            type_fail.setdefault(k, []).append((o['scheme'], o['index']))
            if len(type_fail[k]) <= 8:
                R.prop_fail(
                    k, dict(case_of(o), mode='types'),
                    'code generation for the whole problem succeeds: an array '
                    'argument an element of which an equation / stepper uses '
                    'as an index (subscript, range bound, assigned to a '
                    'declared int) is known to the code generator as an '
                    'int/unsigned int/long pointer',
                    'get_known_types_for_arrays gives (class, method, '
                    'argument, type): %s' % (o['type_failures'],))
        else:
            R.count('index-types-ok')
        if not o['accepted'] or not o['complete']:
            nfail += 1
            k = key_of(o['scheme'], o['missing'], o['fail'])
            per_key[k] = per_key.get(k, 0) + 1
            if per_key[k] > 8:      # keep room for every class of failure
                continue
            R.prop_fail(
                k,
                dict(case_of(o), mode='check'),
                'every equation and stepper references only properties the '
                'arrays have after setup_properties; AccelerationEval / '
                'SPHCompiler set-up and code generation succeed',
                'missing %s; real checker: %s' % (o['missing'], o['fail']))
    for k, n in sorted(per_key.items()):
        R.note('%d grid points fail with key %s' % (n, k))
    for k, pts in sorted(type_fail.items()):
        nfail += len(pts)
        R.note('%d grid points fail with key %s' % (len(pts), k))
    R.count('codegen-points', sum(1 for j in jobs if j[2]))
    R.count('compared-points', len(cmp_res))

    # a rejected / failing point cannot be generated
    bad = {(o['scheme'], o['index']) for o in results
           if 'raised' in o or not o.get('accepted') or not o.get('complete')}

    # code generation + Cython translation of a covering sample
    cy_points = []
    for n in names:
        pts = cython_sample(n, rng, [i for i in range(S.grid_size(n))
                                     if (n, i) not in bad])
        if thorough:
            pts += stratified(n, rng, 2, 20)
        cy_points += [(n, i) for i in pts]
    # every class of type failure is also put through Cython itself
    for k, pts in sorted(type_fail.items()):
        cy_points += pts[:2]
    cy_points = [p for p in dict.fromkeys(cy_points) if p not in bad]
    rng.shuffle(cy_points)

    # compile + run
    run_points = []
    if thorough:
        for n in names:
            for idx in pairwise(n, rng)[:10 if n != 'SchemeChooser' else 6]:
                run_points.append((n, idx))
    else:
        import importlib.util
        have_scipy = importlib.util.find_spec('scipy') is not None
        # ISPHScheme's pressure solve imports scipy at run time
        pool_names = [n for n in names if have_scipy or n != 'ISPHScheme']
        rng.shuffle(pool_names)
        for n in pool_names[:3]:
            run_points.append((n, rng.choice(stratified(n, rng, 1, 0))))
    # a rejected / failing point cannot be run
    tf_pts = {p for pts in type_fail.values() for p in pts}
    run_points = [p for p in dict.fromkeys(run_points)
                  if p not in bad and p not in tf_pts]
    # the few full compile-and-run jobs go on in the background while the
    # Cython sample is translated (quick tier; the thorough tier's ~150 runs
    # need all cores and follow it)
    t1 = time.time()
    run_pool = ctx.Pool(min(nproc, max(1, len(run_points))))

    def start_runs():
        return run_pool.map_async(
            run_job, [(n, i, a.work) for n, i in run_points], chunksize=1)
    if not thorough:
        run_async = start_runs()
    scan_points = class_cover(results, bad, rng)
    with ctx.Pool(nproc) as pool:
        both = list(pool.imap_unordered(
            pool_job, [('scan', n, i, a.work) for n, i in scan_points] +
            [('cy', n, i, a.work) for n, i in cy_points], chunksize=1))
    cys = [c for c in both if 'problems' not in c]
    scans = [c for c in both if 'problems' in c]
    # the index-use scan against Cython's type checker
    validated = set()
    with_use = set()
    for c in sorted(scans, key=lambda c: (c['scheme'], c['index'])):
        if 'error' in c:
            raise SystemExit('index-scan validation could not generate %s #%d: '
                             '%s' % (c['scheme'], c['index'], c['error']))
        validated |= set(c['classes'])
        with_use |= set(c['with_index_use'])
        for pr in c['problems']:
            R.disagree(dict(case_of(c), what='index-use scan',
                            cls=pr[1], method=pr[2]),
                       'scan: %s' % pr[0], 'cython: %s | %s' % (pr[3], pr[4]),
                       'index-scan')
    R.count('index-scan: classes validated against Cython', len(validated))
    R.count('index-scan: methods with an index use', len(with_use))
    R.note('index-use scan validated against Cython (all arrays typed double*) '
           'on %d configurations covering %d equation/stepper classes; methods '
           'with index uses: %s' % (len(scans), len(validated),
                                    sorted(with_use)))
    if thorough:
        run_async = start_runs()
    cy_keys = {}
    covered = {}
    for c in sorted(cys, key=lambda c: (c['scheme'], c['index'])):
        R.count('cython:' + c['scheme'])
        for ax, lab in c['labels'].items():
            covered.setdefault(c['scheme'], set()).add((ax, lab))
        if 'codegen_error' in c:
            k = 'C12:%s:codegen:%s' % (c['scheme'], c['codegen_error'][0])
            obs = 'code generation raised %s: %s' % tuple(c['codegen_error'])
        elif 'cython_error' in c:
            k = 'C12:%s:cython:%s' % (c['scheme'], c['cython_error'][0])
            obs = 'Cython rejects the generated module: %s\n%s' % tuple(
                c['cython_error'])
        else:
            R.count('cython-ok')
            continue
        nfail += 1
        cy_keys[k] = cy_keys.get(k, 0) + 1
        if cy_keys[k] <= 4:
            R.prop_fail(k, dict(case_of(c), mode='cython'),
                        'code generation for the whole problem succeeds: the '
                        'generated module passes the Cython translation step',
                        obs)
    for n in names:
        want = {kv for i in range(S.grid_size(n)) if (n, i) not in bad
                for kv in S.describe(n, S.config_of_index(n, i)).items()}
        miss = want - covered.get(n, set())
        if miss:
            raise SystemExit('cython sample of %s misses option values %s'
                             % (n, sorted(miss)))
    R.note('generated + cythonized %d configurations (%d modules, %d answered '
           'from the per-source cache) covering every option value of every '
           'scheme in %.0fs; %d failed'
           % (len(cys), sum(c['modules'] for c in cys),
              sum(c['cached'] for c in cys), time.time() - t1,
              sum(cy_keys.values())))

    runs = run_async.get()
    run_pool.close()
    run_pool.join()
    for r in runs:
        R.count('run:' + r['scheme'])
        if 'error' in r and r['error'][0] == 'ModuleNotFoundError' and \
                'scipy' in r['error'][1]:
            R.count('run-skipped: scipy is not installed here')
        elif r['scheme'] in FINITE_NOT_DEMANDED and (
                r.get('nonfinite') or ('error' in r and
                                       'Number of cells' in r['error'][1])):
            R.count('run-diverged (monitored only): ' + r['scheme'])
            R.note('run of %s #%d diverged on the toy lattice: %s'
                   % (r['scheme'], r['index'],
                      r.get('nonfinite') or r['error'][:2]))
        elif 'error' in r:
            R.prop_fail('C12:%s:run:%s' % (r['scheme'], r['error'][0]),
                        dict(case_of(r), mode='run'),
                        'compiles and runs 2 steps',
                        '%s: %s\n%s' % r['error'])
        elif r['nonfinite']:
            R.prop_fail('C12:%s:run:nonfinite' % r['scheme'],
                        dict(case_of(r), mode='run'),
                        'all properties finite after 2 steps',
                        'non-finite: %s' % r['nonfinite'])
        else:
            R.count('run-ok')
    R.note('compiled and ran %d configurations (2 steps, output on) in %.0fs: '
           '%s' % (len(runs), time.time() - t1,
                   [(r['scheme'], r['index'], round(r.get('wall', 0)))
                    for r in runs][:60]))
    if a.broken or R.d['disagreements']:
        R.d['search'] = {
            'note': 'the oracle above already ran on every grid point',
            'examined': len(results), 'found': nfail}
    R.write(a.out)


if __name__ == '__main__':
    main()
