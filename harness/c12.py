"""C12 tie + property oracle: every shipped scheme yields a complete,
generatable simulation.

impl : the scratch build of /repo: Scheme.configure / configure_solver /
       setup_properties / get_equations on plain particle arrays, then the
       real fail-fast checkers (acceleration_eval.AccelerationEval ->
       check_equation_array_properties; sph_compiler.SPHCompiler ->
       IntegratorCythonHelper checks), real code generation, and for a sample
       real compilation + 2 time steps.
model: lean PysphVerif.Model.SchemeNeeds over the table Gen/Schemes.lean that
       translate/schemes2tables.py re-extracted from the same tree just before
       (driver model_c12, `point <Scheme> <index>`).

Three things are checked:
 (a) table = code: for grid points (quick: a seeded stratified sample, all
     points of the small grids; thorough: every point) the configuration is
     run again here and described with the REAL code's own functions
     (`Group([eq]).get_array_names()`, `get_array_names(getfullargspec(...))`,
     array property dicts); the model's decoded answer for that grid point --
     arrays, equations with computed needs, steppers, accepted/complete
     verdicts -- must be identical.  Disagreement = broken tie.
 (b) property oracle, independent of model and table: for EVERY grid point the
     real AccelerationEval construction (which runs the real property checker)
     and the integrator helper's checks must not raise; for a sample (thorough:
     every distinct outcome) the whole code generation must succeed.  A raise is
     a property failure with the concrete configuration as replay.
 (c) execution: a stratified sample of configurations is compiled and RUN on
     realistic arrays (uniform lattice with h = hdx*dx; the ideal-gas schemes
     get e, p and the pilot smoothing length h0 = h the shipped examples
     pass; walls where the configuration has solids; a gentle velocity
     field), in an open and in a periodic domain: initial evaluation + 3
     steps with output enabled; after each of them every floating-point
     property of the REAL particles must be finite.  quick: every scheme
     class (EDAC per formulation) once per run, ~35 (configuration, domain)
     variants chosen by walking through a pairwise cover of each scheme's
     options with the seed; thorough: the whole pairwise covers.  Failure
     keys C12:<Scheme>:non-finite:<array>.<prop>, C12:<Scheme>:run:<exception>,
     C12:<Scheme>:crash (worker killed by a signal), C12:<Scheme>:timeout.
     All worker processes are run by ProcRunner, which detects dead workers
     and enforces a per-job limit (multiprocessing.Pool hangs for ever when a
     worker is killed).
 (d) types: for EVERY grid point the known C types the real code generator is
     given (get_known_types_for_arrays(get_all_array_names(arrays))) must be
     integer pointers for every array argument an element of which an equation
     or stepper uses as an index; and for a stratified sample that covers every
     scheme and every pair of option values (every value at least once) the
     generated source is put through the real Cython translation step
     (pyx -> C++, no C compiler), set up as compyle's ExtModule does.  A Cython
     error is a property failure `C12:<Scheme>:cython:<first error>`.
 (e) stages: for EVERY grid point (the grid includes the values of the
     configure_solver arguments the schemes branch on, e.g. WCSPH's
     integrator_cls) every `self.<member>` that the integrator's one_timestep
     uses -- its body is pasted into the generated cdef class Integrator --
     must be a member of that class: one the template defines itself or a
     stepper-method wrapper (IntegratorCythonHelper.
     get_stepper_method_wrapper_names() of the real code).  Where code is
     generated the same is checked on the generated class text.  Key
     C12:<Scheme>:stage-missing:<Integrator>.<member>.  The compiled-and-run
     sample contains every value of every solver axis on every run.
 (f) histories: C12 is a statement about a configuration, whatever was done
     with the scheme object or with the caller's argument objects before.
     For pairs of grid points P, Q of one scheme (every option / solver axis
     flipped alone between its values, plus random pairs and P = Q) two
     histories are run on the real code
       reconf: ONE scheme object: built and configured at P,
               configure_solver(args), setup_properties, get_equations; then
               configure(**options of Q) -- the documented way to change an
               option -- and configure_solver with the SAME argument objects,
               setup_properties on fresh plain arrays, get_equations;
       shared: TWO scheme objects at P and Q whose configure_solver calls get
               the SAME argument objects (one extra_steppers dict), first P's
               then Q's; then both are set up,
     with extra_steppers = None / {} / {wall: UserWallStep()}, a documented
     configure_solver argument of every scheme.  At every checkpoint the
     whole oracle of (b), (d), (e) must hold and the description must equal
     the model's answer for that grid point with the caller's steppers merged
     in (`pointx`, Lean `withExtra`).  Keys C12:<Scheme>:history:...; half of
     the compiled runs reach their configuration through a reconf history.
"""
import collections
import contextlib
import importlib
import io
import json
import multiprocessing as mp
import os
import random
import signal
import sys
import time
import traceback

import hcommon as H

H.assert_scratch_import()
sys.path.insert(0, os.path.join(os.path.dirname(os.path.abspath(__file__)),
                                '..', 'translate'))
import schemes2tables as S  # noqa: E402


# --------------------------------------------------------------------------
# describing one grid point with the real code's own functions

def _names(xs):
    xs = sorted(xs)
    return ','.join(xs) if xs else '_'


def stepper_wrappers(stp):
    """the wrappers one stepper makes the code generator emit (the loop body
    of IntegratorCythonHelper.get_stepper_method_wrapper_names)"""
    return [x for x in dir(stp) if x.startswith('stage') or x == 'initialize'] \
        + sorted(x[3:] for x in dir(stp) if x.startswith('py_stage'))


_FIXED_MEMBERS = None


def template_fixed_members():
    """members every generated Integrator class has, read from the template
    pysph/sph/integrator_cython.mako (the text after `cdef class Integrator`):
    methods `def|cpdef|cdef <name>(` and attributes `cdef [public] <type> a, b`
    at class level.  Validated on every generated module by
    generated_integrator_problems."""
    global _FIXED_MEMBERS
    if _FIXED_MEMBERS is None:
        import re
        import pysph.sph
        path = os.path.join(os.path.dirname(pysph.sph.__file__),
                            'integrator_cython.mako')
        lines = open(path).read().split('\n')
        k = [i for i, l in enumerate(lines)
             if l.startswith('cdef class Integrator')][0]
        out = set()
        for l in lines[k + 1:]:
            if not l.startswith('    ') or l.startswith('     '):
                continue        # class level only
            body = l.strip()
            m = re.match(r'(?:def|cpdef|cdef)\s+(?:[\w\*]+\s+)?(\w+)\s*\(', body)
            if m:
                out.add(m.group(1))
                continue
            m = re.match(r'cdef\s+(?:public\s+)?\w+\s+([A-Za-z_][\w, ]*)$', body)
            if m:
                out.update(x.strip() for x in m.group(1).split(','))
        _FIXED_MEMBERS = out
    return _FIXED_MEMBERS


def integrator_uses(integ):
    """the `self.<member>` names in the text the real code generator pastes
    into the generated Integrator class as its one_timestep
    (IntegratorCythonHelper.get_timestep_code), other than the members the
    template defines itself; sorted"""
    import re
    from pysph.sph.integrator_cython_helper import IntegratorCythonHelper
    h = IntegratorCythonHelper.__new__(IntegratorCythonHelper)
    h.object = integ
    code = h.get_timestep_code()
    code = '\n'.join(l.split('#')[0] for l in code.split('\n'))
    used = set(re.findall(r'\bself\s*\.\s*([A-Za-z_]\w*)', code))
    return sorted(used - template_fixed_members())


def stage_failures(scheme, ih=None):
    """property oracle for the stages on the real code's own view: members
    used by one_timestep that the generated class will not have ->
    [(integrator class, member, wrapper names of the real helper)]"""
    integ = scheme.get_solver().integrator
    if ih is not None:
        provided = set(ih.get_stepper_method_wrapper_names())
    else:
        provided = set()
        for stp in integ.steppers.values():
            provided |= set(stepper_wrappers(stp))
    return [(type(integ).__name__, m, sorted(provided))
            for m in integrator_uses(integ) if m not in provided]


def generated_integrator_problems(code):
    """on the generated module text: every self.<member> used inside the
    generated `cdef class Integrator` is defined in that class (method or
    cdef attribute).  -> sorted missing members"""
    import re
    k = code.find('\ncdef class Integrator')
    if k < 0:
        return ['<no cdef class Integrator in the generated module>']
    text = code[k + 1:]
    m = re.search(r'^\S', text[text.find('\n') + 1:], re.M)
    if m:
        text = text[:text.find('\n') + 1 + m.start()]
    defined = set(re.findall(
        r'^    (?:def|cpdef|cdef)\s+(?:[\w\*]+\s+)?(\w+)\s*\(', text, re.M))
    for decl in re.findall(
            r'^    cdef\s+(?:public\s+)?\w+\s+([A-Za-z_][\w, ]*)$', text, re.M):
        defined.update(x.strip() for x in decl.split(','))
    body = '\n'.join(l.split('#')[0] for l in text.split('\n'))
    used = set(re.findall(r'\bself\s*\.\s*([A-Za-z_]\w*)', body))
    return sorted(used - defined)


def real_description(name, digits, scheme, particles, equations):
    """canonical line, same format as the driver's `point` answer"""
    from pysph.sph.equation import Group, get_array_names
    from inspect import getfullargspec
    labels = ','.join('%s=%s' % kv for kv in S.describe(name, digits).items())
    parts = ['labels:' + labels]
    have = {}
    for pa in particles:
        have[pa.name] = set(pa.properties.keys()) | set(pa.constants.keys())
        parts.append('arr:%s:%s' % (pa.name, _names(have[pa.name])))
    # C types / strides straight from the carrays of the real arrays
    ctype = {}
    for pa in particles:
        ty = {}
        for coll in (pa.properties, pa.constants):
            for n, arr in coll.items():
                ty[n] = arr.get_c_type()
        ctype[pa.name] = ty
        strides = sorted((n, int(sd)) for n, sd in pa.stride.items()
                         if n in ty and int(sd) != 1)
        parts.append('ty:%s:int=%s;uint=%s;long=%s;float=%s;strides=%s' % (
            pa.name,
            _names(n for n, c in ty.items() if c == 'int'),
            _names(n for n, c in ty.items() if c == 'unsigned int'),
            _names(n for n, c in ty.items() if c == 'long'),
            _names(n for n, c in ty.items() if c == 'float'),
            ','.join('%s*%d' % x for x in strides) if strides else '_'))
        other = set(ty.values()) - set(S.CTYPES)
        if other:
            raise RuntimeError('C types outside the model: %s' % other)
    index_used = set()
    complete = True
    missing = []
    for st in S.flatten_groups(equations):
        for _, eq in st:
            src, dst = Group([eq]).get_array_names()
            nd = set(x[2:] for x in dst)
            ns = set(x[2:] for x in src)
            imp = set()
            for h in S.IMPLICIT_EQ:
                if hasattr(eq, h):
                    imp |= set(S.implicit_reads(type(eq), h))
            if eq.sources is None:
                srcs = '-'
            elif len(eq.sources) == 0:
                srcs = '_'
            else:
                srcs = '+'.join(s if s in have else '!invalid'
                                for s in eq.sources)
            dname = eq.dest if eq.dest in have else '!invalid'
            ix = set()
            for h in S.HOOKS:
                if getattr(eq, h, None) is not None:
                    ix |= set(S.index_uses(type(eq), h))
            ixd = set(x[2:] for x in ix if x.startswith('d_'))
            ixs = set(x[2:] for x in ix if x.startswith('s_'))
            index_used |= ixd | ixs
            parts.append('eq:%s:%s:%s:%s:%s:%s:%s:%s' % (
                type(eq).__name__, dname, srcs, _names(nd), _names(ns),
                _names(imp), _names(ixd), _names(ixs)))
            if eq.dest not in have:
                complete = False
                missing.append((type(eq).__name__, eq.dest, ['<no such array>']))
            else:
                m = (nd | imp) - have[eq.dest]
                if m:
                    complete = False
                    missing.append((type(eq).__name__, eq.dest, sorted(m)))
            for s in (eq.sources or []):
                if s not in have:
                    complete = False
                    missing.append((type(eq).__name__, s, ['<no such array>']))
                else:
                    m = ns - have[s]
                    if m:
                        complete = False
                        missing.append((type(eq).__name__, s, sorted(m)))
    integ = scheme.get_solver().integrator
    wrappers = set()
    for arr, stp in integ.steppers.items():
        need = set()
        imp = set()
        six = set()
        for x in dir(stp):
            if x.startswith('py_stage'):
                imp |= set(S.implicit_reads(type(stp), x))
            elif x.startswith('stage') or x == 'initialize':
                s, d = get_array_names(getfullargspec(getattr(stp, x)).args)
                need |= set(y[2:] for y in (s | d))
                six |= set(y[2:] for y in S.index_uses(type(stp), x))
        index_used |= six
        wr = stepper_wrappers(stp)
        wrappers |= set(wr)
        parts.append('st:%s:%s:%s:%s:%s:%s' % (
            type(stp).__name__, arr if arr in have else '!invalid',
            _names(need), _names(imp), _names(six),
            '+'.join(wr) if wr else '_'))
        if arr not in have:
            complete = False
            missing.append((type(stp).__name__, arr, ['<no such array>']))
        else:
            m = (need | imp) - have[arr]
            if m:
                complete = False
                missing.append((type(stp).__name__, arr, sorted(m)))
    uses = integrator_uses(integ)
    parts.append('integ:%s:%s' % (type(integ).__name__,
                                  '+'.join(uses) if uses else '_'))
    parts.append('stagesok:%s' % ('T' if set(uses) <= wrappers else 'F'))
    # the model's type verdict, evaluated here on the real arrays' carrays:
    # index-used names are an integer property somewhere, a floating one nowhere
    typesok = True
    for n in index_used:
        cts = [ty[n] for ty in ctype.values() if n in ty]
        if not any(c in S.INTEGRAL_CTYPES for c in cts) or \
                any(c not in S.INTEGRAL_CTYPES for c in cts):
            typesok = False
    return parts, complete, missing, typesok


def index_type_failures(scheme, particles, equations):
    """property oracle for the types, on the real code generator's own view:
    get_known_types_for_arrays(get_all_array_names(arrays)) is what
    AccelerationEvalCythonHelper hands to compyle; an argument without a known
    type is `double*` (CythonGenerator.detect_type).  -> [(class, method,
    argument, c type)] for the arguments an element of which is used as an
    index while the known type is not an integer pointer"""
    from pysph.sph.acceleration_eval_cython_helper import (
        get_all_array_names, get_known_types_for_arrays)
    known = get_known_types_for_arrays(get_all_array_names(particles))
    okt = set(c + '*' for c in S.INTEGRAL_CTYPES)
    bad = []

    def chk(obj, meths):
        for h in meths:
            for arg in S.index_uses(type(obj), h):
                kt = known[arg].type if arg in known else 'double*'
                if kt not in okt:
                    bad.append((type(obj).__name__, h, arg, kt))
    for st in S.flatten_groups(equations):
        for _, eq in st:
            chk(eq, [h for h in S.HOOKS if getattr(eq, h, None) is not None])
    for arr, stp in scheme.get_solver().integrator.steppers.items():
        chk(stp, [x for x in dir(stp) if (x.startswith('stage') or
                                          x == 'initialize')])
    return sorted(set(bad))


def real_checkers(scheme, particles, equations, codegen):
    """run the real fail-fast checks (and optionally the whole code
    generation); returns (None or (stage, exception type, message),
    stage failures [(integrator, member, wrappers)])"""
    from pysph.sph.acceleration_eval import make_acceleration_evals
    from pysph.sph.sph_compiler import SPHCompiler
    solver = scheme.get_solver()
    try:
        aevals = make_acceleration_evals(particles, equations, solver.kernel)
    except Exception as e:
        return ('AccelerationEval', type(e).__name__, str(e)[:400]), \
            stage_failures(scheme)
    sbad = []
    try:
        comp = SPHCompiler(aevals, solver.integrator)
        ih = comp.integrator_helper
        sbad = stage_failures(scheme, ih)
        if codegen:
            code = comp._get_code()
            gbad = generated_integrator_problems(code)
            if sorted(m for _, m, _ in sbad) != gbad:
                # the per-point oracle and the generated class must agree
                return ('codegen', 'integrator-members',
                        'generated Integrator class uses undefined members '
                        '%s; oracle on the helper says %s' % (gbad, sbad)), sbad
            for h in comp.acceleration_eval_helpers[1:]:
                code += h.get_code()
            if len(code) < 1000:
                return ('codegen', 'short',
                        'generated %d chars' % len(code)), sbad
        else:
            for m in ih.get_stepper_method_wrapper_names():
                ih.get_array_declarations(m)
    except Exception as e:
        return ('SPHCompiler', type(e).__name__, str(e)[:400]), \
            (sbad or stage_failures(scheme))
    return None, sbad


def key_of(name, missing, fail):
    if missing:
        cls, arr, names = missing[0]
        return 'C12:%s:%s:%s.%s' % (name, cls, arr, '+'.join(names))
    if fail:
        return 'C12:%s:%s:%s' % (name, fail[0], fail[1])
    return 'C12:%s:unknown' % name


def examine(job):
    """worker: one grid point on the real code"""
    name, idx, codegen, describe_it = job
    digits = S.config_of_index(name, idx)
    out = {'scheme': name, 'index': idx, 'digits': digits,
           'labels': dict(S.describe(name, digits))}
    buf = io.StringIO()
    try:
        with contextlib.redirect_stdout(buf):
            scheme, particles, equations = S.run_scheme(name, digits)
    except Exception as e:
        opts = S.config_values(name, digits)[0]
        out['raised'] = (type(e).__name__, str(e)[:300])
        out['declared_rejection'] = bool(S.SPECS[name]['rejects'](opts)) \
            and isinstance(e, ValueError)
        return out
    try:
        with contextlib.redirect_stdout(buf):
            fail, sbad = real_checkers(scheme, particles, equations, codegen)
            tbad = index_type_failures(scheme, particles, equations)
            if describe_it or fail is not None:
                parts, complete, missing, typesok = real_description(
                    name, digits, scheme, particles, equations)
            else:
                # the real checkers accepted; the full description (and the
                # dst.<name> reads) is evaluated on the compared points
                parts, complete, missing, typesok = [], True, [], None
    except Exception as e:
        out['harness_error'] = traceback.format_exc()[-800:]
        return out
    out['complete'] = complete
    out['missing'] = missing
    out['fail'] = fail
    out['accepted'] = fail is None
    out['type_failures'] = tbad
    out['stage_failures'] = sbad
    out['classes'] = sorted(
        set(type(eq).__name__ for st in S.flatten_groups(equations)
            for _, eq in st) |
        set(type(x).__name__
            for x in scheme.get_solver().integrator.steppers.values()))
    if describe_it:
        out['line'] = description_line(parts, fail, complete, typesok)
    out['neq'] = sum(1 for p in parts if p.startswith('eq:'))
    return out


def description_line(parts, fail, complete, typesok):
    return '|'.join(parts + [
        'accepted:%s' % ('T' if fail is None else 'F'),
        'complete:%s' % ('T' if complete else 'F'),
        'typesok:%s' % ('T' if typesok else 'F')])


# --------------------------------------------------------------------------
# histories: reused scheme objects, shared argument objects, extra_steppers

from pysph.sph.integrator_step import IntegratorStep  # noqa: E402


class UserWallStep(IntegratorStep):
    """what an application passes in `extra_steppers` for an array it moves
    itself (cf. the shipped examples with moving walls): needs only x and u,
    which every plain array has"""
    def initialize(self):
        pass

    def stage1(self, d_idx, d_x, d_u, dt):
        d_x[d_idx] += 0.5 * dt * d_u[d_idx]

    def stage2(self, d_idx, d_x, d_u, dt):
        d_x[d_idx] += 0.5 * dt * d_u[d_idx]


EXTRA_KINDS = ('none', 'empty', 'walls')


def make_extra(kind, walls):
    """the caller's extra_steppers object"""
    if kind == 'none':
        return None
    if kind == 'empty' or not walls:
        return {}
    return dict((w, UserWallStep()) for w in walls)


def extra_wire(extra, original_keys):
    """the caller's steppers as the model driver's `pointx` argument.  It
    describes what the CALLER passed (`original_keys`, recorded when the dict
    was made), with the class described by the real code's get_array_names"""
    from pysph.sph.equation import get_array_names
    from inspect import getfullargspec
    if not original_keys:
        return '-'
    stp = extra[original_keys[0]]
    ms = []
    for x in dir(stp):
        if x.startswith('stage') or x == 'initialize':
            sa, da = get_array_names(getfullargspec(getattr(stp, x)).args)
            ms.append('%s=%s' % (x, _names(y[2:] for y in (sa | da))))
    return '%s;%s@%s' % (type(stp).__name__, ';'.join(ms),
                         '+'.join(original_keys))


def checkpoint(name, idx, scheme, particles, equations, wire, label):
    """the whole per-point oracle + description at one point of a history"""
    digits = S.config_of_index(name, idx)
    cp = {'index': idx, 'digits': digits, 'label': label, 'extra': wire,
          'labels': dict(S.describe(name, digits))}
    fail, sbad = real_checkers(scheme, particles, equations, False)
    tbad = index_type_failures(scheme, particles, equations)
    parts, complete, missing, typesok = real_description(
        name, digits, scheme, particles, equations)
    cp.update(fail=fail, stage_failures=sbad, type_failures=tbad,
              complete=complete, missing=missing,
              line=description_line(parts, fail, complete, typesok),
              steppers=[(k, type(v).__name__) for k, v in
                        scheme.get_solver().integrator.steppers.items()])
    return cp


def effective_index(name, pidx, qidx, fixed):
    """the grid point reached from P by configure(**options of Q) when the
    options `fixed` cannot be changed after construction"""
    dp, dq = S.config_of_index(name, pidx), S.config_of_index(name, qidx)
    out = list(dq)
    for k, (ax, _) in enumerate(S.grid_axes(name)):
        if ax.startswith('opt:') and ax[4:] in fixed:
            out[k] = dp[k]
    return S.index_of_digits(name, out)


def hist_job(job):
    """worker: one history on the real code (see (f) in the module
    docstring).  -> {'checkpoints': [...]} or {'raised': ...}"""
    name, kind, pidx, qidx, xkind = job
    out = {'scheme': name, 'kind': kind, 'p': pidx, 'q': qidx, 'xkind': xkind,
           'checkpoints': []}
    buf = io.StringIO()
    at = 'start'
    try:
        with contextlib.redirect_stdout(buf), S.no_compile_evaluator():
            po, ps, dim, solids, pclean = S.config_values(
                name, S.config_of_index(name, pidx))
            qo, qs, qdim, qsolids, qclean = S.config_values(
                name, S.config_of_index(name, qidx))
            assert (dim, solids) == (qdim, qsolids)
            pf, psol, pex = S.array_names(name, solids, po)
            qf, qsol, qex = S.array_names(name, solids, qo)
            walls = [w for w in psol + pex if w in qsol + qex]
            extra = make_extra(xkind, walls)
            keys = list(extra) if extra else []
            wire = extra_wire(extra, keys)

            def args(sopts):
                kw = dict(dt=1e-4, tf=2e-4, **S.solver_kwargs(sopts))
                if extra is not None:
                    kw['extra_steppers'] = extra    # the SAME object each time
                return kw
            if kind == 'reconf':
                at = 'building the scheme at P'
                sch = S.build_scheme(name, po, dim, solids)[0]
                at = 'configure_solver at P'
                sch.configure_solver(**args(ps))
                pa = S.make_arrays(dim, pf + psol + pex)
                at = 'setup_properties at P'
                sch.setup_properties(pa, clean=pclean)
                at = 'get_equations at P'
                eqs = sch.get_equations()
                out['checkpoints'].append(checkpoint(
                    name, pidx, sch, pa, eqs, wire, 'first configuration (P)'))
                at = 'configure(**options of Q) on the scheme configured at P'
                fixed = S.apply_options(sch, name, qo)
                qeff = effective_index(name, pidx, qidx, fixed)
                qo2 = S.config_values(name, S.config_of_index(name, qeff))[0]
                at = 'second configure_solver (same argument objects)'
                sch.configure_solver(**args(qs))
                f2, s2, x2 = S.array_names(name, solids, qo2)
                pa2 = S.make_arrays(dim, f2 + s2 + x2)
                at = 'setup_properties after re-configuration'
                sch.setup_properties(pa2, clean=qclean)
                at = 'get_equations after re-configuration'
                eqs2 = sch.get_equations()
                out['checkpoints'].append(checkpoint(
                    name, qeff, sch, pa2, eqs2, wire,
                    'same scheme object re-configured to Q'))
            else:
                at = 'building two schemes'
                a = S.build_scheme(name, po, dim, solids)[0]
                b = S.build_scheme(name, qo, dim, solids)[0]
                at = 'configure_solver of the first scheme'
                a.configure_solver(**args(ps))
                at = 'configure_solver of the second scheme (same argument ' \
                    'objects)'
                b.configure_solver(**args(qs))
                for sch, idx, (f, sl, x), cl, lab in (
                        (b, qidx, (qf, qsol, qex), qclean,
                         'second scheme (Q), configured with the argument '
                         'objects the first one got'),
                        (a, pidx, (pf, psol, pex), pclean,
                         'first scheme (P), after the second was configured')):
                    at = 'setup_properties: ' + lab
                    arrs = S.make_arrays(dim, f + sl + x)
                    sch.setup_properties(arrs, clean=cl)
                    at = 'get_equations: ' + lab
                    eqs = sch.get_equations()
                    out['checkpoints'].append(checkpoint(
                        name, idx, sch, arrs, eqs, wire, lab))
            if extra is not None and list(extra) != keys:
                out['caller_dict_changed'] = (keys, list(extra))
    except Exception as e:
        out['raised'] = (type(e).__name__, str(e)[:300], at,
                         traceback.format_exc()[-1200:])
    return out


def point_with(name, **labels):
    """the grid point with the first value on every axis except the given
    `axis=label`s (axis names without the opt:/solver: prefix)"""
    dg = []
    for ax, vals in S.grid_axes(name):
        want = labels.get(ax.split(':')[-1])
        labs = [l for l, _ in vals]
        dg.append(labs.index(want) if want is not None else 0)
    return S.index_of_digits(name, dg)


def history_corpus():
    """histories that exposed a defect once (seeded: EDAC keeping the
    stepper of the other formulation in the caller's dict; WCSPH choosing the
    stepper by the integrator class), run first on every run"""
    e0 = dict(dim='2', solids='T')
    out = []
    for kind, x in (('shared', 'walls'), ('reconf', 'empty'),
                    ('shared', 'empty'), ('reconf', 'walls')):
        out.append(('EDACScheme', kind, point_with('EDACScheme', pb='zero', **e0),
                    point_with('EDACScheme', pb='pos', **e0), x))
        out.append(('EDACScheme', kind, point_with('EDACScheme', pb='pos', **e0),
                    point_with('EDACScheme', pb='zero', **e0), x))
    for a, b in (('default', 'TVDRK3Integrator'), ('TVDRK3Integrator', 'default'),
                 ('EPECIntegrator', 'TVDRK3Integrator')):
        for kind, x in (('reconf', 'none'), ('shared', 'walls')):
            out.append(('WCSPHScheme', kind,
                        point_with('WCSPHScheme', integrator_cls=a, **e0),
                        point_with('WCSPHScheme', integrator_cls=b, **e0), x))
    return out


def select_histories(names, rng, bad, thorough):
    """-> [(scheme, kind, P, Q, extra kind)].  Per scheme: for every option
    axis and every solver axis, ordered pairs of its values (all of them up to
    a cap) with the other axes drawn at random and equal in P and Q (`clean`
    drawn independently); random pairs with the same dim / solids; P = Q.
    Every pair is run as `reconf` and as `shared`; the extra_steppers kind
    cycles through none / {} / user steppers for the walls."""
    jobs = [h for h in history_corpus()
            if (h[0], h[2]) not in bad and (h[0], h[3]) not in bad]
    cap = 12 if thorough else 6
    nrand = 24 if thorough else 8
    for n in names:
        axes = S.grid_axes(n)
        ok = lambda i: (n, i) not in bad and not S.SPECS[n]['rejects'](  # noqa: E731
            S.config_values(n, S.config_of_index(n, i))[0])
        pairs = []

        def draw():
            for _ in range(200):
                dg = [rng.randrange(len(vs)) for _, vs in axes]
                if ok(S.index_of_digits(n, dg)):
                    return dg
            return None
        cleank = [k for k, (ax, _) in enumerate(axes) if ax == 'clean'][0]
        for k, (ax, vals) in enumerate(axes):
            if not (ax.startswith('opt:') or ax.startswith('solver:')):
                continue
            vp = [(a, b) for a in range(len(vals)) for b in range(len(vals))
                  if a != b]
            rng.shuffle(vp)
            for a, b in vp[:cap]:
                for _ in range(30):
                    dg = draw()
                    if dg is None:
                        break
                    dp, dq = list(dg), list(dg)
                    dp[k], dq[k] = a, b
                    dq[cleank] = rng.randrange(2)
                    ip, iq = S.index_of_digits(n, dp), S.index_of_digits(n, dq)
                    if ok(ip) and ok(iq):
                        pairs.append((ip, iq))
                        break
        fixedk = [k for k, (ax, _) in enumerate(axes) if ax in ('dim', 'solids')]
        for _ in range(nrand):
            dp, dq = draw(), draw()
            if dp is None or dq is None:
                continue
            for k in fixedk:
                dq[k] = dp[k]
            ip, iq = S.index_of_digits(n, dp), S.index_of_digits(n, dq)
            if ok(ip) and ok(iq):
                pairs.append((ip, iq))
        dp = draw()
        if dp is not None:
            pairs.append((S.index_of_digits(n, dp),) * 2)
        for j, (ip, iq) in enumerate(pairs):
            for kind in ('reconf', 'shared'):
                jobs.append((n, kind, ip, iq,
                             EXTRA_KINDS[(j + (kind == 'shared')) % 3]))
    return list(dict.fromkeys(jobs))


# --------------------------------------------------------------------------
# a process runner that survives dying workers
#
# multiprocessing.Pool loses the task of a worker that is killed by a signal
# (SIGSEGV in generated code, the OOM killer): the pool replaces the worker,
# the result never arrives and imap/map_async wait for ever with all workers
# idle -- which is how the previous thorough run of this harness hung (a
# compiled run that segfaults).  Here every task (a chunk of jobs) runs in a
# forked child of its own with a pipe back to the parent; the parent notices
# end-of-file on the pipe (child died: reported with the signal), enforces a
# wall-clock limit per task (process group killed), and isolates the culprit
# of a multi-job chunk by re-running its jobs one by one.

def _signame(code):
    if code is None:
        return 'no exit status'
    if code < 0:
        try:
            return 'killed by %s' % signal.Signals(-code).name
        except ValueError:
            return 'killed by signal %d' % -code
    return 'exit status %d' % code


def _child(func, jobs, w):
    try:
        try:
            os.setsid()         # own process group: compilers die with us
        except OSError:
            pass
        res = []
        for j in jobs:
            try:
                res.append(func(j))
            except BaseException:   # noqa: B036 (SystemExit of a failed build)
                res.append({'_exception': traceback.format_exc()[-2000:]})
        w.send(res)
        w.close()
    finally:
        os._exit(0)


class ProcRunner(object):
    def __init__(self, func, nproc, ctx=None):
        self.func = func
        self.nproc = max(1, nproc)
        self.ctx = ctx or mp.get_context('fork')
        self.queue = collections.deque()
        self.live = {}
        self.stats = {'tasks': 0, 'crash': 0, 'timeout': 0, 'split': 0}

    def add(self, jobs, timeout, chunk=1):
        jobs = list(jobs)
        for k in range(0, len(jobs), chunk):
            self.queue.append((jobs[k:k + chunk], timeout))

    def _start(self, jobs, timeout):
        r, w = self.ctx.Pipe(duplex=False)
        p = self.ctx.Process(target=_child, args=(self.func, jobs, w))
        p.daemon = True
        p.start()
        w.close()
        self.live[r] = (p, jobs, time.time(), timeout)
        self.stats['tasks'] += 1

    @staticmethod
    def _reap(p, r):
        try:
            os.killpg(p.pid, signal.SIGKILL)
        except (OSError, ProcessLookupError):
            pass
        if p.is_alive():
            p.kill()
        p.join(30)
        try:
            r.close()
        except OSError:
            pass

    def _failed(self, jobs, timeout, status, why):
        """a task without an answer: isolate the job, or report it"""
        if len(jobs) > 1:
            self.stats['split'] += 1
            for j in jobs:
                self.queue.append(([j], timeout))
            return []
        self.stats[status] += 1
        return [(jobs[0], status, why)]

    def run(self):
        """generator of (job, status, payload); status 'ok' (payload = the
        function's answer), 'crash' or 'timeout' (payload = what happened)"""
        from multiprocessing.connection import wait
        while self.queue or self.live:
            while self.queue and len(self.live) < self.nproc:
                self._start(*self.queue.popleft())
            for r in wait(list(self.live), timeout=1.0):
                p, jobs, t0, tmo = self.live.pop(r)
                try:
                    res = r.recv()
                except (EOFError, OSError):
                    res = None
                p.join(20)
                code = p.exitcode
                self._reap(p, r)
                if res is not None and len(res) == len(jobs):
                    for j, o in zip(jobs, res):
                        yield j, 'ok', o
                else:
                    for x in self._failed(
                            jobs, tmo, 'crash',
                            'worker process died without an answer after '
                            '%.0fs: %s' % (time.time() - t0, _signame(code))):
                        yield x
            now = time.time()
            for r, (p, jobs, t0, tmo) in list(self.live.items()):
                if now - t0 > tmo * len(jobs):
                    del self.live[r]
                    self._reap(p, r)
                    for x in self._failed(
                            jobs, tmo, 'timeout',
                            'no answer within %ds: worker killed' % tmo):
                        yield x


def preimport():
    """import, in the parent, what every job needs (no pysph code RUNS here:
    forking after OpenMP regions have run is not safe)"""
    import numpy  # noqa: F401
    import mako.template  # noqa: F401
    import Cython.Build  # noqa: F401
    import Cython.Distutils  # noqa: F401
    import pysph.base.utils  # noqa: F401
    import pysph.base.nnps  # noqa: F401
    import pysph.sph.acceleration_eval  # noqa: F401
    import pysph.sph.acceleration_eval_cython_helper  # noqa: F401
    import pysph.sph.sph_compiler  # noqa: F401
    import pysph.sph.integrator_cython_helper  # noqa: F401
    import pysph.solver.solver  # noqa: F401
    import pysph.tools.sph_evaluator  # noqa: F401
    import compyle.ext_module  # noqa: F401
    for sp in S.SPECS.values():
        importlib.import_module(sp['cls'].rpartition('.')[0])


# --------------------------------------------------------------------------
# compile + run

NSTEPS = 3
RUN_N = {1: 24, 2: 10, 3: 7}      # fluid lattice points per direction
WALL_LAYERS = 3
WALL_H_FACTOR = 2.0
GAMMA = 1.4
# schemes with an ideal-gas equation of state (p from the thermal energy e)
GAS = ('GasDScheme', 'GSPHScheme', 'ADKEScheme', 'MAGMA2Scheme',
       'TSPHScheme', 'PSPHScheme', 'CRKSPHScheme')


def periodic_dims(dim, walls):
    """axes made periodic in the `periodic` variant: all of them for fluid
    alone; with walls (below / above the fluid in the LAST direction) the
    lateral ones"""
    return list(range(dim)) if not walls else list(range(dim - 1))


def run_arrays(name, dim, fluids, sol, extra, domain):
    """the particle arrays an application would hand to the scheme: a uniform
    lattice of spacing dx with h = hdx*dx (= hfact*dx = kernel_factor*dx for
    the gas-dynamics schemes), m = rho*dx^dim, a gentle Taylor-Green like
    velocity field, p = 0 (liquids) or the ideal-gas state e = 2.5, p =
    (gamma-1) rho e with the pilot smoothing length h0 = h that every shipped
    gas-dynamics example passes.  Plain pysph.base.utils.get_particle_array
    arrays: everything else is the scheme's setup_properties' business.
    `solids` form a wall of 3 layers below the fluid in the last direction,
    the inviscid solid (EDAC) a wall above it; in the open variant the walls
    extend 3 layers sideways, in the periodic one they span the period.  For
    the ideal-gas schemes the wall is a closed frame around the gas (below
    and above it in the periodic variant) with twice the fluid's h.
    The periodic variant is periodic in every direction without walls, in
    the lateral directions with walls (none in 1D).
    -> (arrays, DomainManager or None)"""
    import numpy as np
    from pysph.base.utils import get_particle_array
    from pysph.base.nnps import DomainManager
    dx = S.DX
    n = RUN_N[dim]
    L = n * dx
    gas = name in GAS
    rho = 1.0 if gas else 1000.0
    ax = (np.arange(n) + 0.5) * dx
    walls = bool(sol or extra)
    per = periodic_dims(dim, walls) if domain == 'periodic' else []
    if domain == 'periodic' and not per:
        raise ValueError('no periodic variant of a 1D problem with walls')

    def block(axes):
        g = np.meshgrid(*axes, indexing='ij')
        co = [a.ravel().copy() for a in g]
        return co + [np.zeros_like(co[0]) for _ in range(3 - dim)]

    out = []
    for nm in fluids + sol + extra:
        if nm in fluids:
            co = block([ax] * dim)
            k = 2 * np.pi / L
            U = 0.1
            if dim == 1:
                vel = [U * np.sin(k * co[0]), 0 * co[0], 0 * co[0]]
            else:
                vel = [-U * np.cos(k * co[0]) * np.sin(k * co[1]),
                       U * np.sin(k * co[0]) * np.cos(k * co[1]), 0 * co[0]]
        elif gas:
            # a gas is confined (as in the shipped wall examples: a free
            # surface to vacuum is not a gas-dynamics problem): the wall is a
            # frame of 3 layers around the fluid on every side that is not
            # periodic
            full = (np.arange(-WALL_LAYERS, n + WALL_LAYERS) + 0.5) * dx
            axes = [ax if d in per else full for d in range(dim)]
            co = block(axes)
            inside = np.ones(co[0].size, dtype=bool)
            for d in range(dim):
                inside &= (co[d] > 0.0) & (co[d] < L)
            co = [c[~inside] for c in co]
            vel = [0 * co[0]] * 3
        else:
            lat = ax if domain == 'periodic' else \
                (np.arange(-WALL_LAYERS, n + WALL_LAYERS) + 0.5) * dx
            lay = (np.arange(-WALL_LAYERS, 0) + 0.5) * dx if nm in sol else \
                (np.arange(n, n + WALL_LAYERS) + 0.5) * dx
            co = block([lat] * (dim - 1) + [lay])
            vel = [0 * co[0]] * 3
        props = dict(x=co[0], y=co[1], z=co[2], u=vel[0], v=vel[1], w=vel[2],
                     m=rho * dx ** dim, h=S.HDX * dx, rho=rho)
        if gas:
            e = 2.5
            # the wall's smoothing length is larger than the fluid's (as in
            # the shipped wall examples) so that every wall particle of the
            # frame has fluid neighbours: one without is left at rho = m = 0
            # by WallBoundary and must not be within a fluid particle's reach
            hw = S.HDX * dx * (1.0 if nm in fluids else WALL_H_FACTOR)
            props.update(e=e, p=(GAMMA - 1.0) * rho * e, h=hw, h0=hw)
        else:
            props.update(p=0.0)
        out.append(get_particle_array(name=nm, **props))
    dom = None
    if per:
        kw = {}
        for d in per:
            c = 'xyz'[d]
            kw[c + 'min'] = 0.0
            kw[c + 'max'] = L
            kw['periodic_in_' + c] = True
        dom = DomainManager(**kw)
    return out, dom


def set_wall_inputs(particles, dim, fluids, equations):
    """what a scheme leaves to the application for the WALL arrays (every
    shipped example with walls sets them after setup_properties):
      * the unit normals xn, yn, zn pointing into the fluid, where the scheme
        created them;
      * the number density V = 1/dx^dim and the reference density rho0 = rho
        of the wall particles, where NO equation of the scheme has the wall
        as destination with d_V / d_rho0 among its arguments, i.e. where the
        scheme never computes them (transport-velocity family: V; GTVF's
        CorrectDensity reads s_rho0 of the walls).
    Nothing is pre-filled for the fluid arrays, and nothing that the scheme
    computes itself before use: a missing or skipped computation must show.
    -> [(array, property)] set"""
    from pysph.sph.equation import Group
    written = {}
    for st in S.flatten_groups(equations):
        for _, eq in st:
            src, dst = Group([eq]).get_array_names()
            written.setdefault(eq.dest, set()).update(x[2:] for x in dst)
    c = ('xn', 'yn', 'zn')[dim - 1]
    done = []
    mid = S.DX * RUN_N[dim] / 2.0
    for pa in particles:
        if pa.name in fluids or pa.get_number_of_particles() == 0:
            continue
        n = pa.get_number_of_particles()
        if all(k in pa.properties for k in ('xn', 'yn', 'zn')):
            for k in ('xn', 'yn', 'zn'):
                getattr(pa, k)[:] = 0.0
            pos = getattr(pa, 'xyz'[dim - 1])
            getattr(pa, c)[:] = [1.0 if q < mid else -1.0 for q in pos]
            done += [(pa.name, k) for k in ('xn', 'yn', 'zn')]
        for k, val in (('V', 1.0 / S.DX ** dim), ('rho0', None)):
            if k in pa.properties and len(pa.get(k)) == n and \
                    k not in written.get(pa.name, set()):
                pa.get(k)[:] = pa.rho if val is None else val
                done.append((pa.name, k))
    return done


def nonfinite_real(particles):
    """[(array.prop, number of non-finite entries)] over the REAL particles'
    entries of every floating-point property"""
    import numpy as np
    bad = []
    for pa in particles:
        nr = pa.num_real_particles
        for p, arr in pa.properties.items():
            a = arr.get_npy_array()
            if a.dtype.kind != 'f':
                continue
            a = a[:nr * int(pa.stride.get(p, 1))]
            k = int(a.size - np.count_nonzero(np.isfinite(a)))
            if k:
                bad.append(('%s.%s' % (pa.name, p), k))
    return sorted(bad)


class _NonFinite(Exception):
    pass


def _serialise_builds():
    """compyle guards the build of a generated module by a lock that gives up
    after 90 s; two workers with the same generated source (same scheme,
    options that only change numbers; the open and the periodic variant) must
    not build it at the same time: the second waits here and then finds the
    module in the cache"""
    import fcntl
    from compyle import ext_module as EM
    if getattr(EM.ExtModule, '_c12_serialised', False):
        return
    orig = EM.ExtModule.write_and_build

    def write_and_build(self):
        if os.path.exists(self.ext_path):
            return orig(self)
        with open(self.lock_path + '.c12', 'w') as fh:
            fcntl.flock(fh, fcntl.LOCK_EX)
            try:
                return orig(self)
            finally:
                fcntl.flock(fh, fcntl.LOCK_UN)
    EM.ExtModule.write_and_build = write_and_build
    EM.ExtModule._c12_serialised = True


def run_job(job):
    """worker: compile one grid point for real on realistic arrays, in an open
    or a periodic domain, evaluate the initial accelerations and take NSTEPS
    steps with output enabled; after the initial evaluation and after every
    step every floating-point property of the real particles must be finite"""
    name, idx, domain, work, hist_p, xkind = job
    digits = S.config_of_index(name, idx)
    out = {'scheme': name, 'index': idx, 'digits': digits, 'domain': domain,
           'labels': dict(S.describe(name, digits)), 'hist_p': hist_p,
           'xkind': xkind}
    t0 = time.time()
    buf = io.StringIO()
    stages = []
    st = {}
    try:
        with contextlib.redirect_stdout(buf), contextlib.redirect_stderr(buf):
            import pysph.sph.equation as EQ
            EQ.group_counter = EQ._counter()
            _serialise_builds()
            opts, sopts, dim, solids, clean = S.config_values(name, digits)
            fluids, sol, extra = S.array_names(name, solids, opts)
            dt = 1e-4
            # the caller's extra_steppers object (None / {} / a stepper of
            # its own for every wall array)
            xs = make_extra(xkind, sol + extra)
            xkw = {} if xs is None else {'extra_steppers': xs}
            scheme = None
            if hist_p is not None:
                # reach the configuration through a history: the scheme object
                # is built, configured and set up at another grid point P
                # first, then re-configured with configure(**options)
                po, ps, _, _, pclean = S.config_values(
                    name, S.config_of_index(name, hist_p))
                st['stage'] = 'history: first configuration (P=#%d)' % hist_p
                with S.no_compile_evaluator():
                    scheme = S.build_scheme(name, po, dim, solids)[0]
                    scheme.configure_solver(dt=dt, tf=NSTEPS * dt, **dict(
                        S.solver_kwargs(ps), **xkw))
                    scheme.setup_properties(
                        S.make_arrays(dim, sum(S.array_names(
                            name, solids, po), [])), clean=pclean)
                    scheme.get_equations()
                st['stage'] = 'history: configure(**options)'
                fixed = S.apply_options(scheme, name, opts)
                if effective_index(name, hist_p, idx, fixed) != idx:
                    out['history_skipped'] = 'options %s cannot be changed ' \
                        'by configure()' % fixed
                    scheme = None
                st['stage'] = 'set-up'
            if scheme is None:
                scheme = S.build_scheme(name, opts, dim, solids)[0]
            particles, dom = run_arrays(name, dim, fluids, sol, extra, domain)
            skw = dict(S.solver_kwargs(sopts), **xkw)
            # (group names are numbered by a process-wide counter that ends up
            # in the generated source: same numbering as without a history,
            # so that both variants of a configuration share one compilation)
            EQ.group_counter = EQ._counter()
            scheme.configure_solver(dt=dt, tf=NSTEPS * dt, **skw)
            scheme.setup_properties(particles, clean=clean)
            equations = scheme.get_equations()
            out['wall_inputs'] = set_wall_inputs(particles, dim, fluids,
                                                 equations)
            solver = scheme.get_solver()
            from pysph.base.nnps import LinkedListNNPS
            kernel = solver.kernel
            nnps = LinkedListNNPS(dim=solver.dim, particles=particles,
                                  radius_scale=kernel.radius_scale,
                                  domain=dom)
            out['nreal'] = sum(pa.num_real_particles for pa in particles)
            out['nghost'] = sum(pa.get_number_of_particles() for pa in
                                particles) - out['nreal']
            solver.set_parallel_manager(None)
            st['stage'] = 'setup (code generation + compilation)'
            solver.setup(particles, equations, nnps, kernel)
            out['compile_wall'] = time.time() - t0
            out['steppers'] = [(k, type(v).__name__) for k, v in
                               solver.integrator.steppers.items()]
            out['integrator'] = type(solver.integrator).__name__
            d = os.path.join(work, 'out_%s_%d_%s_%d' % (name, idx, domain,
                                                        os.getpid()))
            os.makedirs(d, exist_ok=True)
            solver.set_output_directory(d)
            solver.set_output_fname('run')
            solver.set_print_freq(1)
            solver.set_max_steps(NSTEPS)

            def check(stage):
                bad = nonfinite_real(particles)
                stages.append(stage)
                if bad:
                    out['nonfinite'] = bad
                    out['nonfinite_at'] = stage
                    raise _NonFinite()
            integ = solver.integrator
            orig_ia = integ.initial_acceleration

            def initial_acceleration(t, dt):
                st['stage'] = 'initial evaluation'
                orig_ia(t, dt)
                check('initial evaluation')
                st['stage'] = 'step 1'
            integ.initial_acceleration = initial_acceleration

            def post_step(s):
                check('step %d' % (s.count + 1))
                st['stage'] = 'step %d' % (s.count + 2)
            solver.add_post_step_callback(post_step)
            check('set-up')
            try:
                solver.solve(show_progress=False)
            except _NonFinite:
                pass
            out['steps'] = int(solver.count)
            out['dumps'] = len(os.listdir(d))
    except (Exception, SystemExit) as e:   # compyle ends a failed build with sys.exit(1)
        if isinstance(e, _NonFinite):
            pass        # at set-up
        else:
            out['error'] = (type(e).__name__, str(e)[:500],
                            traceback.format_exc()[-1500:],
                            st.get('stage', 'set-up'))
            try:
                out['nonfinite_when_raised'] = nonfinite_real(particles)
            except Exception:
                pass
    out['stages'] = stages
    out['wall'] = time.time() - t0
    return out


# --------------------------------------------------------------------------
# code generation + the Cython translation step (no C compiler)

def cythonize_source(code, workdir):
    """pyx -> C++ by Cython alone, with the extension set up the way
    compyle.ext_module.ExtModule.build does for the generated module
    (language c++, numpy include, the pysph root on the cython include path;
    pyxbuild would next hand the .cpp to the C++ compiler, which is what the
    full runs do).  The verdict per distinct source text is cached in
    `workdir`.  -> (ok, first error line, excerpt)"""
    import hashlib
    import re
    name = 'm_' + hashlib.md5(code.encode()).hexdigest()
    os.makedirs(workdir, exist_ok=True)
    resf = os.path.join(workdir, name + '.json')
    if os.path.exists(resf):
        try:
            return tuple(json.load(open(resf))) + (True,)
        except ValueError:
            pass
    ok, text = _run_cython(code, workdir, name)
    first, excerpt = '', ''
    if not ok:
        # (warnings have the same shape, prefixed with "warning: ")
        m = re.search(r'^(?!warning:)[^\n]*\.pyx:\d+:\d+: (.*)$', text, re.M)
        lines = [l for l in text.split('\n') if l.strip()]
        first = m.group(1).strip() if m else (lines[-1] if lines else '?')
        k = text.find('Error compiling Cython file')
        excerpt = text[k:k + 900] if k >= 0 else text[-900:]
    tmp = resf + '.%d' % os.getpid()
    with open(tmp, 'w') as fh:
        json.dump([ok, first, excerpt], fh)
    os.replace(tmp, resf)
    return ok, first, excerpt, False


def _run_cython(code, workdir, tag):
    """-> (ok, all output) of Cython on `code`"""
    from Cython.Build import cythonize
    from Cython.Distutils import Extension
    import numpy
    import pysph
    os.makedirs(workdir, exist_ok=True)
    pyx = os.path.join(workdir, '%s_%d.pyx' % (tag, os.getpid()))
    with open(pyx, 'w') as fh:
        fh.write(code)
    root = os.path.dirname(os.path.dirname(os.path.realpath(pysph.__file__)))
    ext = Extension(name=tag, sources=[pyx],
                    include_dirs=[numpy.get_include()],
                    cython_include_dirs=[root], language='c++')
    err = io.StringIO()
    ok = True
    try:
        with contextlib.redirect_stderr(err), contextlib.redirect_stdout(err):
            cythonize([ext], force=True, quiet=True, nthreads=0,
                      include_path=[root],
                      build_dir=os.path.join(workdir, 'b%d' % os.getpid()))
    except (Exception, SystemExit) as e:    # CompileError
        ok = False
        err.write('\n%s: %s' % (type(e).__name__, e))
    for f in (pyx, pyx[:-4] + '.cpp'):
        try:
            os.remove(f)
        except OSError:
            pass
    return ok, err.getvalue()


_INT_NEEDED = ("Cannot assign type 'double' to '", "Invalid index type 'double'")


def scan_job(job):
    """worker: validate the translator's index-use scan against Cython's own
    type checker.  The real code generator is run for one grid point with
    EVERY array argument declared `double*` (known types overridden); Cython
    then flags exactly the places where an element of an array argument must
    be an integer.  Per wrapper class and method the flagged lines must be
    explained by the scan (some array subscripted on the line is in the
    scan's answer) and every name the scan reports must be on a flagged
    line."""
    import re
    name, idx, work = job
    digits = S.config_of_index(name, idx)
    out = {'scheme': name, 'index': idx, 'digits': digits,
           'labels': dict(S.describe(name, digits)), 'problems': [],
           'classes': []}
    buf = io.StringIO()
    try:
        with contextlib.redirect_stdout(buf), contextlib.redirect_stderr(buf):
            scheme, particles, equations = S.run_scheme(name, digits)
            from pysph.sph.acceleration_eval import make_acceleration_evals
            from pysph.sph.sph_compiler import SPHCompiler
            from compyle.cython_generator import KnownType
            solver = scheme.get_solver()
            aevals = make_acceleration_evals(particles, equations,
                                             solver.kernel)
            comp = SPHCompiler(aevals, solver.integrator)
            for h in comp.acceleration_eval_helpers:
                h.known_types = {k: KnownType('double*')
                                 for k in h.known_types}
            codes = [comp._get_code()] + [
                h.get_code() for h in comp.acceleration_eval_helpers[1:]]
    except Exception as e:
        out['error'] = (type(e).__name__, str(e)[:400])
        return out
    scan = {}
    objs = [eq for st in S.flatten_groups(equations) for _, eq in st]
    for eq in objs:
        for h in S.HOOKS:
            if getattr(eq, h, None) is not None:
                scan.setdefault((type(eq).__name__, h), set()).update(
                    S.index_uses(type(eq), h))
    for stp in solver.integrator.steppers.values():
        for x in dir(stp):
            if x.startswith('stage') or x == 'initialize':
                scan.setdefault((type(stp).__name__, x), set()).update(
                    S.index_uses(type(stp), x))
    known_cls = set(c for c, _ in scan)
    flagged = {}
    for k, code in enumerate(codes):
        ok, text = _run_cython(code, os.path.join(work, 'cython'),
                               'mut%d_%d' % (idx, k))
        lines = code.split('\n')
        for m in re.finditer(r'^(?!warning:)[^\n]*\.pyx:(\d+):(\d+): (.*)$',
                             text, re.M):
            ln, msg = int(m.group(1)), m.group(3).strip()
            cls = meth = None
            for j in range(ln - 1, -1, -1):
                mm = re.match(r'\s+cdef inline [\w \*]+? (\w+)\(', lines[j])
                if mm and meth is None:
                    meth = mm.group(1)
                mm = re.match(r'cdef class (\w+)', lines[j])
                if mm:
                    cls = mm.group(1)
                    break
            if cls not in known_cls or meth is None:
                continue        # the module's own d_x = dst.x.data lines
            src = lines[ln - 1]
            names = set(re.findall(r'\b([ds]_\w+)\s*\[', src)) - \
                {'d_idx', 's_idx'}
            if not msg.startswith(_INT_NEEDED):
                out['problems'].append(
                    ('unmodelled-constraint', cls, meth, msg, src.strip()))
                continue
            flagged.setdefault((cls, meth), []).append(names)
            if not (names & scan.get((cls, meth), set())):
                out['problems'].append(
                    ('missed-by-scan', cls, meth, msg, src.strip()))
    for (cls, meth), names in scan.items():
        for n in names:
            if not any(n in fl for fl in flagged.get((cls, meth), [])):
                out['problems'].append(
                    ('not-confirmed-by-cython', cls, meth, n, ''))
    out['classes'] = sorted(known_cls)
    out['with_index_use'] = sorted('%s.%s' % k for k, v in scan.items() if v)
    return out


def dispatch(job):
    """worker entry: ('examine' | 'scan' | 'cy' | 'run', ...)"""
    kind = job[0]
    if kind == 'examine':
        return examine(job[1:])
    if kind == 'scan':
        return scan_job(job[1:])
    if kind == 'cy':
        return cython_job(job[1:])
    if kind == 'run':
        return run_job(job[1:])
    if kind == 'hist':
        return hist_job(job[1:])
    raise ValueError('unknown job kind %r' % (kind,))


def class_cover(results, bad, rng):
    """a few grid points whose equation / stepper classes cover every class
    that occurs at any (non-failing) grid point.  Greedy set cover."""
    by_set = {}
    for o in results:
        if 'classes' in o and (o['scheme'], o['index']) not in bad:
            by_set.setdefault(frozenset(o['classes']), []).append(
                (o['scheme'], o['index']))
    need = set().union(*by_set) if by_set else set()
    chosen = []
    while need:
        best = max(sorted(by_set, key=sorted), key=lambda c: len(c & need))
        chosen.append(rng.choice(sorted(by_set[best])))
        need -= best
    return chosen


def cython_job(job):
    """worker: real code generation of the whole problem + Cython translation
    of every generated module of one grid point"""
    name, idx, work = job
    digits = S.config_of_index(name, idx)
    out = {'scheme': name, 'index': idx, 'digits': digits,
           'labels': dict(S.describe(name, digits)), 'modules': 0,
           'cached': 0}
    t0 = time.time()
    buf = io.StringIO()
    try:
        with contextlib.redirect_stdout(buf), contextlib.redirect_stderr(buf):
            scheme, particles, equations = S.run_scheme(name, digits)
            from pysph.sph.acceleration_eval import make_acceleration_evals
            from pysph.sph.sph_compiler import SPHCompiler
            solver = scheme.get_solver()
            aevals = make_acceleration_evals(particles, equations,
                                             solver.kernel)
            comp = SPHCompiler(aevals, solver.integrator)
            codes = [comp._get_code()] + [
                h.get_code() for h in comp.acceleration_eval_helpers[1:]]
    except Exception as e:
        out['codegen_error'] = (type(e).__name__, str(e)[:400])
        out['wall'] = time.time() - t0
        return out
    out['lines'] = sum(c.count('\n') for c in codes)
    for code in codes:
        ok, first, excerpt, cached = cythonize_source(
            code, os.path.join(work, 'cython'))
        out['modules'] += 1
        out['cached'] += 1 if cached else 0
        if not ok:
            out['cython_error'] = (first, excerpt)
            break
    out['wall'] = time.time() - t0
    return out


def _pairs(dg, small):
    """(axis, value, axis, value) for every pair of `small` axes, and
    (axis, value, axis, value) with the axis twice for every single axis"""
    return {(i, dg[i], j, dg[j]) for i in small for j in small if i < j} | \
        {(i, dg[i], i, dg[i]) for i in range(len(dg))}


def cython_sample(name, rng, valid):
    """a small set of the grid points in `valid` (those that the scheme does
    not reject and that pass the checkers) covering every value of every axis
    (bool / enumerated option, dim, solids, clean) that occurs in `valid` at
    all, and every PAIR of values of the axes with at most 3 values (an axis
    like GSPH's 11 Riemann solvers is covered value by value).  Greedy."""
    valid = sorted(valid)
    if not valid:
        return []
    small = [k for k, (_, vals) in enumerate(S.grid_axes(name))
             if len(vals) <= 3]
    digs = {i: S.config_of_index(name, i) for i in valid}
    need = set()
    for dg in digs.values():
        need |= _pairs(dg, small)
    chosen = []
    while need:
        cand = rng.sample(valid, min(len(valid), 40))
        best = max(cand, key=lambda i: len(_pairs(digs[i], small) & need))
        if not (_pairs(digs[best], small) & need):
            pr = sorted(need)[0]
            best = next(i for i in valid if pr in _pairs(digs[i], small))
        chosen.append(best)
        need -= _pairs(digs[best], small)
    return chosen


# --------------------------------------------------------------------------
# selection of grid points

def stratified(name, rng, per_axis_value=2, extra=20):
    """indices covering every value of every axis several times"""
    axes = S.grid_axes(name)
    size = S.grid_size(name)
    chosen = set()
    for k, (ax, vals) in enumerate(axes):
        for v in range(len(vals)):
            for _ in range(per_axis_value):
                dg = [rng.randrange(len(vs)) for _, vs in axes]
                dg[k] = v
                chosen.add(S.index_of_digits(name, dg))
    for _ in range(extra):
        chosen.add(rng.randrange(size))
    chosen.add(0)
    chosen.add(size - 1)
    return sorted(chosen)


def pairwise(name, rng, tries=40):
    """a small set of grid points covering every pair of axis values"""
    axes = S.grid_axes(name)
    need = set()
    for a in range(len(axes)):
        for b in range(a + 1, len(axes)):
            for va in range(len(axes[a][1])):
                for vb in range(len(axes[b][1])):
                    need.add((a, va, b, vb))
    chosen = []
    while need:
        best, bestc = None, -1
        for _ in range(tries):
            dg = [rng.randrange(len(vs)) for _, vs in axes]
            c = sum(1 for (a, va, b, vb) in need if dg[a] == va and dg[b] == vb)
            if c > bestc:
                best, bestc = dg, c
        if bestc <= 0:
            a, va, b, vb = next(iter(need))
            best = [rng.randrange(len(vs)) for _, vs in axes]
            best[a], best[b] = va, vb
        chosen.append(best)
        need = {(a, va, b, vb) for (a, va, b, vb) in need
                if not (best[a] == va and best[b] == vb)}
    return [S.index_of_digits(name, dg) for dg in chosen]


# --------------------------------------------------------------------------
# which configurations are compiled and run

# Set-ups that do not run on the UNCHANGED tree, found by running every
# scheme over a pairwise cover of its options in both domains (see the
# docstring of run_arrays for the set-up).  Two kinds:
#
# (a) the set-up would be unphysical for the scheme: not a configuration the
#     property speaks about; not run.
NOT_A_SETUP = {
    ('PCISPHScheme', 'open'):
        'PCISPHScheme takes no solids and has no free-surface treatment (its '
        'only shipped use is the fully periodic Taylor-Green problem): a '
        'free-standing block in vacuum diverges in the first pressure '
        'iteration (|u| 0.1 -> 1e3 in step 1) and the neighbour search '
        'segfaults in step 3; run in the periodic domain only',
}
# (b) GENUINE defects of the unchanged tree (reported; first non-finite
#     property in brackets).  Finiteness is not demanded for exactly these
#     combinations; the thorough tier still runs them and records what it
#     sees (`run-known-defect`), so a change of behaviour is visible.
KNOWN_DEFECT = {
    ('TSPHScheme', 'walls+periodic'):
        'WallBoundary runs in a Group with real=True and UpdateGhostProps '
        'only treats the fluid: the periodic ghost copies of WALL particles '
        'keep n = dndh = 0, MomentumAndEnergy divides by s_n [fluid.au, '
        'initial evaluation]',
    ('PSPHScheme', 'walls+periodic'):
        'as TSPHScheme: ghost copies of wall particles keep n = 0 '
        '[fluid.au, initial evaluation]',
    ('IISPHScheme', 'walls+periodic'):
        'NumberDensity(dest=solid) runs in a Group with real=True: the '
        'periodic ghost copies of wall particles keep V = 0, '
        'SummationDensityBoundary adds rho0/s_V = inf [fluid.aii, initial '
        'evaluation]',
}
# schemes for which BOTH domain variants of the chosen configuration are run
# in the quick tier (the others get one, rotating with the seed)
THOROUGH_EXTRA = 16
BOTH_DOMAINS = ('EDACScheme', 'WCSPHScheme', 'TVFScheme', 'GTVFScheme') + GAS


def real_scheme(name, opts):
    """the scheme class that does the work (SchemeChooser delegates)"""
    if name == 'SchemeChooser':
        return {'wcsph': 'WCSPHScheme', 'tvf': 'TVFScheme',
                'aha': 'AdamiHuAdamsScheme', 'edac': 'EDACScheme',
                'iisph': 'IISPHScheme', 'gtvf': 'GTVFScheme'}[opts['scheme']]
    return name


def domain_variants(name, idx):
    """-> [(domain, None | ('known-defect', reason))] of the variants of one
    grid point that are a set-up at all"""
    opts, _, dim, solids, _ = S.config_values(name, S.config_of_index(name, idx))
    fluids, sol, extra = S.array_names(name, solids, opts)
    walls = bool(sol or extra)
    real = real_scheme(name, opts)
    out = []
    for dom in ('open', 'periodic'):
        if dom == 'periodic' and walls and dim == 1:
            continue        # nothing left to be periodic in
        if (real, dom) in NOT_A_SETUP:
            continue
        why = None
        if dom == 'periodic' and walls and \
                (real, 'walls+periodic') in KNOWN_DEFECT:
            why = ('known-defect', KNOWN_DEFECT[(real, 'walls+periodic')])
        out.append((dom, why))
    return out


def run_strata(names):
    """(label, scheme, predicate on the option values): every scheme class,
    EDAC once per formulation (external pb = 0 / internal pb > 0)"""
    out = []
    for n in names:
        if n == 'EDACScheme':
            out.append(('EDACScheme/external', n, lambda o: o['pb'] == 0))
            out.append(('EDACScheme/internal', n, lambda o: o['pb'] != 0))
        else:
            out.append((n, n, lambda o: True))
    return out


def _valid_points(name):
    return [i for i in range(S.grid_size(name)) if not S.SPECS[name]['rejects'](
        S.config_values(name, S.config_of_index(name, i))[0])]


_COVER = {}


def run_cover(name):
    """a fixed (seed independent) list of grid points the scheme does not
    reject by declaration that covers every pair of values of any two axes
    (options, dim, solids, clean) occurring together in such a point.
    Greedy over random candidates."""
    if name in _COVER:
        return _COVER[name]
    rng = random.Random('C12-run-cover-' + name)
    valid = _valid_points(name)
    nax = len(S.grid_axes(name))
    allax = list(range(nax))
    digs = {}

    def pairs(i):
        if i not in digs:
            digs[i] = _pairs(S.config_of_index(name, i), allax)
        return digs[i]
    need = set()
    for i in (valid if len(valid) <= 4000 else rng.sample(valid, 4000)):
        need |= pairs(i)
    chosen = []
    while need:
        cand = rng.sample(valid, min(len(valid), 60))
        best = max(cand, key=lambda i: len(pairs(i) & need))
        if not (pairs(best) & need):
            pr = sorted(need)[0]
            best = next(i for i in valid if pr in pairs(i))
        chosen.append(best)
        need -= pairs(best)
    _COVER[name] = chosen
    return chosen


def select_runs(names, seed, thorough, bad, have_scipy, notes):
    """-> [(scheme, index, domain, known-defect reason or None)]

    quick: per stratum ONE grid point, entry (seed + k) of the stratum's
    pairwise cover (so consecutive seeds walk through the cover); for the
    BOTH_DOMAINS schemes restricted to points that have both variants, which
    are both run; for the others one variant, alternating with the seed.
    Plus 6 further points (one variant each) of 6 schemes, rotating through
    the schemes and their covers with the seed, which is where 1D walls of
    the BOTH_DOMAINS schemes and walls in the combinations with a known
    defect come in.
    thorough: the whole pairwise cover of every scheme plus THOROUGH_EXTRA
    seeded points per stratum, every variant."""
    jobs = []
    allpts = []
    for k, (label, n, pred) in enumerate(run_strata(names)):
        if n == 'ISPHScheme' and not have_scipy:
            notes.append('ISPHScheme is not run: its pressure solve imports '
                         'scipy, which is not installed here')
            continue
        cover = [i for i in run_cover(n) if (n, i) not in bad and
                 pred(S.config_values(n, S.config_of_index(n, i))[0])]
        var = {i: domain_variants(n, i) for i in cover}
        if thorough:
            # + points drawn with the seed from the rest of the grid
            pool = [i for i in _valid_points(n) if (n, i) not in bad and
                    i not in var and
                    pred(S.config_values(n, S.config_of_index(n, i))[0])]
            rs = random.Random('C12-thorough-%s-%d' % (label, seed))
            for i in rs.sample(pool, min(len(pool), THOROUGH_EXTRA)):
                var[i] = domain_variants(n, i)
            for i in var:
                jobs += [(n, i, d, w) for d, w in var[i]]
            continue
        clean = {i: [d for d, w in var[i] if w is None] for i in cover}
        allpts += [(n, i) for i in cover if clean[i]]
        if n in BOTH_DOMAINS:
            cand = [i for i in cover if len(clean[i]) == 2]
        else:
            cand = [i for i in cover if clean[i]]
        if not cand:
            raise SystemExit('no runnable configuration of %s' % label)
        i = cand[(seed + k) % len(cand)]
        if n in BOTH_DOMAINS:
            jobs += [(n, i, d, None) for d in clean[i]]
        else:
            jobs.append((n, i, clean[i][(seed + k) % len(clean[i])], None))
        # every value of every configure_solver axis (e.g. WCSPH's
        # integrator_cls) is compiled and run on every run: a stepper /
        # integrator mismatch only shows when a step is taken
        dg0 = S.config_of_index(n, i)
        for ak, (ax, vals) in enumerate(S.grid_axes(n)):
            if not ax.startswith('solver:'):
                continue
            for v in range(len(vals)):
                if v == dg0[ak]:
                    continue
                c2 = [j for j in cover if clean[j] and
                      S.config_of_index(n, j)[ak] == v]
                if not c2:
                    continue
                j = c2[(seed + k) % len(c2)]
                jobs.append((n, j, clean[j][(seed + k + v) % len(clean[j])],
                             None))
    if not thorough:
        taken = {(n, i) for n, i, _, _ in jobs}
        per = {}
        for n, i in allpts:
            if (n, i) not in taken:
                per.setdefault(n, []).append(i)
        order = sorted(per)
        random.Random('C12-extra').shuffle(order)
        for j in range(min(6, len(order))):
            n = order[(6 * seed + j) % len(order)]
            i = per[n][(seed // max(1, len(order) // 6) + j) % len(per[n])]
            doms = [d for d, w in domain_variants(n, i) if w is None]
            jobs.append((n, i, doms[(seed + j) % len(doms)], None))
    jobs = list(dict.fromkeys(jobs))
    # how each configuration is reached and what the caller passes as
    # extra_steppers: the periodic variants (and every other single variant)
    # through a `reconf` history from a partner point of the same scheme with
    # the same arrays; extra_steppers cycles none / {} / user wall steppers
    out = []
    npts = {}
    for pos, (n, i, d, why) in enumerate(jobs):
        opts, _, dim, solids, _ = S.config_values(n, S.config_of_index(n, i))
        arrs = S.array_names(n, solids, opts)
        walls = arrs[1] + arrs[2]
        k = npts.setdefault((n, i), len(npts))
        xkind = EXTRA_KINDS[(seed + k) % 3] if walls else \
            EXTRA_KINDS[(seed + k) % 2]
        single = sum(1 for x in jobs if x[:2] == (n, i)) == 1
        hist_p = None
        if d == 'periodic' or (single and (seed + k) % 2 == 1):
            partners = []
            for j in run_cover(n):
                if j == i or (n, j) in bad:
                    continue
                o2, _, dim2, solids2, _ = S.config_values(
                    n, S.config_of_index(n, j))
                if (dim2, solids2) == (dim, solids) and \
                        S.array_names(n, solids2, o2) == arrs:
                    partners.append(j)
            if partners:
                hist_p = partners[(seed + k) % len(partners)]
        out.append((n, i, d, why, hist_p, xkind))
    return out


# --------------------------------------------------------------------------

STAGE_DEMAND = (
    'code generation for the whole problem succeeds and a short run is '
    'possible: every self.<member> the integrator\'s one_timestep uses (its '
    'body becomes a method of the generated cdef class Integrator) is a member '
    'of that class -- defined by the template or a wrapper generated because '
    'some stepper chosen by the scheme has that stage')
CHECK_DEMAND = (
    'every equation and stepper references only properties the arrays have '
    'after setup_properties; AccelerationEval / SPHCompiler set-up and code '
    'generation succeed')


def history_text(h):
    lab = lambda i: dict(S.describe(h['scheme'], S.config_of_index(  # noqa: E731
        h['scheme'], i)))
    ex = {'none': 'extra_steppers not given', 'empty': 'extra_steppers={}',
          'walls': 'extra_steppers={<wall>: UserWallStep()}'}[h['xkind']]
    if h['kind'] == 'reconf':
        return ('%s built and configured at P=#%d %s; configure_solver(%s); '
                'setup_properties; get_equations; then configure(**options of '
                'Q=#%d %s); configure_solver(the same argument objects); '
                'setup_properties(fresh plain arrays); get_equations'
                % (h['scheme'], h['p'], lab(h['p']), ex, h['q'], lab(h['q'])))
    return ('two %s objects, at P=#%d %s and at Q=#%d %s; P.configure_solver(%s) '
            'then Q.configure_solver(the same argument objects); then each: '
            'setup_properties(plain arrays); get_equations'
            % (h['scheme'], h['p'], lab(h['p']), h['q'], lab(h['q']), ex))


def hist_case(h, cp=None):
    c = {'scheme': h['scheme'], 'mode': 'history',
         'history': {'kind': h['kind'], 'p': h['p'], 'q': h['q'],
                     'xkind': h['xkind']},
         'what': history_text(h)}
    if cp is not None:
        c.update(index=cp['index'], digits=cp['digits'], labels=cp['labels'],
                 checkpoint=cp['label'])
    else:
        c.update(index=h['p'], digits=S.config_of_index(h['scheme'], h['p']))
    return c


def judge_history(h):
    """-> [(key, case, demand, observed)] for one history's answer"""
    n = h['scheme']
    out = []
    if 'raised' in h:
        out.append(('C12:%s:history:raises:%s' % (n, h['raised'][0]),
                    hist_case(h),
                    'configure / configure_solver / setup_properties / '
                    'get_equations run for documented options and arguments, '
                    'also on a scheme object or with argument objects that '
                    'were used before',
                    'raised %s: %s during: %s\n%s' % tuple(h['raised'])))
        return out
    for cp in h['checkpoints']:
        where = '%s; steppers %s' % (cp['label'], cp['steppers'])
        if cp['fail'] is not None or not cp['complete']:
            k = key_of(n, cp['missing'], cp['fail']).replace(
                'C12:%s:' % n, 'C12:%s:history:' % n, 1)
            out.append((k, hist_case(h, cp), CHECK_DEMAND +
                        ' -- for the configuration reached, whatever the '
                        'scheme object or the caller\'s argument objects were '
                        'used for before',
                        '%s: missing %s; real checker: %s'
                        % (where, cp['missing'], cp['fail'])))
        if cp['stage_failures']:
            icls, memb, prov = cp['stage_failures'][0]
            out.append(('C12:%s:history:stage-missing:%s.%s' % (n, icls, memb),
                        hist_case(h, cp), STAGE_DEMAND,
                        '%s: one_timestep of %s uses self.%s; wrappers %s'
                        % (where, icls, memb, prov)))
        if cp['type_failures']:
            cls, meth, arg, kt = cp['type_failures'][0]
            out.append(('C12:%s:history:index-type:%s.%s:%s'
                        % (n, cls, arg, kt.rstrip('*')), hist_case(h, cp),
                        'index-used array arguments have integer known types',
                        '%s: %s' % (where, cp['type_failures'])))
    return out


def case_of(o):
    return {'scheme': o['scheme'], 'index': o['index'], 'digits': o['digits'],
            'labels': o['labels']}


def describe_run(r):
    """one line: what a compiled run showed"""
    if 'crash' in r:
        return r['crash']
    if 'error' in r:
        e = r['error']
        return 'raised %s during %s: %s\n%s' % (e[0], e[3], e[1], e[2])
    if r.get('nonfinite'):
        return ('non-finite values on the real particles after %s (property, '
                'number of entries): %s' % (r['nonfinite_at'], r['nonfinite']))
    return ('finite after %s; %d real + %d ghost particles, %d output files; '
            '%s over %s'
            % (', '.join(r.get('stages', [])), r.get('nreal', 0),
               r.get('nghost', 0), r.get('dumps', 0), r.get('integrator'),
               r.get('steppers')))


def run_how(r):
    if r.get('hist_p') is None:
        how = 'fresh scheme object'
    else:
        how = ('scheme object first configured and set up at #%d %s, then '
               'configure(**options)' % (r['hist_p'], dict(S.describe(
                   r['scheme'], S.config_of_index(r['scheme'], r['hist_p'])))))
    return '%s; %s' % (how, {
        'none': 'extra_steppers not given', 'empty': 'extra_steppers={}',
        'walls': 'extra_steppers={<wall>: UserWallStep()}'}[
            r.get('xkind') or 'none'])


def run_failed(r):
    return 'crash' in r or 'error' in r or bool(r.get('nonfinite'))


def replay_run(case, name, idx, work):
    preimport()
    doms = [case['domain']] if case.get('domain') else \
        [d for d, _ in domain_variants(name, idx)]
    failed = False
    for dom in doms:
        R = ProcRunner(dispatch, 1)
        R.add([('run', name, idx, dom, work, case.get('hist_p'),
                case.get('xkind') or 'none')], 1800)
        for job, status, r in R.run():
            if status != 'ok':
                r = {'crash': r}
            elif '_exception' in r:
                r = {'crash': 'harness exception: ' + r['_exception']}
            print('observed (%s domain): %s' % (dom, describe_run(r)))
            failed = failed or run_failed(r)
    return failed


def replay(path, work):
    rp = json.load(open(path))
    case = rp['case']
    name, digits = case['scheme'], case['digits']
    idx = S.index_of_digits(name, digits)
    mode = case.get('mode', 'check')
    print('replaying %s #%d %s (%s)' % (name, idx, case.get('labels'), mode))
    print('demand  :', rp.get('demand'))
    failed = False
    if mode == 'run':
        # (in a child process, before any pysph code has run in this one)
        print('reached by:', run_how(case))
        sys.exit(1 if replay_run(case, name, idx, work) else 0)
    if mode == 'history':
        hh = case['history']
        h = hist_job((name, hh['kind'], hh['p'], hh['q'], hh['xkind']))
        print('history :', history_text(h))
        for cp in h['checkpoints']:
            print('  checkpoint %s -> #%d %s: steppers %s, checker: %s, '
                  'missing: %s, stages missing: %s'
                  % (cp['label'], cp['index'], cp['labels'], cp['steppers'],
                     cp['fail'], cp['missing'], cp['stage_failures']))
        probs = judge_history(h)
        for k, _, _, obs in probs:
            print('observed: [%s] %s' % (k, obs))
        if not probs:
            print('observed: every checkpoint complete, accepted, stages '
                  'provided')
        sys.exit(1 if probs else 0)
    o = examine((name, idx, True, True))
    if 'raised' in o and not o.get('declared_rejection'):
        print('observed: configuration raised', o['raised'])
        failed = True
    elif 'raised' not in o:
        if not o['accepted'] or not o['complete']:
            print('observed: missing', o['missing'], 'checker', o['fail'])
            failed = True
        else:
            print('observed: complete, accepted, code generated')
        if o.get('stage_failures'):
            print('observed: one_timestep uses members the generated '
                  'Integrator class will not have (integrator, member, '
                  'wrappers of the steppers):', o['stage_failures'])
            failed = True
        if o.get('type_failures'):
            print('observed: index-used arguments whose known type is not an '
                  'integer pointer (class, method, argument, known type):',
                  o['type_failures'])
            failed = True
    if mode in ('types', 'cython') and 'raised' not in o and o['accepted']:
        c = cython_job((name, idx, work))
        if 'codegen_error' in c:
            print('observed: code generation raised', c['codegen_error'])
            failed = True
        elif 'cython_error' in c:
            print('observed: Cython rejects the generated module: %s\n%s'
                  % tuple(c['cython_error']))
            failed = True
        else:
            print('observed: Cython translated %d generated module(s), %d '
                  'lines' % (c['modules'], c.get('lines', 0)))
    if mode == 'run' and not failed:
        failed = replay_run(case, name, idx, work)
    sys.exit(1 if failed else 0)


def main():
    a = H.args()
    if a.replay:
        replay(a.replay, a.work)
    R = H.Result(
        'cases = grid points (scheme class x option combination x dim x '
        'solids x clean) run on the real code; for every point: real property '
        'checkers; for the compared points: full description vs the model\'s '
        'decoded table entry; distinct = distinct description lines (same '
        'arrays, equations, needs, steppers count once); non-trivial = at '
        'least 3 equations')
    rng = random.Random(a.seed * 7919 + 12)
    thorough = a.tier != 'quick'
    t0 = time.time()
    names = list(S.SPECS)

    # grid agreement between the table and the harness' own view
    glines = H.run_model('C12', ['schemes'] + ['grid %s' % n for n in names])
    if glines[0] != ','.join(names):
        R.disagree({'what': 'scheme list'}, glines[0], ','.join(names), 'schemes')
    for n, gl in zip(names, glines[1:]):
        want = 'size=%d|entries=%d|axes=%s' % (
            S.grid_size(n), S.grid_size(n),
            ';'.join('%s:%s' % (ax, ','.join(l for l, _ in vals))
                     for ax, vals in S.grid_axes(n)))
        if gl != want:
            R.disagree({'what': 'grid', 'scheme': n}, gl, want, 'grid')

    # which points are described and compared, which get full code generation
    compare = {}
    for n in names:
        size = S.grid_size(n)
        if thorough or size <= 100:
            compare[n] = set(range(size))
        else:
            compare[n] = set(stratified(n, rng, 3, 40))
    jobs = []
    for n in names:
        size = S.grid_size(n)
        cg = set(rng.sample(sorted(compare[n]), min(len(compare[n]), 40))) \
            if not thorough else None
        for idx in range(size):
            described = idx in compare[n]
            codegen = described if thorough else (idx in cg)
            jobs.append((n, idx, codegen, described))
    # GSPH's options do not change the set-up outcome; thorough code
    # generation for all 9504 of its points adds nothing: keep every 8th
    if thorough:
        jobs = [(n, i, (cgn and (n != 'GSPHScheme' or i % 8 == 0)), d)
                for (n, i, cgn, d) in jobs]
    rng.shuffle(jobs)
    nproc = min(16, os.cpu_count() or 4)
    preimport()
    results = []
    dead = []           # (kind, scheme, index, status, what happened)
    runner = ProcRunner(dispatch, nproc)
    runner.add([('examine',) + j for j in jobs], 30, chunk=32)
    for job, status, o in runner.run():
        if status == 'ok' and '_exception' not in o:
            results.append(o)
        else:
            dead.append(('check', job[1], job[2], status if status != 'ok'
                         else 'crash', o if status != 'ok' else
                         'harness exception: ' + o['_exception']))
    R.note('examined %d grid points on the real code in %.0fs (%s)'
           % (len(results), time.time() - t0, runner.stats))

    # model answers for the compared points
    cmp_res = sorted((o for o in results if 'line' in o or 'raised' in o),
                     key=lambda o: (o['scheme'], o['index']))
    cmp_res = [o for o in cmp_res
               if o['index'] in compare[o['scheme']]]
    mlines = H.run_model('C12', ['point %s %d' % (o['scheme'], o['index'])
                                 for o in cmp_res])
    if len(mlines) != len(cmp_res):
        raise SystemExit('model driver answered %d lines for %d'
                         % (len(mlines), len(cmp_res)))
    nsample = 0
    for o, ml in zip(cmp_res, mlines):
        if 'raised' in o:
            impl = 'rejected' if o['declared_rejection'] else \
                'raised %s' % (o['raised'],)
        else:
            impl = o['line']
        if ml != impl:
            R.disagree(case_of(o), ml[:3000], impl[:3000], 'point')
        R.d['traces_validated_against_impl'] += 1
        # fingerprint: the outcome without the option labels
        fp = impl.split('|', 1)[1] if impl.startswith('labels:') else \
            impl + str(case_of(o)['labels'])
        R.case(fp, o.get('neq', 0) >= 3,
               {'case': case_of(o), 'impl': impl[:600], 'model': ml[:600]}
               if nsample < 3 and 'line' in o else None)
        if 'line' in o:
            nsample += 1

    # property oracle on every examined point
    nfail = 0
    per_key = {}
    type_fail = {}
    stage_fail = {}
    for o in sorted(results, key=lambda o: (o['scheme'], o['index'])):
        R.count('scheme:' + o['scheme'])
        if 'harness_error' in o:
            raise SystemExit('harness error on %s #%d: %s'
                             % (o['scheme'], o['index'], o['harness_error']))
        if 'raised' in o:
            if o['declared_rejection']:
                R.count('rejected-by-scheme (declared)')
            else:
                nfail += 1
                R.prop_fail('C12:%s:raises:%s' % (o['scheme'], o['raised'][0]),
                            dict(case_of(o), mode='check'),
                            'configure_solver / setup_properties / '
                            'get_equations run for this documented option '
                            'combination', 'raised %s: %s' % tuple(o['raised']))
            continue
        R.count('accepted' if o['accepted'] else 'REJECTED-by-real-checker')
        if o.get('type_failures'):
            cls, meth, arg, kt = o['type_failures'][0]
            k = 'C12:%s:index-type:%s.%s:%s' % (o['scheme'], cls, arg,
                                                kt.rstrip('*'))
            type_fail.setdefault(k, []).append((o['scheme'], o['index']))
            if len(type_fail[k]) <= 8:
                R.prop_fail(
                    k, dict(case_of(o), mode='types'),
                    'code generation for the whole problem succeeds: an array '
                    'argument an element of which an equation / stepper uses '
                    'as an index (subscript, range bound, assigned to a '
                    'declared int) is known to the code generator as an '
                    'int/unsigned int/long pointer',
                    'get_known_types_for_arrays gives (class, method, '
                    'argument, type): %s' % (o['type_failures'],))
        else:
            R.count('index-types-ok')
        if o.get('stage_failures'):
            icls, memb, prov = o['stage_failures'][0]
            k = 'C12:%s:stage-missing:%s.%s' % (o['scheme'], icls, memb)
            stage_fail.setdefault(k, []).append((o['scheme'], o['index']))
            if len(stage_fail[k]) <= 6:
                R.prop_fail(
                    k, dict(case_of(o), mode='check'), STAGE_DEMAND,
                    'one_timestep of %s uses self.%s; the steppers chosen by '
                    'the scheme give the wrappers %s (all missing members: %s)'
                    % (icls, memb, prov,
                       [m for _, m, _ in o['stage_failures']]))
        else:
            R.count('stages-provided')
        if not o['accepted'] or not o['complete']:
            nfail += 1
            k = key_of(o['scheme'], o['missing'], o['fail'])
            per_key[k] = per_key.get(k, 0) + 1
            if per_key[k] > 8:      # keep room for every class of failure
                continue
            R.prop_fail(
                k,
                dict(case_of(o), mode='check'),
                'every equation and stepper references only properties the '
                'arrays have after setup_properties; AccelerationEval / '
                'SPHCompiler set-up and code generation succeed',
                'missing %s; real checker: %s' % (o['missing'], o['fail']))
    for k, n in sorted(per_key.items()):
        R.note('%d grid points fail with key %s' % (n, k))
    for k, pts in sorted(type_fail.items()):
        nfail += len(pts)
        R.note('%d grid points fail with key %s' % (len(pts), k))
    for k, pts in sorted(stage_fail.items()):
        nfail += len(pts)
        R.note('%d grid points fail with key %s' % (len(pts), k))
    R.count('codegen-points', sum(1 for j in jobs if j[2]))
    R.count('compared-points', len(cmp_res))

    # a rejected / failing point cannot be generated
    bad = {(o['scheme'], o['index']) for o in results
           if 'raised' in o or not o.get('accepted') or not o.get('complete')}
    bad |= {(n, i) for _, n, i, _, _ in dead}

    # code generation + Cython translation of a covering sample
    cy_points = []
    for n in names:
        pts = cython_sample(n, rng, [i for i in range(S.grid_size(n))
                                     if (n, i) not in bad])
        if thorough:
            pts += stratified(n, rng, 2, 20)
        cy_points += [(n, i) for i in pts]
    # every class of type failure is also put through Cython itself
    for k, pts in sorted(type_fail.items()):
        cy_points += pts[:2]
    cy_points = [p for p in dict.fromkeys(cy_points) if p not in bad]
    rng.shuffle(cy_points)

    # compile + run
    import importlib.util
    have_scipy = importlib.util.find_spec('scipy') is not None
    tf_pts = {p for pts in type_fail.values() for p in pts}
    run_notes = []
    run_sel = select_runs(names, a.seed, thorough, bad | tf_pts, have_scipy,
                          run_notes)
    for x in run_notes:
        R.note(x)
    known_why = {(n, i, d): w[1] for n, i, d, w, _, _ in run_sel if w}
    # one queue: the compile-and-run jobs first (they are the long ones; the
    # open variants before the periodic ones, which then find the module of
    # the same configuration in the cache), then the index-scan validation
    # and the Cython sample
    t1 = time.time()
    scan_points = class_cover(results, bad, rng)
    runner = ProcRunner(dispatch, nproc)
    run_tmo = 900 if thorough else 600
    runner.add([('run', n, i, d, a.work, hp, xk) for n, i, d, _, hp, xk in
                sorted(run_sel, key=lambda x: x[2])], run_tmo)
    runner.add([('scan', n, i, a.work) for n, i in scan_points] +
               [('cy', n, i, a.work) for n, i in cy_points], 600)
    hist_sel = select_histories(names, rng, bad | tf_pts, thorough)
    runner.add([('hist',) + j for j in hist_sel], 120, chunk=6)
    both = []
    runs = []
    hists = []
    for job, status, o in runner.run():
        if status == 'ok' and '_exception' in o:
            status, o = 'crash', 'harness exception: ' + o['_exception']
        if job[0] == 'hist':
            if status != 'ok':
                o = {'scheme': job[1], 'kind': job[2], 'p': job[3],
                     'q': job[4], 'xkind': job[5], 'checkpoints': [],
                     'raised': (status, str(o)[:300], 'the whole history',
                                '')}
            hists.append(o)
        elif job[0] == 'run':
            if status != 'ok':
                dg = S.config_of_index(job[1], job[2])
                o = {'scheme': job[1], 'index': job[2], 'digits': dg,
                     'labels': dict(S.describe(job[1], dg)),
                     'domain': job[3], 'crash': o, 'status': status,
                     'hist_p': job[5], 'xkind': job[6]}
            runs.append(o)
        elif status != 'ok':
            if job[0] == 'scan':
                raise SystemExit('index-scan validation of %s #%d: %s'
                                 % (job[1], job[2], o))
            dead.append(('cython', job[1], job[2], status, o))
        else:
            both.append(o)
    R.note('process runner: %s' % runner.stats)
    cys = [c for c in both if 'problems' not in c]
    scans = [c for c in both if 'problems' in c]
    # the index-use scan against Cython's type checker
    validated = set()
    with_use = set()
    for c in sorted(scans, key=lambda c: (c['scheme'], c['index'])):
        if 'error' in c:
            raise SystemExit('index-scan validation could not generate %s #%d: '
                             '%s' % (c['scheme'], c['index'], c['error']))
        validated |= set(c['classes'])
        with_use |= set(c['with_index_use'])
        for pr in c['problems']:
            R.disagree(dict(case_of(c), what='index-use scan',
                            cls=pr[1], method=pr[2]),
                       'scan: %s' % pr[0], 'cython: %s | %s' % (pr[3], pr[4]),
                       'index-scan')
    R.count('index-scan: classes validated against Cython', len(validated))
    R.count('index-scan: methods with an index use', len(with_use))
    R.note('index-use scan validated against Cython (all arrays typed double*) '
           'on %d configurations covering %d equation/stepper classes; methods '
           'with index uses: %s' % (len(scans), len(validated),
                                    sorted(with_use)))
    cy_keys = {}
    covered = {}
    for c in sorted(cys, key=lambda c: (c['scheme'], c['index'])):
        R.count('cython:' + c['scheme'])
        for ax, lab in c['labels'].items():
            covered.setdefault(c['scheme'], set()).add((ax, lab))
        if 'codegen_error' in c:
            k = 'C12:%s:codegen:%s' % (c['scheme'], c['codegen_error'][0])
            obs = 'code generation raised %s: %s' % tuple(c['codegen_error'])
        elif 'cython_error' in c:
            k = 'C12:%s:cython:%s' % (c['scheme'], c['cython_error'][0])
            obs = 'Cython rejects the generated module: %s\n%s' % tuple(
                c['cython_error'])
        else:
            R.count('cython-ok')
            continue
        nfail += 1
        cy_keys[k] = cy_keys.get(k, 0) + 1
        if cy_keys[k] <= 4:
            R.prop_fail(k, dict(case_of(c), mode='cython'),
                        'code generation for the whole problem succeeds: the '
                        'generated module passes the Cython translation step',
                        obs)
    for mode, n, i, _, _ in dead:       # reported below as crash / timeout
        if mode == 'cython':
            covered.setdefault(n, set()).update(
                S.describe(n, S.config_of_index(n, i)).items())
    for n in names:
        want = {kv for i in range(S.grid_size(n)) if (n, i) not in bad
                for kv in S.describe(n, S.config_of_index(n, i)).items()}
        miss = want - covered.get(n, set())
        if miss:
            raise SystemExit('cython sample of %s misses option values %s'
                             % (n, sorted(miss)))
    R.note('generated + cythonized %d configurations (%d modules, %d answered '
           'from the per-source cache) covering every option value of every '
           'scheme in %.0fs; %d failed'
           % (len(cys), sum(c['modules'] for c in cys),
              sum(c['cached'] for c in cys), time.time() - t1,
              sum(cy_keys.values())))

    # the histories: tie (model `pointx` = withExtra on the table entry of the
    # point reached) and the property oracle at every checkpoint
    hists.sort(key=lambda h: (h['scheme'], h['kind'], h['p'], h['q'],
                              h['xkind']))
    cps = [(h, cp) for h in hists for cp in h['checkpoints']]
    hl = H.run_model('C12', ['pointx %s %d %s' % (h['scheme'], cp['index'],
                                                  cp['extra'])
                             for h, cp in cps])
    if len(hl) != len(cps):
        raise SystemExit('model driver answered %d lines for %d checkpoints'
                         % (len(hl), len(cps)))
    hist_keys = {}
    ndis = 0
    for (h, cp), ml in zip(cps, hl):
        R.d['traces_validated_against_impl'] += 1
        if ml != cp['line']:
            ndis += 1
            if ndis <= 12:
                R.disagree(hist_case(h, cp), ml[:3000], cp['line'][:3000],
                           'history-point')
        R.case('hist|' + cp['line'].split('|', 1)[1] + cp['extra'],
               cp['line'].count('|eq:') >= 3, None)
    if ndis > 12:
        R.note('%d further history checkpoints disagree with the model'
               % (ndis - 12))
    for h in hists:
        R.count('history:%s:%s' % (h['kind'], h['xkind']))
        R.count('history:' + h['scheme'])
        if 'caller_dict_changed' in h:
            R.count('history: configure_solver changed the caller\'s '
                    'extra_steppers dict')
        for k, case, demand, obs in judge_history(h):
            nfail += 1
            hist_keys[k] = hist_keys.get(k, 0) + 1
            if hist_keys[k] <= 3:
                R.prop_fail(k, case, demand, obs)
    for k, n in sorted(hist_keys.items()):
        R.note('%d history checkpoints fail with key %s' % (n, k))
    if R.d['distribution'].get('history: configure_solver changed the '
                               'caller\'s extra_steppers dict'):
        R.note('configure_solver wrote into the caller\'s extra_steppers dict '
               'in some histories (not demanded by C12 itself; its consequences '
               'are what the checkpoints judge)')
    R.note('%d histories (%d checkpoints) on reused scheme objects / shared '
           'argument objects, each checkpoint compared with the model\'s '
           'withExtra answer and judged by the per-point oracle'
           % (len(hists), len(cps)))

    # workers that died / were killed while checking or generating a point
    for mode, n, i, status, what in sorted(dead):
        nfail += 1
        dg = S.config_of_index(n, i)
        R.prop_fail('C12:%s:%s' % (n, status),
                    {'scheme': n, 'index': i, 'digits': dg,
                     'labels': dict(S.describe(n, dg)), 'mode': mode},
                    'set-up, the fail-fast checks and code generation of the '
                    'configuration complete', what)

    # the compiled runs
    run_keys = {}
    for r in sorted(runs, key=lambda r: (r['scheme'], r['index'],
                                         r['domain'])):
        R.count('run:%s:%s' % (r['scheme'], r['domain']))
        case = dict(case_of(r), mode='run', domain=r['domain'],
                    hist_p=r.get('hist_p'), xkind=r.get('xkind', 'none'),
                    how=run_how(r))
        R.count('run-reached-by:%s' % ('history' if r.get('hist_p') is not None
                                       and 'history_skipped' not in r
                                       else 'fresh scheme'))
        R.count('run-extra_steppers:%s' % r.get('xkind', 'none'))
        for ax, lab in r['labels'].items():
            if ax.startswith('solver:'):
                R.count('run-%s=%s' % (ax, lab))
        why = known_why.get((r['scheme'], r['index'], r['domain']))
        demand = ('the whole problem compiles and runs on a lattice with '
                  'h = hdx*dx (%s domain): after the initial evaluation and '
                  'after each of %d steps every floating-point property of '
                  'the real particles is finite' % (r['domain'], NSTEPS))
        if why is not None:
            R.count('run-known-defect (finiteness not demanded)')
            R.note('known defect of the unchanged tree, %s #%d %s %s: %s -- '
                   'this run: %s' % (r['scheme'], r['index'], r['labels'],
                                     r['domain'], why,
                                     describe_run(r)[:300]))
            continue
        if not run_failed(r):
            R.count('run-ok')
            continue
        if 'crash' in r:
            k = 'C12:%s:%s' % (r['scheme'], r.get('status', 'crash'))
        elif 'error' in r:
            k = 'C12:%s:run:%s' % (r['scheme'], r['error'][0])
        else:
            k = 'C12:%s:non-finite:%s' % (r['scheme'], r['nonfinite'][0][0])
        nfail += 1
        run_keys[k] = run_keys.get(k, 0) + 1
        if run_keys[k] <= 4:
            R.prop_fail(k, case, demand, describe_run(r))
    for k, n in sorted(run_keys.items()):
        R.note('%d compiled runs fail with key %s' % (n, k))
    ndist = len({(r['scheme'], r['index']) for r in runs})
    R.count('run-configurations', ndist)
    R.note('compiled %d configurations and ran %d (configuration, domain) '
           'variants (initial evaluation + %d steps, output on, lattice %s '
           'points per direction) in %.0fs: %s'
           % (ndist, len(runs), NSTEPS, RUN_N, time.time() - t1,
              [(r['scheme'].replace('Scheme', ''), r['index'], r['domain'][:3],
                round(r.get('wall', 0))) for r in runs][:80]))
    for (n, d), why in sorted(NOT_A_SETUP.items()):
        R.note('not run: %s in the %s domain: %s' % (n, d, why))
    if a.broken or R.d['disagreements']:
        R.d['search'] = {
            'note': 'the oracle above already ran on every grid point',
            'examined': len(results), 'found': nfail}
    R.write(a.out)


if __name__ == '__main__':
    main()
