"""C06 correspondence + property oracle: ParticleArray under op sequences.

impl  : pysph.base.particle_array.ParticleArray (scratch build of /repo)
model : lean PysphVerif.Model.PArray through model_c06 (exact state compare)
oracle: a straightforward record-list model in Python (order-insensitive
        multisets of whole particles), plus the coherence predicates of the
        property statement evaluated on the real arrays after every operation.

Values are integers coded as uid*64 + propcode*8 + component, so that a row
whose entries decode to different uids is a torn particle, whatever the model
says.
"""
import collections
import json
import pickle
import random
import sys

import numpy as np

import hcommon as H

H.assert_scratch_import()
from pysph.base.particle_array import ParticleArray  # noqa: E402
from cyarray.api import LongArray  # noqa: E402

POOL = [('x', 'double', 1), ('y', 'double', 1), ('A', 'double', 3),
        ('B', 'int', 2), ('m', 'float', 1), ('k', 'long', 1),
        ('u', 'unsigned int', 1), ('S', 'float', 2)]
PCODE = {p[0]: i for i, p in enumerate(POOL)}
PCODE.update({'pid': None, 'gid': None, 'tag': None})
UID = [0]


def coded(name, stride, uid):
    c = PCODE.get(name)
    if c is None:
        c = 0
    return [uid * 64 + c * 8 + j for j in range(stride)]


# ---------------------------------------------------------------- impl state

def dump_impl(pa):
    props = []
    for name, arr in pa.properties.items():
        props.append((name, arr.get_c_type(),
                      [int(v) for v in arr.get_npy_array()]))
    return {
        'name': pa.name,
        'nreal': int(pa.num_real_particles),
        'out': sorted(pa.output_property_arrays),
        'S': {k: int(v) for k, v in pa.stride.items()},
        'D': {k: int(v) for k, v in pa.default_values.items()},
        'P': props,
        'K': [(k, [int(v) for v in a.get_npy_array()])
              for k, a in pa.constants.items()],
    }


def parse_model(text):
    toks = text.split()
    assert toks[0] == 'ok', text
    d = {'P': [], 'K': []}

    def ints(s):
        return [] if s == '_' else [int(v) for v in s.split(',')]
    i = 1
    while i < len(toks):
        t = toks[i]
        if t == 'P':
            n, ct, da = toks[i + 1].split(':')
            d['P'].append((n, ct.replace('~', ' '), ints(da)))
            i += 2
            continue
        if t == 'K':
            n, da = toks[i + 1].split(':')
            d['K'].append((n, ints(da)))
            i += 2
            continue
        k, v = t.split('=', 1)
        if k == 'name':
            d['name'] = v
        elif k == 'nreal':
            d['nreal'] = int(v)
        elif k == 'out':
            d['out'] = sorted([] if v == '_' else v.split(','))
        elif k in ('S', 'D'):
            d[k] = {} if v == '_' else {
                kv.split('=')[0]: int(kv.split('=')[1]) for kv in v.split(',')}
        i += 1
    return d


def dump_text(d):
    """the `load` argument in the driver's dump format"""
    def ints(l):
        return ','.join(str(v) for v in l) if l else '_'

    def kvd(m):
        return ','.join('%s=%d' % kv for kv in m.items()) if m else '_'
    parts = ['name=%s' % d['name'], 'nreal=%d' % d['nreal'],
             'out=%s' % (','.join(d['out']) if d['out'] else '_'),
             'S=' + kvd(d['S']), 'D=' + kvd(d['D'])]
    for n, ct, da in d['P']:
        parts.append('P %s:%s:%s' % (n, ct.replace(' ', '~'), ints(da)))
    for n, da in d['K']:
        parts.append('K %s:%s' % (n, ints(da)))
    return ' '.join(parts)


def stride_of(d, name):
    return d['S'].get(name, 1)


def n_of(d):
    for n, ct, da in d['P']:
        if n == 'tag':
            return len(da)
    if d['P']:
        n, ct, da = d['P'][0]
        return len(da) // stride_of(d, n)
    return 0


def records(d):
    """list of records (dict prop -> tuple) in slot order; None if incoherent"""
    n = n_of(d)
    recs = [dict() for _ in range(n)]
    for name, ct, da in d['P']:
        s = stride_of(d, name)
        if len(da) != n * s:
            return None
        for i in range(n):
            recs[i][name] = tuple(da[i * s:(i + 1) * s])
    return recs


def bag(recs):
    return collections.Counter(frozenset(r.items()) for r in recs)


def schema(d):
    return {n: (ct, stride_of(d, n), d['D'].get(n)) for n, ct, da in d['P']}


# ------------------------------------------------------------ property check

def coherence(d, R, case, aligned_expected):
    """the statement's own predicates on the real array"""
    n = n_of(d)
    for name, ct, da in d['P']:
        s = stride_of(d, name)
        if len(da) != n * s:
            R.prop_fail('C06:length-not-n-times-stride', case,
                        'len(%s) = n*stride = %d*%d' % (name, n, s),
                        'len = %d' % len(da))
            return False
    if set(d['D']) != {p[0] for p in d['P']}:
        R.prop_fail('C06:defaults-out-of-step', case,
                    'default_values keys == property names',
                    '%s vs %s' % (sorted(d['D']), sorted(p[0] for p in d['P'])))
        return False
    recs = records(d)
    # torn rows: every component of a strided property in one slot must come
    # from the same particle and sit at its own component position
    for i, r in enumerate(recs):
        for name, vals in r.items():
            c = PCODE.get(name)
            if name not in PCODE or c is None:
                continue
            dv = d['D'].get(name)
            if all(v == dv for v in vals):
                continue
            uids = set()
            for j, v in enumerate(vals):
                if v < 64:
                    continue
                if (v % 64) != c * 8 + j:
                    R.prop_fail('C06:torn-particle', case,
                                'slot %d of %s holds its own components in order' % (i, name),
                                'values %s' % (vals,))
                    return False
                uids.add(v // 64)
            if len(uids) > 1:
                R.prop_fail('C06:torn-particle', case,
                            'the %d components of %s in slot %d belong to one particle' % (len(vals), name, i),
                            'values %s' % (vals,))
                return False
    if aligned_expected:
        tags = [r['tag'][0] for r in recs]
        nl = sum(1 for t in tags if t == 0)
        if d['nreal'] != nl or any(t != 0 for t in tags[:nl]):
            R.prop_fail('C06:not-aligned', case,
                        'Local particles occupy the first num_real_particles slots',
                        'tags %s nreal %d' % (tags, d['nreal']))
            return False
    return True


# ------------------------------------------------------------------- the ops

class Sim:
    def __init__(self, rng, R, tier):
        self.rng = rng
        self.R = R
        self.pas = {}
        self.lines = []
        self.expect = []     # (kind, slot, impl dump or 'error', op, before dumps)
        self.tier = tier

    # -- helpers
    def new_particles(self, pa, k, names=None, tags=True):
        """dict prop -> flat coded data for k new particles"""
        g = {}
        uids = []
        for _ in range(k):
            UID[0] += 1
            uids.append(UID[0])
        for name in pa.properties:
            if names is not None and name not in names:
                continue
            s = pa.stride.get(name, 1)
            if name == 'tag':
                g[name] = [self.rng.choice([0, 0, 0, 1, 2]) for _ in uids]
            elif name in ('pid', 'gid'):
                g[name] = [u for u in uids]
            else:
                g[name] = [v for u in uids for v in coded(name, s, u)]
        return g

    def op_line(self, op):
        k = op['op']
        s = op['s']

        def ints(l):
            return ','.join(str(int(v)) for v in l) if len(l) else '_'

        def ostr(l):
            return '-' if l is None else (','.join(l) if l else '_')
        if k == 'new':
            return 'new s=%d name=%s' % (s, op['name'])
        if k == 'add_particles':
            return 'add_particles s=%d align=%d %s' % (s, op['align'], ' '.join(
                'G %s:%s' % (n, ints(v)) for n, v in op['given'].items()))
        if k == 'remove_particles':
            return 'remove_particles s=%d idx=%s align=%d' % (s, ints(op['idx']), op['align'])
        if k == 'remove_tagged':
            return 'remove_tagged s=%d tag=%d align=%d' % (s, op['tag'], op['align'])
        if k == 'extend':
            return 'extend s=%d k=%d' % (s, op['k'])
        if k == 'resize':
            return 'resize s=%d m=%d' % (s, op['m'])
        if k == 'align':
            return 'align s=%d' % s
        if k == 'set_tag':
            return 'set_tag s=%d tag=%d idx=%s' % (s, op['tag'], ints(op['idx']))
        if k == 'add_property':
            return 'add_property s=%d name=%s type=%s default=%s data=%s stride=%d' % (
                s, op['name'], op['type'].replace(' ', '~'),
                '-' if op['default'] is None else str(op['default']),
                '-' if op['data'] is None else ints(op['data']), op['stride'])
        if k == 'remove_property':
            return 'remove_property s=%d name=%s' % (s, op['name'])
        if k == 'add_constant':
            return 'add_constant s=%d name=%s data=%s' % (s, op['name'], ints(op['data']))
        if k == 'set':
            return 'set s=%d name=%s data=%s' % (s, op['name'], ints(op['data']))
        if k == 'set_outputs':
            return 'set_outputs s=%d props=%s' % (s, ostr(op['props']))
        if k == 'add_outputs':
            return 'add_outputs s=%d props=%s' % (s, ostr(op['props']))
        if k == 'empty_clone':
            return 'empty_clone s=%d to=%d props=%s' % (s, op['to'], ostr(op['props']))
        if k == 'extract':
            return 'extract s=%d to=%d idx=%s align=%d props=%s' % (
                s, op['to'], ints(op['idx']), op['align'], ostr(op['props']))
        if k == 'extract_into':
            return 'extract_into s=%d dest=%d idx=%s align=%d props=%s' % (
                s, op['dest'], ints(op['idx']), op['align'], ostr(op['props']))
        if k == 'append':
            return 'append s=%d src=%d align=%d upd=%d' % (s, op['src'], op['align'], op['upd'])
        if k == 'ensure':
            return 'ensure s=%d src=%d props=%s' % (s, op['src'], ostr(op['props']))
        if k == 'pickle':
            return 'pickle s=%d to=%d' % (s, op['to'])
        raise ValueError(k)

    def apply_impl(self, op):
        """run op on the real arrays; returns affected slot"""
        k = op['op']
        pa = self.pas.get(op['s'])
        if k == 'new':
            self.pas[op['s']] = ParticleArray(name=op['name'])
            return op['s']
        if k == 'add_particles':
            pa.add_particles(align=bool(op['align']), **{
                n: np.array(v) for n, v in op['given'].items()})
        elif k == 'remove_particles':
            pa.remove_particles(list(op['idx']), align=bool(op['align']))
        elif k == 'remove_tagged':
            pa.remove_tagged_particles(op['tag'], align=bool(op['align']))
        elif k == 'extend':
            pa.extend(op['k'])
        elif k == 'resize':
            pa.resize(op['m'])
        elif k == 'align':
            pa.align_particles()
        elif k == 'set_tag':
            la = LongArray(len(op['idx']))
            la.set_data(np.array(op['idx'], dtype=np.int64))
            pa.set_tag(op['tag'], la)
        elif k == 'add_property':
            kw = dict(name=op['name'], type=op['type'], stride=op['stride'])
            if op['default'] is not None:
                kw['default'] = op['default']
            if op['data'] is not None:
                kw['data'] = np.array(op['data'], dtype=float)
            pa.add_property(**kw)
        elif k == 'remove_property':
            pa.remove_property(op['name'])
        elif k == 'add_constant':
            pa.add_constant(op['name'], np.array(op['data'], dtype=float))
        elif k == 'set':
            pa.set(**{op['name']: np.array(op['data'])})
        elif k == 'set_outputs':
            pa.set_output_arrays(list(op['props']))
        elif k == 'add_outputs':
            pa.add_output_arrays(list(op['props']))
        elif k == 'empty_clone':
            self.pas[op['to']] = pa.empty_clone(props=op['props'])
            return op['to']
        elif k == 'extract':
            self.pas[op['to']] = pa.extract_particles(
                list(op['idx']), align=bool(op['align']), props=op['props'])
            return op['to']
        elif k == 'extract_into':
            pa.extract_particles(list(op['idx']), dest_array=self.pas[op['dest']],
                                 align=bool(op['align']), props=op['props'])
            return op['dest']
        elif k == 'append':
            pa.append_parray(self.pas[op['src']], align=bool(op['align']),
                             update_constants=bool(op['upd']))
        elif k == 'ensure':
            pa.ensure_properties(self.pas[op['src']], op['props'])
        elif k == 'pickle':
            self.pas[op['to']] = pickle.loads(pickle.dumps(pa))
            return op['to']
        else:
            raise ValueError(k)
        return op['s']

    # -- generation of a valid op on the current impl state
    def gen_op(self):
        rng = self.rng
        slots = sorted(self.pas)
        s = rng.choice(slots)
        pa = self.pas[s]
        n = pa.get_number_of_particles()
        names = list(pa.properties)
        user = [p for p in names if p in PCODE and PCODE[p] is not None]
        absent = [p for p in POOL if p[0] not in pa.properties
                  and p[0] not in pa.constants]
        free_slot = max(slots) + 1 if len(slots) < 4 else rng.choice(slots[1:] or [1])
        choices = ['add_particles'] * 5 + ['remove_particles'] * 4 + \
            ['add_property'] * 3 + ['remove_property'] * 2 + ['extend', 'align',
             'remove_tagged', 'set_tag', 'set_tag', 'add_constant', 'set',
             'set_outputs', 'add_outputs', 'empty_clone', 'extract', 'extract',
             'extract_into', 'append', 'append', 'ensure', 'pickle', 'resize']
        for _ in range(20):
            k = rng.choice(choices)
            if k == 'add_particles':
                cnt = rng.choice([1, 1, 2, 3, 5])
                sub = None
                if rng.random() < 0.5 and user:
                    sub = set(rng.sample(names, rng.randint(1, len(names))))
                g = self.new_particles(pa, cnt, sub)
                if not g:
                    continue
                items = list(g.items())
                rng.shuffle(items)
                return dict(op=k, s=s, align=rng.choice([1, 1, 0]), given=dict(items))
            if k == 'remove_particles' and n > 0:
                cnt = rng.randint(0, min(n, 4))
                idx = rng.sample(range(n), cnt)
                return dict(op=k, s=s, idx=idx, align=rng.choice([1, 1, 0]))
            if k == 'remove_tagged':
                return dict(op=k, s=s, tag=rng.choice([0, 1, 2]), align=rng.choice([1, 0]))
            if k == 'extend':
                return dict(op=k, s=s, k=rng.choice([0, 1, 2, 3]))
            if k == 'resize' and n > 0 and rng.random() < 0.5:
                return dict(op=k, s=s, m=rng.randint(0, n))
            if k == 'align':
                return dict(op=k, s=s)
            if k == 'set_tag' and n > 0:
                cnt = rng.randint(1, min(n, 3))
                return dict(op=k, s=s, tag=rng.choice([0, 1, 2]),
                            idx=rng.sample(range(n), cnt))
            if k == 'add_property':
                if rng.random() < 0.12:
                    # change the default of a built-in property (e.g. what
                    # ParticleArray(default_particle_tag=Remote) does): clones,
                    # extensions and additions must then carry that default
                    name = rng.choice(['tag', 'tag', 'pid', 'gid'])
                    ty = pa.properties[name].get_c_type()
                    dflt = rng.choice([0, 1, 2]) if name == 'tag' else rng.randint(1, 30)
                    return dict(op=k, s=s, name=name, type=ty, default=dflt,
                                data=None, stride=1)
                if absent and rng.random() < 0.8:
                    name, ty, st = rng.choice(absent)
                    if rng.random() < 0.2:
                        st = rng.choice([1, 2, 3])
                else:
                    # re-add an existing user property (allowed by the API)
                    if not user:
                        continue
                    name = rng.choice(user)
                    ty = pa.properties[name].get_c_type()
                    st = pa.stride.get(name, 1)
                    if rng.random() < 0.5:
                        # the documented harmless call: re-declare an existing
                        # (possibly strided) property without giving a stride
                        return dict(op=k, s=s, name=name, type=ty,
                                    default=rng.choice([None, rng.randint(0, 40)]),
                                    data=None, stride=1)
                dflt = rng.choice([None, None, rng.randint(0, 40),
                                   -rng.randint(1, 9) if ty not in ('unsigned int',) else 7])
                data = None
                z = rng.random()
                if z < 0.35 and name not in pa.properties:
                    cnt = n if n > 0 else rng.choice([0, 2, 3])
                    UID[0] += cnt
                    data = [v for u in range(UID[0] - cnt + 1, UID[0] + 1)
                            for v in coded(name, st, u)]
                elif z < 0.45 and name in pa.properties and n > 0:
                    UID[0] += n
                    data = [v for u in range(UID[0] - n + 1, UID[0] + 1)
                            for v in coded(name, st, u)]
                return dict(op=k, s=s, name=name, type=ty, default=dflt,
                            data=data, stride=st)
            if k == 'remove_property' and user:
                return dict(op=k, s=s, name=rng.choice(user))
            if k == 'add_constant':
                cn = rng.choice(['c0', 'c1', 'c2'])
                if cn in pa.constants or cn in pa.properties:
                    continue
                return dict(op=k, s=s, name=cn,
                            data=[rng.randint(0, 9) for _ in range(rng.choice([1, 3]))])
            if k == 'set' and user and n > 0:
                name = rng.choice(user)
                st = pa.stride.get(name, 1)
                UID[0] += n
                data = [v for u in range(UID[0] - n + 1, UID[0] + 1)
                        for v in coded(name, st, u)]
                if rng.random() < 0.2:
                    data = data[:st * rng.randint(0, n)]
                return dict(op=k, s=s, name=name, data=data)
            if k in ('set_outputs', 'add_outputs') and names:
                return dict(op=k, s=s, props=rng.sample(names, rng.randint(0, min(3, len(names)))))
            if k == 'empty_clone':
                pr = None if rng.random() < 0.5 or not names else \
                    rng.sample(names, rng.randint(1, len(names)))
                return dict(op=k, s=s, to=free_slot, props=pr)
            if k == 'extract' and n > 0:
                pr = None if rng.random() < 0.6 else \
                    rng.sample(names, rng.randint(1, len(names)))
                cnt = rng.randint(0, min(n, 4))
                return dict(op=k, s=s, to=free_slot, idx=rng.sample(range(n), cnt),
                            align=rng.choice([1, 0]), props=pr)
            if k == 'extract_into' and n > 0 and len(slots) > 1:
                d = rng.choice([x for x in slots if x != s])
                dest = self.pas[d]
                common = [p for p in names if p in dest.properties
                          and dest.stride.get(p, 1) == pa.stride.get(p, 1)
                          and dest.properties[p].get_c_type() == pa.properties[p].get_c_type()]
                if not all(p in common for p in names):
                    pr = common
                    if not pr:
                        continue
                else:
                    pr = None if rng.random() < 0.5 else common
                cnt = rng.randint(1, min(n, 3))
                return dict(op=k, s=s, dest=d, idx=rng.sample(range(n), cnt),
                            align=rng.choice([1, 0]), props=pr)
            if k == 'append' and len(slots) > 1:
                d = rng.choice([x for x in slots if x != s])
                src = self.pas[d]
                ok = all(src.stride.get(p, 1) == pa.stride.get(p, 1) and
                         src.properties[p].get_c_type() == pa.properties[p].get_c_type()
                         for p in src.properties if p in pa.properties)
                ok = ok and not any(p in pa.constants for p in src.properties)
                if not ok:
                    continue
                return dict(op=k, s=s, src=d, align=rng.choice([1, 0]), upd=rng.choice([0, 1]))
            if k == 'ensure' and len(slots) > 1:
                d = rng.choice([x for x in slots if x != s])
                src = self.pas[d]
                if any(p in pa.constants for p in src.properties):
                    continue
                pr = None if rng.random() < 0.6 else \
                    rng.sample(list(src.properties), rng.randint(1, len(src.properties)))
                return dict(op=k, s=s, src=d, props=pr)
            if k == 'pickle':
                return dict(op=k, s=s, to=free_slot)
        return dict(op='align', s=s)


# -------------------------------------------------- the record-list oracle

def expected_bag(op, before, after_schema):
    """Multiset of records the property demands after `op`, from the impl's
    state before it.  `before` maps slot -> dump.  Returns (bag, note) or
    (None, why) when the statement does not determine it."""
    k = op['op']
    b = before.get(op['s'])
    recs = records(b) if b is not None else []
    if recs is None:
        return None, 'incoherent before'
    sch = schema(b) if b is not None else {}

    def default_rec(s, d):
        return {n: tuple([d['D'][n]] * st) for n, (ct, st, df) in s.items()}
    if k == 'new':
        return bag([]), ''
    if k == 'add_particles':
        g = op['given']
        last = list(g)[-1]
        cnt = len(g[last]) // sch[last][1]
        new = []
        for i in range(cnt):
            r = default_rec(sch, b)
            for n, v in g.items():
                st = sch[n][1]
                r[n] = tuple(v[i * st:(i + 1) * st])
            new.append(r)
        return bag(recs + new), ''
    if k == 'remove_particles':
        idx = set(op['idx'])
        return bag([r for i, r in enumerate(recs) if i not in idx]), ''
    if k == 'remove_tagged':
        return bag([r for r in recs if r['tag'][0] != op['tag']]), ''
    if k == 'extend':
        return bag(recs + [default_rec(sch, b) for _ in range(op['k'])]), ''
    if k == 'resize':
        return bag(recs[:op['m']]), ''
    if k == 'align':
        return bag(recs), ''
    if k == 'set_tag':
        out = [dict(r) for r in recs]
        for i in op['idx']:
            out[i]['tag'] = (op['tag'],)
        return bag(out), ''
    if k == 'add_property':
        name, st = op['name'], op['stride']
        n = len(recs)
        if name in sch:
            st_eff = sch[name][1] if st == 1 else st
        else:
            st_eff = st
        dflt = op['default']
        if dflt is None:
            dflt = sch[name][2] if name in sch else 0
        data = op['data']
        if data is not None and len(data) == 0:
            data = None
        if n == 0 and data is not None:
            cnt = len(data) // st
            out = []
            for i in range(cnt):
                r = default_rec(sch, b)
                r[name] = tuple(data[i * st:(i + 1) * st])
                out.append(r)
            if name != 'tag':
                pass
            return bag(out), ''
        out = [dict(r) for r in recs]
        for i, r in enumerate(out):
            if data is not None:
                if len(data) == n * st_eff:
                    r[name] = tuple(data[i * st_eff:(i + 1) * st_eff])
                else:
                    return None, 'partial data'
            elif name not in sch:
                r[name] = tuple([dflt] * st)
        return bag(out), ''
    if k == 'remove_property':
        return bag([{n: v for n, v in r.items() if n != op['name']} for r in recs]), ''
    if k in ('add_constant', 'set_outputs', 'add_outputs'):
        return bag(recs), ''
    if k == 'set':
        name = op['name']
        st = sch[name][1]
        out = [dict(r) for r in recs]
        m = len(op['data']) // st
        for i in range(m):
            out[i][name] = tuple(op['data'][i * st:(i + 1) * st])
        return bag(out), ''
    if k == 'empty_clone':
        return bag([]), ''
    if k in ('extract', 'extract_into'):
        names = op['props'] if op['props'] is not None else list(sch)
        if k == 'extract':
            dsch = after_schema
            drecs = []
            dd = None
        else:
            dd = before[op['dest']]
            dsch = schema(dd)
            drecs = records(dd)
            if drecs is None:
                return None, 'incoherent dest'
        new = []
        for i in op['idx']:
            r = {}
            for n, (ct, st, df) in dsch.items():
                if n in names and n in recs[i]:
                    r[n] = recs[i][n]
                else:
                    r[n] = tuple([df] * st)
            new.append(r)
        return bag(drecs + new), ''
    if k == 'append':
        src = before[op['src']]
        srecs = records(src)
        if srecs is None:
            return None, 'incoherent src'
        if not srecs:
            return bag(recs), ''
        ssch = schema(src)
        allsch = dict(sch)
        for n, v in ssch.items():
            allsch.setdefault(n, v)
        out = []
        for r in recs:
            r = dict(r)
            for n, (ct, st, df) in allsch.items():
                if n not in r:
                    r[n] = tuple([df] * st)
            out.append(r)
        for r in srecs:
            r = dict(r)
            for n, (ct, st, df) in allsch.items():
                if n not in r:
                    r[n] = tuple([df] * st)
            out.append(r)
        return bag(out), ''
    if k == 'ensure':
        src = before[op['src']]
        ssch = schema(src)
        names = op['props'] if op['props'] else list(ssch)
        out = []
        for r in recs:
            r = dict(r)
            for n in names:
                if n not in r:
                    ct, st, df = ssch[n]
                    r[n] = tuple([df] * st)
            out.append(r)
        return bag(out), ''
    if k == 'pickle':
        return bag(recs), ''
    return None, 'no rule'


ALIGNING = {'add_particles', 'remove_particles', 'remove_tagged', 'align',
            'extract', 'extract_into', 'append'}


def aligned_after(op, before, after):
    """does the API promise alignment after this op?"""
    k = op['op']
    if k == 'align':
        return True
    if k in ('add_particles',):
        last = list(op['given'])[-1]
        return bool(op['align']) and len(op['given'][last]) > 0
    if k == 'remove_particles':
        return bool(op['align']) and len(op['idx']) > 0
    if k in ('extract', 'extract_into'):
        return bool(op['align']) and len(op['idx']) > 0
    if k == 'append':
        return bool(op['align']) and n_of(before[op['src']]) > 0
    return False


def run_sequence(seed, length, R, tier, record_ops=None, ops_in=None, validate=False):
    rng = random.Random(seed)
    sim = Sim(rng, R, tier)
    ops = []
    lines = []
    impl_after = []
    befores = []
    # initial arrays
    init = [dict(op='new', s=0, name='f'), dict(op='new', s=1, name='g')]
    seq = list(init)
    i = 0
    failed = False
    while True:
        if ops_in is not None:
            if i >= len(ops_in):
                break
            op = ops_in[i]
        elif i < len(init):
            op = init[i]
        elif i < length:
            op = sim.gen_op()
        else:
            break
        i += 1
        if validate and not op_valid(op, sim.pas):
            raise ValueError('invalid op in shrunk sequence')
        before = {s: dump_impl(pa) for s, pa in sim.pas.items()}
        try:
            slot = sim.apply_impl(op)
            after = dump_impl(sim.pas[slot])
            err = None
        except Exception as e:      # noqa
            err = '%s: %s' % (type(e).__name__, e)
            after = None
            slot = op.get('to', op.get('dest', op['s']))
        ops.append(op)
        lines.append(sim.op_line(op))
        impl_after.append((slot, after, err))
        befores.append(before)
        R.count('op:' + op['op'])
        case = {'seed': seed, 'ops': ops[:]}
        if err is not None:
            # the generator only issues valid calls: an exception is a failure
            R.prop_fail('C06:raises:%s' % op['op'], case,
                        'valid call succeeds', err)
            failed = True
            break
        # property predicates on the real state
        for s2, pa2 in sim.pas.items():
            d2 = after if s2 == slot else dump_impl(pa2)
            if not coherence(d2, R, case, aligned_after(op, before, after) and s2 == slot):
                failed = True
        if failed:
            break
        # a clone (empty_clone / extract without destination / pickle) carries the
        # source's schema: C type, stride and default of every cloned property
        if op['op'] in ('empty_clone', 'extract', 'pickle'):
            ssch = schema(before[op['s']])
            asch = schema(after)
            names = op.get('props') if op.get('props') is not None else list(ssch)
            bad = [(n, ssch[n], asch.get(n)) for n in names if asch.get(n) != ssch[n]]
            if bad:
                R.prop_fail('C06:clone-schema:%s' % op['op'], case,
                            'the clone has the C type, stride and default of the source for %s' % bad[0][0],
                            'source %r, clone %r' % (bad[0][1], bad[0][2]))
                failed = True
                break
        exp, why = expected_bag(op, before, schema(after))
        if exp is None:
            R.count('oracle-skip:' + why)
        else:
            got = records(after)
            if bag(got) != exp:
                R.prop_fail('C06:record-multiset:%s' % op['op'], case,
                            'particles after = record-list model (%d records)' % sum(exp.values()),
                            '%d records; missing %s extra %s' % (
                                len(got), list((exp - bag(got)).elements())[:2],
                                list((bag(got) - exp).elements())[:2]))
                failed = True
                break
        # constants untouched
        for s2, b2 in before.items():
            if s2 in sim.pas and s2 != op.get('to', -1):
                k_after = dump_impl(sim.pas[s2])['K']
                kb = dict(b2['K'])
                ka = dict(k_after)
                for cn, cv in kb.items():
                    changed_ok = (op['op'] == 'set' and op['name'] == cn and s2 == op['s'])
                    if ka.get(cn) != cv and not changed_ok:
                        R.prop_fail('C06:constant-changed', case,
                                    'constant %s untouched' % cn,
                                    '%s -> %s' % (cv, ka.get(cn)))
                        failed = True
    return ops, lines, impl_after, befores, failed


def compare_with_model(all_runs, R):
    """One driver call over all sequences; resync the model after L2-only
    differences."""
    flat = []
    index = []
    for ri, (seed, ops, lines, impl_after, befores, failed) in enumerate(all_runs):
        for oi, ln in enumerate(lines):
            # make the model independent of its own earlier answers: load the
            # impl's pre-state of every slot the op reads, then apply the op.
            op = ops[oi]
            for s in {op['s'], op.get('src', op['s']), op.get('dest', op['s'])}:
                if s in befores[oi]:
                    flat.append('load s=%d %s' % (s, dump_text(befores[oi][s])))
                    index.append(None)
            flat.append(ln)
            index.append((ri, oi))
    out = H.run_model('C06', flat)
    if len(out) != len(flat):
        raise SystemExit('driver answered %d lines for %d' % (len(out), len(flat)))
    l2 = 0
    for tag, o, ln in zip(index, out, flat):
        if tag is None:
            if not o.startswith('ok'):
                raise SystemExit('model rejected load: %s -> %s' % (ln[:200], o))
            continue
        ri, oi = tag
        seed, ops, lines, impl_after, befores, failed = all_runs[ri]
        slot, after, err = impl_after[oi]
        case = {'seed': seed, 'ops': ops[:oi + 1]}
        if err is not None:
            if o != 'error':
                R.disagree(case, o[:300], 'raises ' + err, 'impl raises, model does not')
            continue
        if o == 'error' or o == 'bad-op':
            R.disagree(case, o, dump_text(after)[:300], 'model rejects a call the impl accepts')
            continue
        m = parse_model(o)
        # L1: schema, nreal, multiset of records, constants, outputs
        mr, ir = records(m), records(after)
        if mr is None or ir is None:
            # incoherent state (already reported by the property oracle when it
            # is the implementation's): compare the raw columns instead
            mr = [dict((n, tuple(dd)) for n, c, dd in m['P'])]
            ir = [dict((n, tuple(dd)) for n, c, dd in after['P'])]
        def local_first(d):
            t = [x for n_, c_, dd in d['P'] if n_ == 'tag' for x in dd]
            k = sum(1 for x in t if x == 0)
            return all(x == 0 for x in t[:k]) and d['nreal'] == k
        same_l1 = (bag(mr) == bag(ir) and local_first(m) == local_first(after)
                   and schema(m) == schema(after) and m['nreal'] == after['nreal']
                   and sorted(m['K']) == sorted(after['K'])
                   and set(m['out']) == set(after['out']))
        if not same_l1:
            R.disagree(case, dump_text(m)[:600], dump_text(after)[:600], 'L1 state after ' + lines[oi][:80])
            continue
        same_l2 = (dict((n, d) for n, c, d in m['P']) == dict((n, d) for n, c, d in after['P'])
                   and m['S'] == after['S'] and m['D'] == after['D'])
        if not same_l2:
            l2 += 1
            import os
            if os.environ.get('C06_DEBUG'):
                print('L2', lines[oi][:150], '\n  model', dump_text(m)[:400], '\n  impl ', dump_text(after)[:400])
        R.d['traces_validated_against_impl'] += 1
    if l2:
        R.note('%d operations agreed on the multiset of particles but not on slot order / raw dict contents (L2, not an alarm)' % l2)
    R.count('L2-only-differences', l2)


def op_valid(op, pas):
    """argument validity for replayed/shrunk sequences (the generator only
    produces valid calls, but dropping earlier calls can invalidate later ones;
    an out-of-range index would be undefined behaviour in the C code)"""
    k = op['op']
    if k == 'new':
        return True
    pa = pas.get(op['s'])
    if pa is None:
        return False
    n = pa.get_number_of_particles()
    for key in ('src', 'dest'):
        if key in op and op[key] not in pas:
            return False
    if 'idx' in op and (any(i >= n for i in op['idx']) or len(set(op['idx'])) != len(op['idx'])):
        return False
    if k == 'add_particles':
        cnt = None
        for nm, v in op['given'].items():
            if nm not in pa.properties:
                return False
            st = pa.stride.get(nm, 1)
            if len(v) % st or (cnt is not None and len(v) // st != cnt):
                return False
            cnt = len(v) // st
    if k in ('remove_property', 'set') and op['name'] not in pa.properties:
        return False
    if k == 'set' and len(op['data']) > pa.properties[op['name']].length:
        return False
    if k == 'add_property' and op['data'] is not None and len(op['data']) and n > 0:
        if len(op['data']) != n * op['stride']:
            return False
        if op['name'] in pa.properties and pa.stride.get(op['name'], 1) != op['stride']:
            return False
    if k == 'add_constant' and (op['name'] in pa.constants or op['name'] in pa.properties):
        return False
    if k in ('set_outputs', 'add_outputs', 'empty_clone', 'extract', 'extract_into', 'ensure'):
        src = pas[op['src']] if k == 'ensure' else pa
        if op.get('props') is not None and any(p not in src.properties for p in op['props']):
            return False
    if k == 'extract_into':
        dest = pas[op['dest']]
        names = op['props'] if op['props'] is not None else list(pa.properties)
        if any(p not in dest.properties or dest.stride.get(p, 1) != pa.stride.get(p, 1)
               for p in names):
            return False
    if k == 'append':
        src = pas[op['src']]
        if any(p in pa.properties and src.stride.get(p, 1) != pa.stride.get(p, 1)
               for p in src.properties):
            return False
    if k == 'resize' and op['m'] > n:
        return False
    return True


def shrink(seed, ops, key):
    """delta-debug an op list that fails the property oracle with `key`"""
    def fails(sub):
        R = H.Result('')
        try:
            _, _, _, _, failed = run_sequence(seed, 0, R, 'quick', ops_in=sub, validate=True)
        except Exception:   # noqa
            return False
        return any(f['key'] == key for f in R.d['property_failures'])
    cur = ops[:]
    n = 2
    while len(cur) > 2 and n <= len(cur):
        chunk = max(1, len(cur) // n)
        reduced = False
        for i in range(2, len(cur), chunk):
            sub = cur[:i] + cur[i + chunk:]
            if fails(sub):
                cur = sub
                reduced = True
                break
        if not reduced:
            if chunk == 1:
                break
            n *= 2
    return cur


CORPUS = [
    # a clone keeps the source's default tag / pid / gid defaults
    [dict(op='new', s=0, name='f'), dict(op='new', s=1, name='g'),
     dict(op='add_property', s=0, name='tag', type='int', default=1, data=None, stride=1),
     dict(op='add_property', s=0, name='pid', type='int', default=7, data=None, stride=1),
     dict(op='add_particles', s=0, align=1, given={'gid': [1, 2, 3, 4]}),
     dict(op='extract', s=0, to=2, idx=[1, 3], align=1, props=None),
     dict(op='extend', s=2, k=2),
     dict(op='empty_clone', s=0, to=3, props=None),
     dict(op='extend', s=3, k=1)],
    # re-declaring a strided property without stride= must keep its stride
    [dict(op='new', s=0, name='f'), dict(op='new', s=1, name='g'),
     dict(op='add_property', s=0, name='A', type='double', default=None, data=None, stride=3),
     dict(op='add_particles', s=0, align=1, given={'tag': [0, 0, 0], 'A': [80, 81, 82, 144, 145, 146, 208, 209, 210]}),
     dict(op='add_property', s=0, name='A', type='double', default=None, data=None, stride=1),
     dict(op='remove_particles', s=0, idx=[0], align=1),
     dict(op='extend', s=0, k=2)],
    # F3: remove a strided property, add it back with stride 1, grow the array
    [dict(op='new', s=0, name='f'), dict(op='new', s=1, name='g'),
     dict(op='add_property', s=0, name='A', type='double', default=None, data=None, stride=3),
     dict(op='add_particles', s=0, align=1, given={'tag': [0, 0]}),
     dict(op='remove_property', s=0, name='A'),
     dict(op='add_property', s=0, name='A', type='double', default=None, data=None, stride=1),
     dict(op='extend', s=0, k=2)],
]


def main():
    a = H.args()
    R = H.Result(
        'cases = operation sequences over two to four ParticleArrays drawn from 22 '
        'public operations with valid arguments (typed and strided properties, '
        'constants, mixed tags, empty arrays, cross-array extract/append/ensure, '
        'pickling); one evaluation = one operation checked; distinct = distinct '
        '(op kind, n before, strided?, ghosts?) signatures; non-trivial = the '
        'array had particles and a strided or typed property')
    if a.replay:
        rp = json.load(open(a.replay))
        case = rp['case']
        _, _, _, _, failed = run_sequence(case['seed'], 0, R, 'quick', ops_in=case['ops'], validate=True)
        print(json.dumps(R.d['property_failures'][:3], indent=1)[:3000])
        sys.exit(1 if R.d['property_failures'] else 0)
    nseq, length = (150, 50) if a.tier == "quick" else (1500, 120)
    runs = []
    for c in CORPUS:
        ops, lines, ia, bf, failed = run_sequence(0, 0, R, a.tier, ops_in=c)
        runs.append((0, ops, lines, ia, bf, failed))
        R.count('corpus')
    for i in range(nseq):
        seed = a.seed * 100003 + i
        ops, lines, ia, bf, failed = run_sequence(seed, length, R, a.tier)
        runs.append((seed, ops, lines, ia, bf, failed))
    # shrink property failures (replays should be minimal)
    if R.d['property_failures']:
        seen = {}
        for f in R.d['property_failures']:
            if f['key'] in seen:
                continue
            small = shrink(f['case']['seed'], f['case']['ops'], f['key'])
            f['case'] = {'seed': f['case']['seed'], 'ops': small}
            seen[f['key']] = 1
    compare_with_model(runs, R)
    import os
    if os.environ.get('C06_DEBUG'):
        for dg in R.d['disagreements'][:6]:
            print('DISAGREE', dg['where'], '\n  model', dg['model'], '\n  impl ', dg['impl'],
                  '\n  lastop', dg['case']['ops'][-1])
        for f in R.d['property_failures'][:8]:
            print('PROPFAIL', f['key'], f['demand'], f['observed'], f['case']['ops'][-3:])
    # evaluation bookkeeping
    for seed, ops, lines, ia, bf, failed in runs:
        for oi, op in enumerate(ops):
            b = bf[oi].get(op['s'])
            n = n_of(b) if b else 0
            strided = bool(b and b['S'])
            ghosts = bool(b and any(t != 0 for nme, ct, da in b['P'] if nme == 'tag' for t in da))
            typed = bool(b and any(ct != 'double' for nme, ct, da in b['P']
                                   if nme not in ('tag', 'pid', 'gid')))
            R.case((op['op'], n, strided, ghosts, typed), n > 0 and (strided or typed),
                   {'seed': seed, 'op': lines[oi][:200]} if oi == 5 else None)
    if a.broken or R.d['disagreements']:
        extra = 0
        for i in range(200):
            seed = a.seed * 7 + 900000 + i
            run_sequence(seed, 60, R, 'thorough')
            extra += 1
        R.d['search'] = {'extra_sequences': extra,
                         'found': len(R.d['property_failures'])}
    R.write(a.out)


if __name__ == '__main__':
    main()
