"""C11 correspondence + property oracle: dump / load round trip.

impl : pysph.solver.utils.dump / dump_v1 / load  (pysph/solver/output.py,
       pysph/base/utils.py get_particles_info, ParticleArray construction)
       on real files under args.work, scratch build of /repo
model: lean PysphVerif.Model.DumpLoad at Rat (exact values), `load (dump ...)`
oracle: the property statement evaluated directly on source and loaded arrays
"""
import json
import os
import random
import sys
import warnings
from fractions import Fraction

import numpy as np

import hcommon as H

H.assert_scratch_import()
from pysph.base.particle_array import ParticleArray  # noqa: E402
from pysph.base.utils import get_particle_array  # noqa: E402
from pysph.solver.utils import dump, dump_v1, load  # noqa: E402

warnings.simplefilter('ignore')

TYPES = ('double', 'float', 'int', 'long', 'unsigned int')
WIRE_T = {'double': 'double', 'float': 'float', 'int': 'int', 'long': 'long',
          'unsigned int': 'uint'}
NP_T = {'double': np.float64, 'float': np.float32, 'int': np.int32,
        'long': np.int64, 'unsigned int': np.uint32}
# keyword names of ParticleArray.__init__: the npz reader passes properties as
# **kwargs, so these cannot be property names there (assumption, see checks/C11.py)
RESERVED = ('name', 'constants', 'backend', 'default_particle_tag')
PNAMES = ['x', 'y', 'rho', 'A', 'B', 'k', 'u32', 'f32', 'lg', 'vec', 'q_1',
          'Zz', 'a0', 'm', 'h', 'T']
CNAMES = ['c', 'cm', 'ci', 'cf', 'total', 'E0']
UINT_MAX = 4294967295


# ---------------------------------------------------------------- generator

def gen_value(rng, ty):
    if ty == 'double':
        k = rng.random()
        if k < 0.4:
            return rng.randint(-4096, 4096) / 64.0
        if k < 0.8:
            return rng.uniform(-10, 10) * 10 ** rng.randint(-8, 8)
        return rng.choice([0.0, -0.0, 1e-300, -1.7976931348623157e308, 0.1, 1.0])
    if ty == 'float':
        return float(np.float32(rng.choice(
            [0.1, 1.5, -2.25, 1e30, rng.uniform(-100, 100), 0.0])))
    if ty == 'int':
        return rng.choice([0, 1, -1, 7, rng.randint(-2 ** 31, 2 ** 31 - 1)])
    if ty == 'long':
        return rng.choice([0, -5, 2 ** 40, rng.randint(-2 ** 63, 2 ** 63 - 1)])
    return rng.choice([0, 5, UINT_MAX, rng.randint(0, UINT_MAX)])


def gen_default(rng, ty):
    if rng.random() < 0.25:
        return 0
    if ty in ('double', 'float'):
        return rng.choice([7.0, -1.5, 0.25, 1000.0, 3])
    if ty == 'unsigned int':
        return rng.choice([9, 1, UINT_MAX])
    return rng.choice([5, -3, 7, 7.5 if rng.random() < 0.2 else 2])


def gen_tags(rng, n):
    style = rng.choice(['real', 'real', 'mixed', 'mixed', 'mixed', 'ghost'])
    if style == 'real':
        return [0] * n
    if style == 'ghost':
        return [rng.choice([1, 2])] * n
    return [rng.choice([0, 0, 1, 2]) for _ in range(n)]


def gen_array(rng, name, big, v1):
    n = rng.choice([0, 0, 1, 2, 3, 5, 8 if big else 4])
    a = {'name': name, 'n': n, 'tags': gen_tags(rng, n), 'std': False,
         'default_tag': 2 if rng.random() < 0.05 else 0, 'props': [],
         'consts': [], 'pid': None, 'gid': None}
    if rng.random() < 0.15:
        a['std'] = True         # get_particle_array: the 16 default properties
        a['default_tag'] = 0
    if rng.random() < 0.4:
        a['pid'] = [rng.randint(0, 3) for _ in range(n)]
    if rng.random() < 0.4:
        a['gid'] = [rng.randint(0, 50) for _ in range(n)]
    names = [p for p in PNAMES if not (a['std'] and p in ('x', 'y', 'rho', 'm', 'h'))]
    rng.shuffle(names)
    for pn in names[:rng.choice([0, 1, 2, 3, 4, 6])]:
        ty = rng.choice(TYPES) if not v1 else 'double'
        stride = 1 if v1 else rng.choice([1, 1, 1, 2, 3, 9])
        a['props'].append({
            'name': pn, 'type': ty, 'stride': stride,
            'default': gen_default(rng, ty),
            'data': [gen_value(rng, ty) for _ in range(n * stride)]})
    cn = list(CNAMES)
    rng.shuffle(cn)
    for c in cn[:rng.choice([0, 0, 1, 2, 3])]:
        dt = rng.choice(['float64', 'float64', 'float32', 'int64', 'int32'])
        ln = rng.choice([0, 1, 1, 3, 6])
        ty = {'float64': 'double', 'float32': 'float', 'int64': 'long',
              'int32': 'int'}[dt]
        a['consts'].append({'name': c, 'dtype': dt,
                            'data': [gen_value(rng, ty) for _ in range(ln)]})
    allp = ['tag', 'pid', 'gid'] + [p['name'] for p in a['props']]
    if a['std']:
        allp += ['x', 'y', 'z', 'u', 'v', 'w', 'm', 'h', 'rho', 'p', 'au', 'av', 'aw']
    k = rng.random()
    if k < 0.2:
        a['out'] = []
    elif k < 0.3 and a['std']:
        a['out'] = None           # keep get_particle_array's list
    else:
        sel = [p for p in allp if rng.random() < 0.5]
        rng.shuffle(sel)
        if sel and rng.random() < 0.08:
            sel.append(sel[0])    # a duplicate entry
        a['out'] = sel
    if a['out'] is None and not a['std']:
        a['out'] = []
    return a


def gen_solver(rng, fmt):
    sd = {}
    k = rng.random()
    if k < 0.1:
        return sd
    sd['t'] = ['f', rng.uniform(0, 10)]
    sd['dt'] = ['f', 10 ** rng.uniform(-6, -1)]
    sd['count'] = ['i', rng.randint(0, 10 ** 6)]
    if rng.random() < 0.3:
        sd['flag'] = ['b', rng.randint(0, 1)]
    if rng.random() < 0.3:
        sd['label'] = ['s', rng.choice(['run', 'case_1', 'x y'])]
    if rng.random() < 0.2:
        sd['big'] = ['i', rng.choice([-2 ** 63, 2 ** 63 - 1, -7])]
    if rng.random() < 0.2:
        sd['lst'] = ['l', [rng.uniform(-1, 1) for _ in range(rng.randint(1, 3))]]
    return sd


def gen_case(rng, big=False):
    fmt = rng.choice(['npz', 'npz', 'hdf5', 'hdf5', 'hdf5', 'v1'])
    v1 = fmt == 'v1'
    narr = rng.choice([1, 1, 1, 2, 3, 0 if rng.random() < 0.3 else 1])
    anames = ['fluid', 'solid', 'b2', 'Inlet', 'a']
    rng.shuffle(anames)
    return {
        'fmt': fmt, 'detailed': rng.random() < 0.4,
        'only_real': rng.random() < 0.6,
        'compress': (rng.random() < 0.4) and not v1,
        'solver': gen_solver(rng, fmt),
        'arrays': [gen_array(rng, anames[i], big, v1) for i in range(narr)],
    }


# ------------------------------------------------------------ implementation

def build(a):
    n = a['n']
    if a['std']:
        kw = {'name': a['name']}
        if n:
            kw['tag'] = np.array(a['tags'], dtype=np.int32)
            kw['x'] = np.arange(n) * 0.5 + 0.25
            kw['rho'] = 1000.0 - np.arange(n)
        pa = get_particle_array(**kw)
    else:
        pa = ParticleArray(name=a['name'], default_particle_tag=a['default_tag'])
        if n:
            pa.add_property('tag', type='int',
                            data=np.array(a['tags'], dtype=np.int32))
    for key in ('pid', 'gid'):
        if a.get(key) is not None and n:
            pa.add_property(key, type='int' if key == 'pid' else 'unsigned int',
                            data=np.array(a[key]))
    for p in a['props']:
        pa.add_property(p['name'], type=p['type'], default=p['default'],
                        data=np.array(p['data'], dtype=NP_T[p['type']]),
                        stride=p['stride'])
    for c in a['consts']:
        pa.add_constant(c['name'], np.array(c['data'], dtype=c['dtype']))
    pa.align_particles()
    if a['out'] is not None:
        pa.set_output_arrays(list(a['out']))
    return pa


def frac(x):
    if hasattr(x, 'item'):
        x = x.item()
    return Fraction(x)


def snapshot(pa):
    props = []
    for k, arr in pa.properties.items():
        props.append({
            'name': k, 'type': arr.get_c_type(),
            'stride': int(pa.stride.get(k, 1)),
            'default': frac(pa.default_values[k]),
            'np': arr.get_npy_array().copy()})
    consts = [{'name': k, 'type': c.get_c_type(), 'np': c.get_npy_array().copy()}
              for k, c in pa.constants.items()]
    return {'name': pa.name, 'nreal': int(pa.num_real_particles),
            'n': int(pa.get_number_of_particles()),
            'out': list(pa.output_property_arrays), 'props': props,
            'consts': consts}


def sd_python(sd):
    out = {}
    for k, (t, v) in sd.items():
        out[k] = {'f': float, 'i': int, 'b': bool, 's': str,
                  'l': lambda z: [float(q) for q in z]}[t](v)
    return out


def sd_token(v):
    """canonical token of a solver-data value (by value, not by Python type)"""
    if isinstance(v, (bool, np.bool_)):
        return 'b:%d' % int(v)
    if isinstance(v, (int, np.integer)):
        return 'i:%d' % int(v)
    if isinstance(v, (float, np.floating)):
        return 'f:' + H.fbits(float(v))
    if isinstance(v, bytes):
        v = v.decode('utf-8')
    if isinstance(v, str):
        return 's:' + v.encode('utf-8').hex()
    if isinstance(v, (list, tuple, np.ndarray)):
        return 'l:' + '+'.join(sd_token(q) for q in list(v)) + ';'
    return 'other:' + type(v).__name__


_counter = [0]


def run_impl(case, work):
    """-> dict(src=[snapshots], res=('ok', solver_tokens, {name: snapshot}) |
    ('error', stage, exception text))"""
    pas = [build(a) for a in case['arrays']]
    src = [snapshot(pa) for pa in pas]
    _counter[0] += 1
    ext = 'npz' if case['fmt'] in ('npz', 'v1') else 'hdf5'
    fn = os.path.join(work, 'c11_%d_%d.%s' % (os.getpid(), _counter[0], ext))
    sd = sd_python(case['solver'])
    try:
        if case['fmt'] == 'v1':
            dump_v1(fn, pas, sd, detailed_output=case['detailed'],
                    only_real=case['only_real'])
        else:
            dump(fn, pas, sd, detailed_output=case['detailed'],
                 only_real=case['only_real'], compress=case['compress'])
    except Exception as e:      # noqa
        return {'src': src, 'res': ('error', 'dump', '%s: %s' % (type(e).__name__, e))}
    try:
        r = load(fn)
        arrays = {str(k): snapshot(v) for k, v in r['arrays'].items()}
        names_ok = {k: v['name'] for k, v in arrays.items()}
        sdt = {str(k): sd_token(v) for k, v in r['solver_data'].items()}
        res = ('ok', sdt, arrays, names_ok)
    except Exception as e:      # noqa
        res = ('error', 'load', '%s: %s' % (type(e).__name__, e))
    finally:
        try:
            os.remove(fn)
        except OSError:
            pass
    return {'src': src, 'res': res}


# --------------------------------------------------------------------- model

def model_line(case, src):
    t = ['rt', 'fmt=%s' % case['fmt'], 'det=%d' % case['detailed'],
         'real=%d' % case['only_real'], 'comp=%d' % case['compress']]
    for k, v in sd_python(case['solver']).items():
        t += ['S', '%s=%s' % (k, sd_token(v))]
    for s in src:
        t += ['A', 'name=%s' % s['name'], 'nreal=%d' % s['nreal'],
              'out=%s' % (','.join(s['out']) if s['out'] else '_')]
        for p in s['props']:
            t += ['P', 'name=%s' % p['name'], 'ty=%s' % WIRE_T[p['type']],
                  'st=%d' % p['stride'], 'df=%s' % H.qstr(p['default']),
                  'd=%s' % H.qlist(frac(x) for x in p['np'])]
        for c in s['consts']:
            t += ['C', 'name=%s' % c['name'], 'ty=%s' % WIRE_T[c['type']],
                  'd=%s' % H.qlist(frac(x) for x in c['np'])]
    return ' '.join(t)


def parse_model(line):
    """-> ('error', stage) | ('ok', {k: tok}, {name: arr})"""
    toks = line.split(' ')
    if toks[0] != 'ok':
        return ('error', toks[1] if len(toks) > 1 else '?')
    sd, arrays, cur = {}, {}, None
    i = 1
    groups = []
    for tk in toks[1:]:
        if tk in ('S', 'A', 'P', 'C'):
            groups.append([tk])
        else:
            groups[-1].append(tk)
    for g in groups:
        kv = dict(x.split('=', 1) for x in g[1:])
        if g[0] == 'S':
            (k, v), = kv.items()
            sd[k] = v
        elif g[0] == 'A':
            cur = {'name': kv['name'], 'nreal': int(kv['nreal']),
                   'out': [] if kv['out'] == '_' else kv['out'].split(','),
                   'props': [], 'consts': []}
            arrays[kv['name']] = cur
        elif g[0] == 'P':
            cur['props'].append({
                'name': kv['name'], 'type': kv['ty'], 'stride': int(kv['st']),
                'default': Fraction(kv['df']),
                'data': [] if kv['d'] == '_' else [Fraction(x) for x in kv['d'].split(',')]})
        else:
            cur['consts'].append({
                'name': kv['name'], 'type': kv['ty'],
                'data': [] if kv['d'] == '_' else [Fraction(x) for x in kv['d'].split(',')]})
    return ('ok', sd, arrays)


def cast(ty, q):
    """what assigning the number q into a carray of C type ty stores"""
    if ty in ('int', 'long', 'uint'):
        return Fraction(int(q))         # numpy truncates toward zero
    if ty == 'float':
        return Fraction(float(np.float32(float(q))))
    return Fraction(float(q))


def canon_arr_impl(s):
    return {
        'name': s['name'], 'out': s['out'],
        'props': {p['name']: (WIRE_T[p['type']], p['stride'], p['default'],
                              [frac(x) for x in p['np']]) for p in s['props']},
        'consts': {c['name']: (WIRE_T[c['type']], [frac(x) for x in c['np']])
                   for c in s['consts']}}


def canon_arr_model(m):
    return {
        'name': m['name'], 'out': m['out'],
        'props': {p['name']: (p['type'], p['stride'], p['default'],
                              [cast(p['type'], x) for x in p['data']])
                  for p in m['props']},
        'consts': {c['name']: (c['type'], c['data']) for c in m['consts']}}


def compare_model(case, line, mod, impl, R):
    """L1 comparison; returns number of disagreements"""
    res = impl['res']
    nd = 0

    def dis(m, i, where):
        nonlocal nd
        nd += 1
        R.disagree({'case': case, 'line': line[:2000]}, str(m)[:500], str(i)[:500], where)
    if res[0] == 'error' or mod[0] == 'error':
        if res[0] != mod[0] or (res[0] == 'error' and res[1] != mod[1]):
            dis(mod[:2], res[:3], 'outcome')
        return nd
    _, sdt, arrays, _ = res
    if sdt != mod[1]:
        dis(mod[1], sdt, 'solver_data')
    if set(arrays) != set(mod[2]):
        dis(sorted(mod[2]), sorted(arrays), 'array names')
        return nd
    for nm in arrays:
        ci, cm = canon_arr_impl(arrays[nm]), canon_arr_model(mod[2][nm])
        for key in ('name', 'out'):
            if ci[key] != cm[key]:
                dis(cm[key], ci[key], '%s.%s' % (nm, key))
        if set(ci['props']) != set(cm['props']):
            dis(sorted(cm['props']), sorted(ci['props']), nm + '.property names')
        else:
            for pn in ci['props']:
                if ci['props'][pn] != cm['props'][pn]:
                    dis(cm['props'][pn], ci['props'][pn], '%s.%s' % (nm, pn))
        if ci['consts'] != cm['consts']:
            dis(cm['consts'], ci['consts'], nm + '.constants')
        # L2: incidental detail, logged only
        if arrays[nm]['nreal'] != mod[2][nm]['nreal']:
            R.count('L2:num_real_particles differs')
        if [p['name'] for p in arrays[nm]['props']] != \
                [p['name'] for p in mod[2][nm]['props']]:
            R.count('L2:property order differs')
    return nd


# -------------------------------------------------------------------- oracle

def stored_names(s, detailed):
    if detailed or len(s['out']) == 0:
        return [p['name'] for p in s['props']]
    return list(dict.fromkeys(s['out']))


def oracle(case, impl, R):
    """The property statement on source arrays vs loaded arrays; independent of
    the model.  Returns number of failures."""
    fmt = case['fmt']
    res = impl['res']
    nf = 0

    def fail(what, demand, observed):
        nonlocal nf
        nf += 1
        R.prop_fail('C11:%s:%s' % (fmt, what), case, demand, str(observed)[:600])
    if res[0] == 'error':
        fail('raises-in-' + res[1], 'dump then load succeeds', res[2])
        return nf
    _, sdt, arrays, names = res
    want_sd = {k: sd_token(v) for k, v in sd_python(case['solver']).items()}
    if sdt != want_sd:
        fail('solver-data', 'solver data %r' % want_sd, sdt)
    src = impl['src']
    if sorted(arrays) != sorted(s['name'] for s in src):
        fail('array-names', sorted(s['name'] for s in src), sorted(arrays))
        return nf
    for s in src:
        ld = arrays[s['name']]
        if ld['name'] != s['name']:
            fail('name', s['name'], ld['name'])
        num = s['nreal'] if case['only_real'] else s['n']
        lp = {p['name']: p for p in ld['props']}
        stored = stored_names(s, case['detailed'])
        if fmt == 'v1':
            # "version-1 files still load": the stored values come back
            for p in s['props']:
                if p['name'] in stored:
                    if p['name'] not in lp:
                        fail('property-missing', p['name'], sorted(lp))
                        continue
                    want = p['np'][:num * p['stride']]
                    got = lp[p['name']]['np']
                    if len(want) != len(got) or \
                            [frac(x) for x in want] != [frac(x) for x in got]:
                        fail('values', '%s = %s' % (p['name'], list(want)), list(got))
            continue
        if set(lp) != set(p['name'] for p in s['props']):
            fail('property-set', sorted(p['name'] for p in s['props']), sorted(lp))
            continue
        for p in s['props']:
            q = lp[p['name']]
            is_stored = p['name'] in stored
            tagw = 'stored' if is_stored else 'unstored'
            if q['type'] != p['type']:
                fail('ctype', '%s: %s' % (p['name'], p['type']), q['type'])
            if q['stride'] != p['stride']:
                fail('stride', '%s: %d' % (p['name'], p['stride']), q['stride'])
            if q['default'] != p['default']:
                fail('default-of-%s-property' % tagw,
                     'default of %s = %s' % (p['name'], p['default']), q['default'])
            if is_stored:
                want = p['np'][:num * p['stride']]
                got = q['np']
                if want.dtype != got.dtype or want.tobytes() != got.tobytes():
                    fail('values', '%s = %s' % (p['name'], list(want)), list(got))
        lc = {c['name']: c for c in ld['consts']}
        if set(lc) != set(c['name'] for c in s['consts']):
            fail('constants', sorted(c['name'] for c in s['consts']), sorted(lc))
        else:
            for c in s['consts']:
                g = lc[c['name']]['np']
                if len(g) != len(c['np']) or \
                        [frac(x) for x in g] != [frac(x) for x in c['np']]:
                    fail('constants', '%s = %s' % (c['name'], list(c['np'])), list(g))
        if ld['out'] != s['out']:
            fail('output-list', 'output_property_arrays = %s' % s['out'], ld['out'])
    return nf


# ---------------------------------------------------------------------- main

def check_cases(cases, R, work, sample=False):
    impls = [run_impl(c, work) for c in cases]
    lines = [model_line(c, im['src']) for c, im in zip(cases, impls)]
    out = H.run_model('C11', lines)
    if len(out) != len(lines):
        raise SystemExit('model driver answered %d lines for %d' % (len(out), len(lines)))
    for k, (c, im, ln, o) in enumerate(zip(cases, impls, lines, out)):
        if o == 'bad-op':
            raise SystemExit('model driver rejected: ' + ln[:400])
        mod = parse_model(o)
        compare_model(c, ln, mod, im, R)
        oracle(c, im, R)
        R.count('fmt:' + c['fmt'])
        R.count('narr:%d' % len(c['arrays']))
        for key in ('detailed', 'only_real', 'compress'):
            if c[key]:
                R.count(key)
        for s in im['src']:
            R.count('n=0' if s['n'] == 0 else ('ghosts' if s['nreal'] < s['n'] else 'all-real'))
            if any(p['stride'] > 1 for p in s['props']):
                R.count('strided')
            if not c['detailed'] and s['out'] and \
                    len(set(s['out'])) < len(s['props']):
                R.count('brief-with-unstored-properties')
        if im['res'][0] == 'error':
            R.count('impl-raises')
        nontrivial = any(s['n'] > 0 and len(s['props']) > 3 for s in im['src'])
        R.case(json.dumps(c, sort_keys=True), nontrivial,
               {'case': c, 'model': o[:600]} if sample and k < 3 else None)
        R.d['traces_validated_against_impl'] += 1


def corpus():
    def arr(**kw):
        a = {'name': 'f', 'n': 3, 'tags': [0, 2, 0], 'std': False,
             'default_tag': 0, 'props': [], 'consts': [], 'pid': None,
             'gid': None, 'out': []}
        a.update(kw)
        return a

    def prop(name, ty='double', stride=1, default=0, data=None, n=3):
        return {'name': name, 'type': ty, 'stride': stride, 'default': default,
                'data': data if data is not None else
                [float(i) + 0.5 if ty in ('double', 'float') else i
                 for i in range(n * stride)]}
    base = {'fmt': 'hdf5', 'detailed': False, 'only_real': True,
            'compress': False, 'solver': {'t': ['f', 0.5], 'count': ['i', 3]}}
    f11 = arr(props=[prop('x'), prop('k', 'int', 1, 7)], out=['x'])
    out = [
        # F11: hdf5, brief output: default of the unstored property k
        dict(base, arrays=[f11]),
        dict(base, fmt='npz', arrays=[f11]),
        # F12: hdf5 output list when detailed / when the list is empty
        dict(base, detailed=True, arrays=[arr(props=[prop('x'), prop('y')], out=['x'])]),
        dict(base, arrays=[arr(props=[prop('x'), prop('y')], out=[])]),
        dict(base, arrays=[arr(props=[prop('x'), prop('y')], out=['y', 'x', 'tag'])]),
        # ghosts kept, strided, every C type
        dict(base, only_real=False, compress=True, arrays=[arr(
            props=[prop('A', 'double', 3, 7.0), prop('u32', 'unsigned int', 1, 9),
                   prop('f32', 'float', 2, 1.5), prop('lg', 'long', 1, -3)],
            consts=[{'name': 'c', 'dtype': 'float64', 'data': [1.0, 2.0]},
                    {'name': 'ci', 'dtype': 'int32', 'data': [4]},
                    {'name': 'e', 'dtype': 'float64', 'data': []}],
            out=['A', 'tag'])]),
        # empty array, only ghosts
        dict(base, fmt='npz', compress=True, arrays=[arr(n=0, tags=[], props=[prop('x', n=0)])]),
        dict(base, arrays=[arr(n=0, tags=[], props=[prop('x', n=0), prop('B', 'int', 2, 4, n=0)], out=['x'])]),
        dict(base, arrays=[arr(n=2, tags=[2, 1], props=[prop('x', n=2)], out=['x', 'tag'])]),
        # two arrays, v1
        dict(base, fmt='v1', only_real=False, arrays=[arr(props=[prop('x')], out=['x', 'tag']),
                                                      arr(name='g', n=0, tags=[])]),
        dict(base, fmt='v1', detailed=True, arrays=[arr(std=True, out=None)]),
        dict(base, fmt='npz', solver={}, arrays=[]),
    ]
    return out


def main():
    a = H.args()
    R = H.Result(
        'cases = 0-3 particle arrays (0-8 particles, mixed tags, 0-6 extra '
        'properties of the five C types, strides 1-9, non-zero defaults, '
        'constants of length 0-6, output lists incl. empty/duplicates, '
        'get_particle_array arrays) x {npz, hdf5, v1 npz} x compress x detailed '
        'x only_real x solver data; distinct = distinct case JSON; non-trivial '
        '= some array with particles and at least one property beyond tag/pid/gid')
    os.makedirs(a.work, exist_ok=True)
    if a.replay:
        rp = json.load(open(a.replay))
        check_cases([rp['case']], R, a.work)
        print(json.dumps(R.d['property_failures'], indent=1, default=str))
        sys.exit(1 if R.d['property_failures'] else 0)
    rng = random.Random(a.seed * 7919 + 11)
    n = 700 if a.tier == 'quick' else 12000
    cp = corpus()
    check_cases(cp, R, a.work)
    R.count('corpus', len(cp))
    check_cases([gen_case(rng, big=(a.tier != 'quick')) for _ in range(n)], R,
                a.work, sample=True)
    if a.broken or R.d['disagreements']:
        rng2 = random.Random(a.seed + 4242)
        before = len(R.d['property_failures'])
        check_cases([gen_case(rng2, big=True) for _ in range(3000)], R, a.work)
        R.d['search'] = {'extra_cases': 3000,
                         'found': len(R.d['property_failures']) - before}
    R.write(a.out)


if __name__ == '__main__':
    main()
