"""C02 correspondence + property oracle: compiled equations compute what the
Python equation source says.

impl : pysph.sph.equation (precomputed_symbols, sort_precomputed,
       Group._setup_precomputed, CythonGroup), acceleration_eval(.py, _cython_helper,
       .mako), sph_compiler — scratch build of /repo
model: lean PysphVerif.Model.Codegen + Gen/Precomp (driver model_c02)

Four ties (DESIGN.md 6/C02):
 (v) translator validation: every generated block (code / doc / convention) is
     evaluated by the driver at Float and compared bit for bit with `exec` of
     the real code string / documented text on the same inputs; the real
     `cb.symbols` and defaults are compared with the generated tables;
 (a) real `sort_precomputed` / `Group._setup_precomputed` vs the model on random
     tables (DAGs, unclosed key sets) and on the real table;
 (b) `AccelerationEvalCythonHelper.get_code()` of random programs is parsed
     (pointer assignments, declarations, per-thread scratch vectors, the
     precomputed preamble of every loop) and compared with the model's `wiring`;
     the same parse feeds the property oracle: every `d_*`/`s_*` argument of
     every call is bound to the right array with the right C type, every
     precomputed symbol is computed before use by its documented formula;
 (c) differential execution: the compiled `AccelerationEval.compute` vs a
     pure-Python executor that calls the same equation methods in the
     documented order over the same neighbours with the documented formulas and
     the Python kernel classes — shipped equations and generated equation
     classes in the documented subset.
 (d) options and histories: `Group(start_idx=, stop_idx=)` (integers with the
     boundary values 0 / n / start == stop, names of constants / properties,
     None) -- the limits of every destination block are evaluated on the real
     arrays and compared with the documented range(start, stop) and with the
     model; instance attributes of type int / bool / float with different values
     per instance -- the attribute declarations of every wrapper class are
     compared with the model and must hold the value of every instance;
     SESSIONS: several evaluators built one after the other in ONE process whose
     programs collide in every name a generator could key a memo by (same class
     names with other attribute types / other method bodies / other array
     types, same array and group names, other wiring, other limits, the same
     program again); every member is checked like a single program, and its
     generated source must be the one a fresh process generates.
"""
import copy
import hashlib
import importlib
import importlib.util
import inspect
import itertools
import json
import math
import os
import random
import re
import sys
import time
import traceback
from concurrent.futures import ProcessPoolExecutor

import numpy as np

import hcommon as H

H.assert_scratch_import()

from pysph.base.utils import get_particle_array  # noqa: E402
from pysph.base import kernels as PK  # noqa: E402
from pysph.sph import equation as EQ  # noqa: E402
from pysph.sph.equation import Equation, Group  # noqa: E402

# ===========================================================================
# documented formulas — independent Python rendering of equations.rst (and of
# the naming convention for the symbols it does not list).  Used by the
# executor of tie (c).  `k` is the Python kernel object.

VECTORS = ('XIJ', 'VIJ', 'DWIJ', 'DWI', 'DWJ')


def doc_symbol(sym, g, d, s, di, si, k):
    """value of precomputed symbol `sym` for the pair (di, si); `g(name)` gives
    another symbol (memoised per pair), d/s map property name -> numpy array."""
    if sym == 'HIJ':
        return 0.5 * (d['h'][di] + s['h'][si])
    if sym == 'XIJ':
        return [d['x'][di] - s['x'][si], d['y'][di] - s['y'][si],
                d['z'][di] - s['z'][si]]
    if sym == 'VIJ':
        return [d['u'][di] - s['u'][si], d['v'][di] - s['v'][si],
                d['w'][di] - s['w'][si]]
    if sym == 'R2IJ':
        X = g('XIJ')
        return X[0] * X[0] + X[1] * X[1] + X[2] * X[2]
    if sym == 'RIJ':
        return math.sqrt(g('R2IJ'))
    if sym == 'RHOIJ':
        return 0.5 * (d['rho'][di] + s['rho'][si])
    if sym == 'RHOIJ1':
        return 1.0 / g('RHOIJ')
    if sym == 'EPS':
        return 0.01 * g('HIJ') * g('HIJ')
    hsel = {'I': lambda: d['h'][di], 'J': lambda: s['h'][si],
            'IJ': lambda: g('HIJ')}
    if sym in ('WIJ', 'WI', 'WJ'):
        return k.kernel(g('XIJ'), g('RIJ'), hsel[sym[1:]]())
    if sym in ('DWIJ', 'DWI', 'DWJ'):
        out = [0.0, 0.0, 0.0]
        k.gradient(g('XIJ'), g('RIJ'), hsel[sym[2:]](), out)
        return out
    if sym == 'WDP':
        return k.kernel(g('XIJ'), k.get_deltap() * g('HIJ'), g('HIJ'))
    if sym in ('GHI', 'GHJ', 'GHIJ'):
        return k.gradient_h(g('XIJ'), g('RIJ'), hsel[sym[2:]]())
    if sym in ('WDASHI', 'WDASHJ', 'WDASHIJ'):
        return k.dwdq(g('RIJ'), hsel[sym[5:]]())
    raise KeyError(sym)


ALL_SYMS = ('HIJ', 'XIJ', 'R2IJ', 'RIJ', 'WIJ', 'WI', 'WJ', 'DWIJ', 'DWI', 'DWJ',
            'VIJ', 'RHOIJ', 'RHOIJ1', 'EPS', 'WDP', 'GHI', 'GHJ', 'GHIJ',
            'WDASHI', 'WDASHJ', 'WDASHIJ')
KERNEL_SYMS = ('WIJ', 'WI', 'WJ', 'DWIJ', 'DWI', 'DWJ', 'WDP', 'GHI', 'GHJ', 'GHIJ',
               'WDASHI', 'WDASHJ', 'WDASHIJ')

# ===========================================================================
# program specs (JSON): everything needed to rebuild a case
#   {'mod': <python source of generated equation classes> | None,
#    'arrays': [{'name','n','props':{p:{'type','stride','kind'}},'consts':{c: len},
#                'nghost'}],
#    'groups': [G, ...] with
#       G = {'real': bool, 'eqs': [{'cls': 'module:Class' | 'gen:Class',
#                'dest','sources','kw'}]}                     (a group of equations)
#         | {'subs': [G of the first form, ...]}               (one level of sub-groups)
#       and, on either form, optionally
#         'name': str              Group(name=...): a profiling label, need not be unique
#         'cond': {'lt'|'ge': v}   Group(condition=lambda t, dt: t < v  /  t >= v)
#         'pre' / 'post': {'arr': array, 'prop': p, 'mul'|'add': c}
#                                  Group(pre=/post=f), f() scales / shifts property p
#       and, on a group of equations, optionally
#         'start': int | str       Group(start_idx=...)   (str: constant / property name)
#         'stop': None | int | str Group(stop_idx=...)
#    arrays may carry 'iconsts': {name: int} (integer constants) and
#    'ifirst': {prop: int} (integer properties whose FIRST value is the int)
#    'gen': {'tag','ncls','libm','ks','names','types'}: how 'mod' was generated
#    (used by the session mutations), 'mut': the mutation that made a member
#    'kernel': 'CubicSpline', 'dim': 2, 't': .., 'dt': .., 'data_seed': int,
#    'compile': bool}

DOUBLE_PROPS = ['x', 'y', 'z', 'u', 'v', 'w', 'h', 'm', 'rho', 'p', 'cs',
                'au', 'av', 'aw', 'q0', 'q1', 'q2']
READ_D = ['x', 'y', 'z', 'u', 'v', 'w', 'h', 'm', 'rho', 'p', 'q0', 'q1', 'q2',
          'au', 'av', 'aw']
WRITE_D = ['q0', 'q1', 'q2', 'au', 'av', 'aw']

HELPER_SRC = '''
def c02_helper(x=0.0, y=0.0):
    return x*y + %s*x - %s*y


def c02_helper2(x=0.0):
    return c02_helper(x, 1.5) * %s
'''


def helper_src(rng):
    """the helper functions of a module: the same NAMES in every module, the
    bodies drawn per module"""
    return HELPER_SRC % (rng.choice(['2.0', '2.0', '0.5', '3.0']),
                         rng.choice(['0.5', '0.5', '1.25']),
                         rng.choice(['0.25', '0.25', '2.0']))


class ExprGen:
    """random expressions / method bodies in the documented language subset"""

    def __init__(self, rng, libm, use_kernel_syms, attrs):
        self.r = rng
        self.libm = libm
        self.ks = use_kernel_syms
        self.attrs = attrs
        self.used = None

    def term(self, ctx):
        r = self.r
        kinds = ['d', 'd', 'lit', 'attr', 'time', 'dconst', 'dstr', 'dint']
        if ctx['locals']:
            kinds += ['local', 'local']
        if ctx['mat']:
            kinds += ['mat']
        if ctx['loop']:
            kinds += ['s', 's', 's', 'pre', 'pre', 'pre', 'sstr', 'sconst']
        k = r.choice(kinds)
        U = ctx['args']
        if k == 'd':
            p = r.choice(READ_D)
            U.add('d_' + p)
            return 'd_%s[d_idx]' % p
        if k == 's':
            p = r.choice(READ_D)
            U.add('s_' + p)
            return 's_%s[s_idx]' % p
        if k == 'lit':
            return r.choice(['0.5', '2.0', '1.25', '0.1', '3.0', '0.3', '1e-3',
                             '7.0', '0.01'])
        if k == 'attr':
            return 'self.' + r.choice(self.attrs)
        if k == 'time':
            a = r.choice(['t', 'dt'])
            U.add(a)
            return a
        if k == 'dconst':
            if r.random() < 0.5:
                U.add('d_c0')
                return 'd_c0[0]'
            U.add('d_cv')
            return 'd_cv[%d]' % r.randrange(3)
        if k == 'sconst':
            U.add('s_cv')
            return 's_cv[%d]' % r.randrange(3)
        if k == 'dstr':
            U.add('d_A3')
            return 'd_A3[d_idx*3 + %d]' % r.randrange(3)
        if k == 'sstr':
            U.add('s_A3')
            return 's_A3[s_idx*3 + %d]' % r.randrange(3)
        if k == 'dint':
            U.add('d_ic')
            return 'd_ic[d_idx]'
        if k == 'local':
            return r.choice(ctx['locals'])
        if k == 'mat':
            return '%s[%d]' % (ctx['mat'], r.randrange(3))
        if k == 'pre':
            pool = ['HIJ', 'R2IJ', 'RIJ', 'EPS', 'RHOIJ', 'RHOIJ1', 'XIJ', 'VIJ',
                    'XIJ', 'HIJ']
            if self.ks:
                pool += list(KERNEL_SYMS)
            s = r.choice(pool)
            U.add(s)
            if s in VECTORS:
                return '%s[%d]' % (s, r.randrange(3))
            return s
        raise AssertionError(k)

    def expr(self, ctx, depth):
        r = self.r
        if depth <= 0 or r.random() < 0.2:
            return self.term(ctx)
        ops = ['+', '-', '*', '*', '+', 'div', 'helper', 'paren']
        if self.libm:
            ops += ['sin', 'exp', 'sqrt', 'pow', 'abs']
        op = r.choice(ops)
        a = self.expr(ctx, depth - 1)
        if op in '+-*':
            return '%s %s %s' % (a, op, self.expr(ctx, depth - 1))
        if op == 'paren':
            return '(%s + %s)*%s' % (a, self.expr(ctx, depth - 1),
                                     self.term(ctx))
        if op == 'div':
            b = self.term(ctx)
            return '(%s)/(1.0 + %s*%s)' % (a, b, b)
        if op == 'helper':
            ctx['helpers'] = True
            if r.random() < 0.3:
                return 'c02_helper2(%s)' % a
            return 'c02_helper(%s, %s)' % (a, self.term(ctx))
        if op == 'sin':
            return 'sin(%s)' % a
        if op == 'exp':
            b = self.term(ctx)
            return 'exp(-(%s)*(%s)*0.01)' % (b, b)
        if op == 'sqrt':
            b = self.term(ctx)
            return 'sqrt(1.0 + %s*%s)' % (b, b)
        if op == 'pow':
            b = self.term(ctx)
            return 'pow(1.0 + %s*%s, 0.3)' % (b, b)
        if op == 'abs':
            return 'abs(%s)' % a
        raise AssertionError(op)

    def body(self, ctx, nstmt):
        r = self.r
        lines = []
        U = ctx['args']
        if r.random() < 0.3:
            ctx['mat_decl'] = True
            lines.append("mat = declare('matrix(3)')")
            lines.append("i = declare('int')")
            lines.append('for i in range(3):')
            src = r.choice(['d_A3[d_idx*3 + i]', 'd_cv[i]', '(i + 1)*d_q0[d_idx]'] +
                           (['XIJ[i]', 's_A3[s_idx*3 + i]'] if ctx['loop'] else []))
            for nm in ('d_A3', 'd_cv', 'd_q0', 'XIJ', 's_A3'):
                if nm in src:
                    U.add(nm)
            lines.append('    mat[i] = %s*%s' % (src, self.term(ctx)))
            ctx['mat'] = 'mat'
        for _ in range(nstmt):
            k = r.choice(['local', 'write', 'write', 'acc', 'acc', 'if', 'int',
                          'strided'])
            if k == 'local':
                nm = 'tmp%d' % len(ctx['locals'])
                lines.append('%s = %s' % (nm, self.expr(ctx, 2)))
                ctx['locals'].append(nm)
            elif k in ('write', 'acc'):
                p = r.choice(WRITE_D)
                U.add('d_' + p)
                op = '=' if (k == 'write' and not ctx['loop']) else '+='
                lines.append('d_%s[d_idx] %s %s' % (p, op, self.expr(ctx, 3)))
            elif k == 'if':
                a, b = self.term(ctx), self.term(ctx)
                p = r.choice(WRITE_D)
                U.add('d_' + p)
                lines.append('if %s > %s:' % (a, b))
                lines.append('    d_%s[d_idx] += %s' % (p, self.expr(ctx, 2)))
                if r.random() < 0.5:
                    lines.append('else:')
                    lines.append('    d_%s[d_idx] -= %s' % (p, self.expr(ctx, 1)))
            elif k == 'int':
                U.add('d_ic')
                lines.append('d_ic[d_idx] += %d' % r.randrange(1, 4))
            elif k == 'strided':
                U.add('d_A3')
                lines.append('d_A3[d_idx*3 + %d] += %s' % (r.randrange(3),
                                                           self.expr(ctx, 2)))
        return lines


def order_args(names, loop):
    """signature order: indices first, then arrays, then symbols / t / dt"""
    idx = ['d_idx'] + (['s_idx'] if loop else [])
    rest = sorted(n for n in names if n not in ('d_idx', 's_idx'))
    return idx + rest


ATTR_POOL = {'float': [0.5, 1.5, 2.0, 0.1, 0.25, 3.0, 1.0, 0.0, -0.75],
             'int': [2, 3, 1, 0, -1, 7],
             'bool': [True, False]}
ATTR_NAMES = ('ca', 'cb')


def gen_attr_types(rng, bias=None):
    """Python types of the instance attributes of one class; uniform over the
    instances of the class within one program (see `mixed` in inst_kw)"""
    pool = {'narrow': ['int', 'int', 'bool', 'float'],
            None: ['float', 'float', 'int', 'bool']}[bias]
    return {a: rng.choice(pool) for a in ATTR_NAMES}


def inst_kw(rng, types, mixed=False):
    """constructor arguments of ONE instance: every instance draws its own values
    (0, 0.0 and False included); `mixed`: its own types too"""
    kw = {}
    for a in ATTR_NAMES:
        ty = rng.choice(['float', 'int', 'bool']) if mixed else types[a]
        kw[a] = rng.choice(ATTR_POOL[ty])
    return kw


CONV_CONSTS = ('nsw', 'nmax', 'cacc')   # constants the convergence hooks use


def gen_class(rng, name, libm, ksyms, base=None, conv=False):
    """source of one equation class (instance attributes ca, cb).

    `base` = (name of an equation class generated before, its methods): the
    class is a SUBCLASS that overrides only some of the methods and inherits
    the rest (constructor, other hooks, reduce / converged) from its base.
    `conv`: the class has a `reduce` that counts the sweeps of its destination
    in the constant `nsw`, accumulates into the constant `cacc` and sets
    `self.left` = sweeps still wanted (constant `nmax`), and a `converged`
    that tests it."""
    attrs = list(ATTR_NAMES)
    g = ExprGen(rng, libm, ksyms, attrs)
    if base is None:
        meths = ['loop'] + [m for m in ('initialize', 'post_loop', 'initialize_pair')
                            if rng.random() < (0.6 if m != 'initialize_pair' else 0.2)]
        src = ['class %s(Equation):' % name,
               '    def __init__(self, dest, sources, ca=1.0, cb=2.0):',
               '        self.ca = ca',
               '        self.cb = cb']
        if conv:
            src.append('        self.left = 1.0')
        src += ['        super(%s, self).__init__(dest, sources)' % name, '']
    else:
        # override a non-empty proper subset of what can be overridden: what is
        # not listed here is INHERITED
        cand = ['loop', 'initialize', 'post_loop']
        meths = [m for m in cand if rng.random() < 0.45]
        if not meths or set(meths) >= set(cand):
            meths = [rng.choice(cand)]
        src = ['class %s(%s):' % (name, base[0])]
    helpers = False
    for m in ('initialize', 'initialize_pair', 'loop', 'post_loop'):
        if m not in meths:
            continue
        loop = m == 'loop'
        ctx = {'args': set(), 'locals': [], 'mat': None, 'loop': loop,
               'helpers': False}
        if m == 'initialize_pair':
            # source arrays are visible, there is no s_idx: constants only
            ctx['args'].add('s_cv')
            body = ['d_q2[d_idx] += s_cv[%d]*%s' % (rng.randrange(3),
                                                   g.term(ctx))]
            ctx['args'].add('d_q2')
        else:
            body = g.body(ctx, rng.randrange(1, 4 if loop else 3))
        if loop:
            # both attributes take part in what the class computes, whatever
            # the random body drew
            body.append('d_q1[d_idx] += self.ca*s_m[s_idx] + self.cb')
            ctx['args'].update(['d_q1', 's_m'])
        if m == 'post_loop' and (conv or base is not None) and rng.random() < 0.7:
            # a constant of the destination WRITTEN by a transpiled method
            body.append('d_cacc[0] += d_q1[d_idx]*%s' % rng.choice(['0.5', '0.25', '2.0']))
            ctx['args'].update(['d_cacc', 'd_q1'])
        helpers = helpers or ctx['helpers']
        args = order_args(ctx['args'], loop)
        src.append('    def %s(self, %s):' % (m, ', '.join(args)))
        src += ['        ' + ln for ln in body]
        src.append('')
    if conv and base is None:
        thr = rng.choice(['0.5', '0.5', '1.5'])
        src += ['    def reduce(self, dst, t, dt):',
                '        dst.nsw[0] += 1.0',
                '        dst.cacc[1] = dst.cacc[1]*%s + self.ca*dst.c0[0] + dst.cv[%d]'
                % (rng.choice(['0.5', '1.0', '0.25']), rng.randrange(3)),
                '        self.left = dst.nmax[0] - dst.nsw[0]', '',
                '    def converged(self):',
                '        if self.left > %s:' % thr,
                '            return -1.0',
                '        return 1.0', '']
    if helpers or (base is not None and base[2]):
        helpers = True
        src += ['    def _get_helpers_(self):',
                '        return [c02_helper, c02_helper2]', '']
    return '\n'.join(src), meths, helpers


def gen_module(rng, ncls, libm, ksyms, tag=None, inherit=False, conv=False):
    """module source + the class names; `tag` fixes the class NAMES (a second
    module with the same tag re-defines the same names with other bodies).
    `inherit`: classes after the first may subclass an earlier class of the
    module, overriding only some methods; `conv`: the first class carries the
    convergence hooks reduce / converged (its subclasses inherit them)"""
    parts = ['from math import sin, exp, sqrt, pow',
             'from compyle.api import declare',
             'from pysph.sph.equation import Equation', helper_src(rng)]
    classes = []
    info = {}
    if tag is None:
        tag = '%06x' % rng.randrange(1 << 24)
    for k in range(ncls):
        nm = 'GenEq%s%s' % (tag, 'ABCDEFGH'[k])
        base = None
        if inherit and k > 0 and (k == 1 or rng.random() < 0.6):
            bn = classes[0] if k == 1 else rng.choice(classes)
            base = (bn, info[bn][0], info[bn][1])
        src, meths, helpers = gen_class(rng, nm, libm, ksyms, base,
                                        conv and k == 0)
        if base is not None:
            helpers = helpers or base[2]
        info[nm] = (meths, helpers)
        parts.append(src)
        classes.append(nm)
    return '\n\n'.join(parts) + '\n', classes


# --- shipped equations -----------------------------------------------------
# (module, class, kwargs, libm?)  — admissible parameters
SHIPPED = [
    ('pysph.sph.basic_equations', 'SummationDensity', {}, False),
    ('pysph.sph.basic_equations', 'ContinuityEquation', {}, False),
    ('pysph.sph.basic_equations', 'BodyForce', {'fx': 0.5, 'fy': -9.81, 'fz': 0.1}, False),
    ('pysph.sph.basic_equations', 'IsothermalEOS', {'rho0': 1.0, 'c0': 10.0, 'p0': 0.5}, False),
    ('pysph.sph.basic_equations', 'MonaghanArtificialViscosity', {'alpha': 1.0, 'beta': 2.0}, False),
    ('pysph.sph.basic_equations', 'XSPHCorrection', {'eps': 0.5}, False),
    ('pysph.sph.basic_equations', 'VelocityGradient2D', {}, False),
    ('pysph.sph.basic_equations', 'VelocityGradient3D', {}, False),
    ('pysph.sph.wc.basic', 'TaitEOS', {'rho0': 1.0, 'c0': 10.0, 'gamma': 7.0, 'p0': 0.0}, True),
    ('pysph.sph.wc.basic', 'MomentumEquation', {'c0': 10.0, 'alpha': 0.5, 'beta': 0.5, 'gx': 0.0, 'gy': -9.81, 'gz': 0.0, 'tensile_correction': True}, True),
    ('pysph.sph.wc.basic', 'MomentumEquationDeltaSPH', {'rho0': 1.0, 'c0': 10.0, 'alpha': 0.5}, False),
    ('pysph.sph.wc.basic', 'ContinuityEquationDeltaSPH', {'c0': 10.0, 'delta': 0.1}, False),
    ('pysph.sph.wc.basic', 'PressureGradientUsingNumberDensity', {}, False),
    ('pysph.sph.wc.transport_velocity', 'SummationDensity', {}, False),
    ('pysph.sph.wc.transport_velocity', 'StateEquation', {'p0': 100.0, 'rho0': 1.0, 'b': 1.0}, False),
    ('pysph.sph.wc.transport_velocity', 'MomentumEquationPressureGradient', {'pb': 10.0, 'gx': 0.0, 'gy': -1.0, 'gz': 0.0, 'tdamp': 0.0}, False),
    ('pysph.sph.wc.transport_velocity', 'MomentumEquationViscosity', {'nu': 0.01}, False),
    ('pysph.sph.wc.transport_velocity', 'MomentumEquationArtificialStress', {}, False),
    ('pysph.sph.wc.transport_velocity', 'SetWallVelocity', {}, False),
    ('pysph.sph.wc.transport_velocity', 'SolidWallPressureBC', {'rho0': 1.0, 'p0': 100.0, 'b': 1.0, 'gx': 0.0, 'gy': -1.0, 'gz': 0.0}, False),
    ('pysph.sph.wc.edac', 'EDACEquation', {'cs': 10.0, 'nu': 0.05, 'rho0': 1.0}, False),
    ('pysph.sph.wc.viscosity', 'LaminarViscosity', {'nu': 0.01, 'eta': 0.01}, False),
    ('pysph.sph.gas_dynamics.basic', 'IdealGasEOS', {'gamma': 1.4}, True),
    ('pysph.sph.gas_dynamics.basic', 'MPMAccelerations', {'beta': 2.0, 'alpha1_min': 0.1, 'alpha2_min': 0.1}, True),
    ('pysph.sph.gas_dynamics.basic', 'SummationDensity', {'dim': 2, 'density_iterations': False, 'iterate_only_once': True, 'k': 1.2, 'htol': 1e-6}, True),
    ('pysph.sph.solid_mech.basic', 'HookesDeviatoricStressRate', {}, False),
    ('pysph.sph.solid_mech.basic', 'MomentumEquationWithStress', {}, True),
    ('pysph.sph.solid_mech.basic', 'MonaghanArtificialStress', {'eps': 0.3}, True),
    ('pysph.sph.surface_tension', 'ColorGradientUsingNumberDensity', {'epsilon': 1e-6}, True),
    ('pysph.sph.iisph', 'SummationDensity', {}, False),
    ('pysph.sph.boundary_equations', 'MonaghanBoundaryForce', {'deltap': 0.1}, True),
]

# properties some shipped equations need beyond the method arguments' own
# names, with strides
STRIDES = {'A3': 3}
# properties the shipped equations declare as integer arrays
INT_PROPS = {'converged': 'int'}


def load_class(ref, modules):
    mod, cls = ref.split(':')
    if mod == 'gen':
        return getattr(modules['gen'], cls)
    return getattr(importlib.import_module(mod), cls)


def import_generated(src, work):
    h = hashlib.sha1(src.encode()).hexdigest()[:12]
    name = 'c02gen_' + h
    path = os.path.join(work, name + '.py')
    if not os.path.exists(path):
        with open(path + '.%d' % os.getpid(), 'w') as fh:
            fh.write(src)
        os.replace(path + '.%d' % os.getpid(), path)
    if name in sys.modules:
        return sys.modules[name]
    spec = importlib.util.spec_from_file_location(name, path)
    mod = importlib.util.module_from_spec(spec)
    sys.modules[name] = mod
    spec.loader.exec_module(mod)
    return mod


def method_args(eq, m):
    f = getattr(eq, m, None)
    if f is None:
        return None
    a = list(inspect.getfullargspec(f).args)
    if 'self' in a:
        a.remove('self')
    return a


ARG_METHODS = ('initialize', 'initialize_pair', 'loop', 'loop_all', 'post_loop')


def needed_props(eqs):
    """property names the equations (and the precomputed symbols of their loops)
    touch, per array: {array: set(props)} — used only to BUILD the arrays"""
    need = {}
    for eq in eqs:
        names = set()
        for m in ARG_METHODS:
            names.update(method_args(eq, m) or [])
        loopa = set(method_args(eq, 'loop') or [])
        pre = set(['x', 'y', 'z', 'h'])
        if loopa & {'VIJ'}:
            pre |= {'u', 'v', 'w'}
        if loopa & {'RHOIJ', 'RHOIJ1'}:
            pre |= {'rho'}
        dn = {n[2:] for n in names if n.startswith('d_') and n != 'd_idx'}
        sn = {n[2:] for n in names if n.startswith('s_') and n != 's_idx'}
        need.setdefault(eq.dest, set()).update(dn | pre)
        for s in (eq.sources or []):
            need.setdefault(s, set()).update(sn | pre)
            need[eq.dest].update(pre)
    return need


# ===========================================================================
# building a case

def array_sizes(a, dim):
    """(number of particles, number of real particles) build_arrays makes for
    the array spec `a`"""
    side = max(2, int(round(a['n'] ** (1.0 / dim))))
    tot = min(side ** dim, max(a['n'], 1))
    return tot, tot - min(a.get('nghost', 0), tot)


def make_positions(rng, n, dim, dx):
    side = max(2, int(round(n ** (1.0 / dim))))
    pts = []
    for idx in range(side ** dim):
        c = []
        k = idx
        for _ in range(dim):
            c.append((k % side) * dx)
            k //= side
        pts.append(c + [0.0] * (3 - dim))
    pts = pts[:max(n, 1)]
    a = np.array(pts, dtype=float)
    jit = np.array([[rng.uniform(-0.2, 0.2) * dx for _ in range(dim)] +
                    [0.0] * (3 - dim) for _ in range(len(pts))])
    return a + jit


def build_arrays(spec):
    """fresh particle arrays for the spec (deterministic in spec['data_seed'])"""
    rng = random.Random(spec['data_seed'])
    dim = spec['dim']
    dx = 0.1
    pas = []
    for k, a in enumerate(spec['arrays']):
        pos = make_positions(rng, a['n'], dim, dx) + 0.03 * k
        n = len(pos)
        pa = get_particle_array(name=a['name'], x=pos[:, 0], y=pos[:, 1],
                                z=pos[:, 2])
        for p in sorted(a['props']):
            info = a['props'][p]
            if p in ('x', 'y', 'z'):
                continue
            if p not in pa.properties:
                pa.add_property(p, type=info.get('type', 'double'),
                                stride=info.get('stride', 1))
            arr = pa.get_carray(p).get_npy_array()
            if p == 'h':
                arr[:] = [dx * rng.uniform(1.0, 1.5) for _ in range(len(arr))]
            elif p == 'tag' or p in ('pid', 'gid'):
                continue
            elif info.get('type', 'double') in ('int', 'long', 'unsigned int'):
                arr[:] = [rng.randrange(0, 5) for _ in range(len(arr))]
            elif p in ('rho', 'm', 'cs', 'V', 'rho0', 'e', 'alpha1', 'alpha2',
                       'omega', 'dwdh', 'wij'):
                arr[:] = [rng.uniform(0.5, 2.0) for _ in range(len(arr))]
            else:
                arr[:] = [rng.uniform(-1.0, 1.0) for _ in range(len(arr))]
        for c in sorted(a.get('consts', {})):
            ln = a['consts'][c]
            pa.add_constant(c, [rng.uniform(0.5, 1.5) for _ in range(ln)])
        for c in sorted(a.get('cdraw', {})):
            # a constant whose value is one of the listed ones (per data seed)
            pa.add_constant(c, [float(rng.choice(a['cdraw'][c]))])
        for c in sorted(a.get('czero', {})):
            pa.add_constant(c, [0.0] * a['czero'][c])
        for c in sorted(a.get('iconsts', {})):
            pa.add_constant(c, int(a['iconsts'][c]))        # a LongArray
        for p in sorted(a.get('ifirst', {})):
            if p not in pa.properties:
                pa.add_property(p, type='int')
            arr = pa.get_carray(p).get_npy_array()
            arr[:] = [rng.randrange(0, 5) for _ in range(len(arr))]
        ng = min(a.get('nghost', 0), n)
        if ng:
            tag = pa.get_carray('tag').get_npy_array()
            for i in rng.sample(range(n), ng):
                tag[i] = 2
            pa.align_particles()
        for p in sorted(a.get('ifirst', {})):
            # "its first value": of the array as the evaluator finds it
            pa.get_carray(p).get_npy_array()[0] = int(a['ifirst'][p])
        pas.append(pa)
    return pas


def make_condition(c):
    v = float(c['lt'] if 'lt' in c else c['ge'])
    if 'lt' in c:
        return lambda t, dt: t < v
    return lambda t, dt: t >= v


def make_callback(cb, pas):
    pa = next(p for p in (pas or []) if p.name == cb['arr'])

    def f():
        a = pa.get_carray(cb['prop']).get_npy_array()
        if 'mul' in cb:
            a *= cb['mul']
        else:
            a += cb['add']
    return f


def group_kwargs(g, pas):
    kw = {}
    if g.get('name') is not None:
        kw['name'] = g['name']
    if g.get('cond'):
        kw['condition'] = make_condition(g['cond'])
    for k in ('pre', 'post'):
        if g.get(k):
            kw[k] = make_callback(g[k], pas)
    if 'start' in g:
        kw['start_idx'] = g['start']
    if 'stop' in g:
        kw['stop_idx'] = g['stop']
    if g.get('iter'):
        kw.update(iterate=True, min_iterations=g['iter']['min'],
                  max_iterations=g['iter']['max'])
    return kw


def build_equations(spec, modules, pas=None):
    """the user's Group objects; `pas` = the particle arrays the pre/post
    callables of the spec act on"""
    def leaf(g):
        eqs = []
        for e in g['eqs']:
            cls = load_class(e['cls'], modules)
            eqs.append(cls(dest=e['dest'], sources=e['sources'], **e['kw']))
        return Group(equations=eqs, real=g.get('real', True), **group_kwargs(g, pas))
    groups = []
    for g in spec['groups']:
        if 'subs' in g:
            groups.append(Group(equations=[leaf(sg) for sg in g['subs']],
                                **group_kwargs(g, pas)))
        else:
            groups.append(leaf(g))
    return groups


def leaf_groups(groups):
    """[((top, sub|None), group)] of the groups that hold equations, in order"""
    out = []
    for i, g in enumerate(groups):
        if g.has_subgroups:
            out += [((i, k), sg) for k, sg in enumerate(g.equations)]
        else:
            out.append(((i, None), g))
    return out


def spec_nodes(spec):
    """[((top, sub|None), group spec)] of EVERY group of the spec, parents first"""
    out = []
    for i, g in enumerate(spec['groups']):
        out.append(((i, None), g))
        for k, sg in enumerate(g.get('subs', [])):
            out.append(((i, k), sg))
    return out


def get_kernel(spec):
    return getattr(PK, spec['kernel'])(dim=spec['dim'])


# ===========================================================================
# (c) the pure-Python executor — the documented order (equations.rst):
# per group, per destination (first appearance): initialize of all its
# equations for every destination particle; per source (first appearance):
# [initialize_pair,] for every destination particle [loop_all, then] over its
# neighbours the loops of the equations in order, with the precomputed symbols
# by their documented formulas; post_loop; reduce.

def views(pa):
    d = {}
    for n in list(pa.properties.keys()) + list(pa.constants.keys()):
        d[n] = pa.get_carray(n).get_npy_array()
    return d


def call_method(eq, m, avail):
    f = getattr(eq, m)
    args = method_args(eq, m)
    return f(*[avail(a) for a in args])


def py_execute(pas, groups, kernel, neighbours, t, dt, trace=None):
    """the documented meaning of a list of groups: a group runs iff ITS OWN
    condition(t, dt) holds (or it has none); ITS pre() is called before
    anything of the group, ITS post() after the group is completed; sub-groups
    run in order inside their parent, each under its own condition, between its
    own pre and post."""
    def guarded(g, body):
        if g.condition is not None and not g.condition(t, dt):
            return
        body()

    def with_pre_post(g, body):
        if g.pre is not None:
            g.pre()
        body()
        if g.post is not None:
            g.post()

    def parent_body(g):
        for sg in g.equations:
            guarded(sg, lambda: with_pre_post(
                sg, lambda: py_execute_leaf(pas, sg, kernel, neighbours, t, dt)))

    def equations_of(g):
        if g.has_subgroups:
            return [e for sg in g.equations for e in equations_of(sg)]
        return list(g.equations)

    def iterated(g, body):
        """Group docstring: `iterate`: "the group should continue iterating
        until each equation's converged() methods returns with a positive
        value", `max_iterations`: "the maximum number of times this group
        should be iterated", `min_iterations`: the minimum number.  EVERY
        equation of the group is asked after every sweep -- whichever class of
        its hierarchy defines the method."""
        if not g.iterate:
            body()
            return
        count = 1
        bits = []
        while True:
            body()
            conv = [e.converged() > 0 for e in equations_of(g)]
            bits.append(all(conv))
            if count >= g.min_iterations and (all(conv) or count == g.max_iterations):
                if trace is not None:
                    trace.append((g.min_iterations, g.max_iterations, bits, count))
                break
            count += 1
            if count > 10000:
                raise RuntimeError('iterated group does not terminate')

    for g in groups:
        if g.has_subgroups:
            guarded(g, lambda: iterated(g, lambda: with_pre_post(g, lambda: parent_body(g))))
        else:
            guarded(g, lambda: iterated(g, lambda: with_pre_post(
                g, lambda: py_execute_leaf(pas, g, kernel, neighbours, t, dt))))


def first_value(pa, name):
    """'look for a property/constant and use its first value' (Group docstring)"""
    return int(pa.get_carray(name).get_npy_array()[0])


def documented_range(g, dpa):
    """Group docstring: start_idx "Starts from the given number if an integer is
    passed. If a string is look for a property/constant and use its first value";
    stop_idx "Defaults to all particles [the real ones if `real`]. Ends at the
    given number ... this works like a range stop parameter" """
    start = g.start_idx
    if isinstance(start, str):
        start = first_value(dpa, start)
    stop = g.stop_idx
    if stop is None:
        stop = dpa.get_number_of_particles(g.real)
    elif isinstance(stop, str):
        stop = first_value(dpa, stop)
    return range(int(start), int(stop))


def py_execute_leaf(pas, g, kernel, neighbours, t, dt):
    by = {pa.name: pa for pa in pas}
    V = {pa.name: views(pa) for pa in pas}
    if True:
        eqs = list(g.equations)
        dests = []
        for e in eqs:
            if e.dest not in dests:
                dests.append(e.dest)
        for dname in dests:
            deqs = [e for e in eqs if e.dest == dname]
            dpa = by[dname]
            dv = V[dname]
            # the destination indices the group asks for, read when the
            # destination is taken up
            drange = documented_range(g, dpa)

            def base(a, di=None, si=None, sv=None, extra=None):
                if a == 'd_idx':
                    return di
                if a == 's_idx':
                    return si
                if a == 't':
                    return t
                if a == 'dt':
                    return dt
                if a == 'SPH_KERNEL':
                    return kernel
                if a.startswith('d_'):
                    return dv[a[2:]]
                if a.startswith('s_'):
                    return sv[a[2:]]
                if extra is not None and a in extra:
                    return extra[a]
                raise KeyError('argument %s' % a)
            for e in deqs:
                if hasattr(e, 'py_initialize'):
                    e.py_initialize(dpa, t, dt)
            for di in drange:
                for e in deqs:
                    if hasattr(e, 'initialize'):
                        call_method(e, 'initialize',
                                    lambda a: base(a, di))
            for di in drange:
                for e in deqs:
                    if e.no_source and hasattr(e, 'loop'):
                        call_method(e, 'loop', lambda a: base(a, di))
            srcs = []
            for e in deqs:
                for s in (e.sources or []):
                    if s not in srcs:
                        srcs.append(s)
            for sname in srcs:
                seqs = []
                for e in deqs:
                    for s in (e.sources or []):
                        if s == sname:
                            seqs.append(e)
                sv = V[sname]
                for di in drange:
                    for e in seqs:
                        if hasattr(e, 'initialize_pair'):
                            call_method(e, 'initialize_pair',
                                        lambda a: base(a, di, None, sv))
                has_loop = any(hasattr(e, 'loop') for e in seqs)
                has_la = any(hasattr(e, 'loop_all') for e in seqs)
                if not (has_loop or has_la):
                    continue
                wanted = [a for e in seqs if hasattr(e, 'loop')
                          for a in method_args(e, 'loop') if a in ALL_SYMS]
                for di in drange:
                    nb = neighbours(sname, dname, di)
                    ex0 = {'NBRS': nb, 'N_NBRS': len(nb)}
                    for e in seqs:
                        if hasattr(e, 'loop_all'):
                            call_method(e, 'loop_all',
                                        lambda a: base(a, di, None, sv, ex0))
                    if not has_loop:
                        continue
                    for si in nb:
                        si = int(si)
                        memo = {}

                        def g_(sym):
                            if sym not in memo:
                                memo[sym] = doc_symbol(sym, g_, dv, sv, di, si,
                                                       kernel)
                            return memo[sym]

                        def avail(a):
                            if a in ALL_SYMS:
                                return g_(a)
                            return base(a, di, si, sv, ex0)
                        # the symbols are values of the pair: all of them are
                        # evaluated before the first loop of the pair runs
                        for sym in wanted:
                            g_(sym)
                        for e in seqs:
                            if hasattr(e, 'loop'):
                                call_method(e, 'loop', avail)
            for di in drange:
                for e in deqs:
                    if hasattr(e, 'post_loop'):
                        call_method(e, 'post_loop', lambda a: base(a, di))
            for e in deqs:
                if hasattr(e, 'reduce'):
                    e.reduce(dpa, t, dt)


# ===========================================================================
# (b) parsing the generated source

KSUB = [('self.kernel.gradient_h', 'GRADH'), ('self.kernel.gradient', 'GRADIENT'),
        ('self.kernel.kernel', 'KERNEL'), ('self.kernel.dwdq', 'DWDQ'),
        ('self.kernel.get_deltap()', 'DELTAP')]


def parse_generated(code):
    """structure of the generated `compute`:
    {'decl': {name: ctype}, 'vec': {X: n}, 'scal': [X], 'init': {var: (cls, idx)},
     'groups': [[destblock]]}, destblock = {'dest', 'assigns': {lhs: (side, prop)},
     'calls': [(var, meth, [args])], 'srcs': [{'source','assigns','vecsetup',
     'pre': [stmt text], 'calls': [...]}]}"""
    out = {'decl': {}, 'vec': {}, 'scal': [], 'init': {}, 'groups': [], 'gpos': [],
           'sites': []}
    top, sub = -1, None      # where in the group tree the text is (from the
    #                          template's own structure comments, see below)
    for m in re.finditer(r'^\s*self\.(\w+) = (\w+)\(\*\*equations\[(\d+)\]\.__dict__\)',
                         code, re.M):
        out['init'][m.group(1)] = (m.group(2), int(m.group(3)))
    i = code.index('cpdef compute')
    lines = code[i:].split('\n')
    sect = None
    cur_g = cur_d = cur_s = None
    in_pre = False
    for ln in lines:
        s = ln.strip()
        if s.startswith('# Arrays.'):
            sect = 'arrays'
            continue
        if s.startswith('# Variables.'):
            sect = 'vars'
            continue
        # Position in the group tree, taken from the STRUCTURE of the text and
        # not from the `self.groups[..]` expressions: the n-th `# Group <name>.`
        # opens the n-th top-level group that has content (all of them here),
        # `# Doing subgroup k` (k = enumerate index of the template's loop) its
        # k-th sub-group, `_prof_global = ProfileContext(` ... `_prof_global.stop()`
        # delimit one do_group; what follows the last sub-group's do_group
        # belongs to the parent again.
        m = re.match(r'# Group (.+)\.$', s)
        if m and not m.group(1).endswith(' done'):
            sect = 'body'
            top, sub = top + 1, None
            cur_g = cur_d = cur_s = None
            continue
        m = re.match(r'# Doing subgroup (\d+)$', s)
        if m:
            sect = 'body'
            sub = int(m.group(1))
            cur_g = cur_d = cur_s = None
            continue
        if sect == 'body' and s.startswith('_prof_global = ProfileContext('):
            cur_g = []
            out['groups'].append(cur_g)
            out['gpos'].append((top, sub))
            cur_d = cur_s = None
            continue
        if sect == 'body' and s == '_prof_global.stop()':
            cur_g = cur_d = cur_s = None
            sub = None
            continue
        if sect == 'body':
            m = re.match(r'(if )?self\.groups\[(\d+)\](?:\.data\[(\d+)\])?\.'
                         r'(condition\(t, dt\):|pre\(\)|post\(\))$', s)
            if m and (m.group(1) is not None) == m.group(4).startswith('condition'):
                out['sites'].append({
                    'kind': {'c': 'cond', 'p': 'pre' if m.group(4)[1] == 'r' else 'post'}[m.group(4)[0]],
                    'target': (int(m.group(2)),
                               None if m.group(3) is None else int(m.group(3))),
                    'at': (top, sub),
                    'indent': len(ln) - len(ln.lstrip())})
                continue
            if 'self.groups[' in s:
                out['sites'].append({'kind': '?', 'target': None, 'at': (top, sub),
                                     'indent': 0, 'text': s})
                continue
        if sect == 'arrays':
            m = re.match(r'cdef (.+?)\s*(\w+)$', s)
            if m and (m.group(2).startswith('d_') or m.group(2).startswith('s_')):
                out['decl'][m.group(2)] = m.group(1).strip()
            continue
        if sect == 'vars':
            m = re.match(r'cdef DoubleArray _(\w+) = DoubleArray\(aligned\((\d+), 8\)\*self\.n_threads\)$', s)
            if m:
                out['vec'][m.group(1)] = int(m.group(2))
                continue
            m = re.match(r'cdef double (\w+) = 0\.0$', s)
            if m:
                out['scal'].append(m.group(1))
            continue
        if sect != 'body':
            continue
        m = re.match(r'dst = self\.(\w+)$', s)
        if m:
            cur_d = {'dest': m.group(1), 'assigns': {}, 'calls': [], 'srcs': [],
                     'lims': [], 'loops': []}
            cur_g.append(cur_d)
            cur_s = None
            continue
        m = re.match(r'src = self\.(\w+)$', s)
        if m:
            cur_s = {'source': m.group(1), 'assigns': {}, 'vecsetup': {},
                     'pre': [], 'calls': []}
            cur_d['srcs'].append(cur_s)
            continue
        m = re.match(r'(D_START_IDX|NP_DEST)\s*=\s*(.+)$', s)
        if m and cur_d is not None:
            # (name, right-hand side, number of destination loops seen before)
            cur_d['lims'].append((m.group(1), m.group(2).strip(), len(cur_d['loops'])))
            continue
        m = re.match(r'for d_idx in (.+):$', s)
        if m and cur_d is not None:
            cur_d['loops'].append(m.group(1).strip())
            continue
        m = re.match(r'(\w+) = (dst|src)\.(\w+)\.data$', s)
        if m:
            tgt = cur_d if m.group(2) == 'dst' else cur_s
            tgt['assigns'][m.group(1)] = (m.group(2), m.group(3))
            continue
        m = re.match(r'(\w+) = &_(\w+)\.data\[thread_id\*aligned\((\d+), 8\)\]$', s)
        if m and cur_s is not None:
            cur_s['vecsetup'][m.group(1)] = (m.group(2), int(m.group(3)))
            continue
        if s.startswith('# Source') and s.endswith('done.'):
            cur_s = None
            in_pre = False
            continue
        if s.startswith('s_idx = <long>'):
            in_pre = True
            continue
        m = re.match(r'self\.(\w+)\.(initialize_pair|initialize|loop_all|loop|post_loop|reduce)\((.*)\)$', s)
        if m and m.group(1) != 'kernel':
            in_pre = False
            call = (m.group(1), m.group(2),
                    [a.strip() for a in m.group(3).split(',')])
            (cur_s if cur_s is not None else cur_d)['calls'].append(call)
            continue
        if in_pre and s and cur_s is not None:
            t = s
            for a, b in KSUB:
                t = t.replace(a, b)
            cur_s['pre'].append(t)
    return out


_ITER_RE = re.compile(
    r'max_iterations = (-?\d+)\s+min_iterations = (-?\d+)\s+_iteration_count = 1\s+while True:\n'
    r'(.*?)\n\s*if \(\(_iteration_count >= min_iterations\)\s+and \((.*?) or '
    r'\(_iteration_count == max_iterations\)\)\):\s+_iteration_count = 1\s+break\s+'
    r'_iteration_count \+= 1\n', re.S)


def parse_iterations(code):
    """the iterated groups of the generated `compute`: [{'at': index of the
    top-level group the loop stands in, 'max', 'min', 'cond': text of the
    convergence factor of the break test}], and the number of `while True:`
    lines (each must belong to one loop of the documented form)"""
    body = code[code.index('cpdef compute'):]
    heads = [m.start() for m in re.finditer(r'^\s*# Group (.+)\.$', body, re.M)
             if not m.group(1).endswith(' done')]
    its = []
    for m in _ITER_RE.finditer(body):
        at = sum(1 for h in heads if h < m.start()) - 1
        inside = sum(1 for h in heads if m.start() < h < m.end())
        its.append({'at': at, 'max': int(m.group(1)), 'min': int(m.group(2)),
                    'cond': ' '.join(m.group(4).split()), 'spans': inside})
    return its, len(re.findall(r'^\s*while True:\s*$', body, re.M))


def parse_wrappers(code, names):
    """the `cdef class <name>:` blocks of the equation classes:
    {name: {'attrs': {attr: ctype}, 'methods': {meth: [argument names]}, 'count': n}}"""
    out = {}
    lines = code.split('\n')
    i = 0
    while i < len(lines):
        m = re.match(r'cdef class (\w+)\s*:', lines[i])
        i += 1
        if not m or m.group(1) not in names:
            continue
        W = out.setdefault(m.group(1), {'attrs': {}, 'methods': {}, 'count': 0})
        W['count'] += 1
        while i < len(lines) and (not lines[i].strip() or lines[i][0] in ' \t'):
            ln = lines[i]
            i += 1
            a = re.match(r'    cdef public (.+?)\s*(\w+)$', ln)
            if a:
                W['attrs'][a.group(2)] = a.group(1).strip()
                continue
            f = re.match(r'    c?p?def (?:inline )?(?:[\w \*]+? )?(\w+)\((.*)\)[^()]*:$', ln)
            if f:
                args = [x.strip().split(' ')[-1].lstrip('*') for x in f.group(2).split(',')
                        if x.strip()]
                if args and args[0] == 'self':
                    args = args[1:]
                W['methods'][f.group(1)] = args
    return out


def py_tag(v):
    """the distinctions compyle's detect_type makes for an attribute value"""
    if isinstance(v, bool):
        return 'bool'
    if isinstance(v, int):
        return 'int'
    if isinstance(v, float):
        return 'float'
    if isinstance(v, str):
        return 'str'
    if isinstance(v, (list, tuple)):
        if all(isinstance(x, (int, float)) for x in v):
            return 'numlist'
        return 'list' if isinstance(v, list) else 'tuple'
    return 'object'


def c_holds(ctype, tag):
    """a C attribute of that type keeps a Python value of that type unchanged"""
    return {'double': tag in ('bool', 'int', 'float'),
            'long': tag in ('bool', 'int'),
            'int': tag in ('bool', 'int'),      # the values used here fit
            'float': tag in ('bool', 'int')}.get(ctype, False)


def limit_canon(text):
    """syntactic form of an emitted loop limit, in the model's vocabulary"""
    t = text.replace(' ', '')
    if re.fullmatch(r'-?\d+', t):
        return 'lit:%d' % int(t)
    m = re.fullmatch(r'self\.(\w+)\.size\(real=(True|False)\)', t)
    if m:
        return 'size:%s.%d' % (m.group(1), m.group(2) == 'True')
    m = re.fullmatch(r'self\.(\w+)\.(\w+)\[0\]', t)
    if m:
        return 'first:%s.%s' % (m.group(1), m.group(2))
    return '?' + t


def limit_value(canon, by):
    """what the emitted limit evaluates to on the real arrays (None: unknown form)"""
    kind, _, rest = canon.partition(':')
    try:
        if kind == 'lit':
            return int(rest)
        arr, _, x = rest.partition('.')
        if kind == 'size':
            return by[arr].get_number_of_particles(x == '1')
        if kind == 'first':
            return first_value(by[arr], x)
    except Exception:   # noqa
        return None
    return None


def stmt_target(t):
    m = re.match(r'(\w+)(\[\d+\])? = ', t)
    if m:
        return m.group(1)
    m = re.match(r'\w+\((.*)\)$', t)
    if m:
        return m.group(1).split(',')[-1].strip()
    return None


def pre_order(pre):
    o = []
    for t in pre:
        tg = stmt_target(t)
        if tg is not None and tg not in o:
            o.append(tg)
    return o


_DOC = {}


def documented_statements(repo):
    """symbol -> list of statement texts (blanks removed) from equations.rst +
    the naming convention; independent of the translator's parser"""
    if _DOC:
        return _DOC
    rst = open(os.path.join(repo, 'docs', 'source', 'design',
                            'equations.rst')).read()
    a = rst.index('The following precomputed')
    b = rst.index('``SPH_KERNEL``', a)
    for seg in re.findall(r'``(.+?)``', rst[a:b], re.S):
        seg = ' '.join(seg.split())
        tg = stmt_target(seg)
        if tg is None or re.fullmatch(r'\w+', seg):
            continue
        _DOC.setdefault(tg, []).append(seg.replace(' ', ''))
    hs = {'I': 'd_h[d_idx]', 'J': 's_h[s_idx]', 'IJ': 'HIJ'}
    _DOC.setdefault('WDP', ['WDP=KERNEL(XIJ,DELTAP*HIJ,HIJ)'])
    for sfx, h in hs.items():
        _DOC.setdefault('GH' + sfx, ['GH%s=GRADH(XIJ,RIJ,%s)' % (sfx, h)])
        _DOC.setdefault('WDASH' + sfx, ['WDASH%s=DWDQ(RIJ,%s)' % (sfx, h)])
    return _DOC


CTYPE = {'double': 'double', 'int': 'int', 'unsigned int': 'unsigned int',
         'long': 'long', 'float': 'float'}


def eqn_token(eq, uid):
    def a(m):
        x = method_args(eq, m)
        if x is None:
            return '-'
        return ','.join(x) if x else '_'
    return ('Q id=%d name=%s dest=%s sources=%s init=%s ipair=%s loop=%s lall=%s post=%s'
            % (uid, eq.__class__.__name__, eq.dest,
               ','.join(eq.sources) if eq.sources else '_',
               a('initialize'), a('initialize_pair'), a('loop'), a('loop_all'),
               a('post_loop')))


def parr_token(pa):
    items = []
    for coll in (pa.properties, pa.constants):
        for n, arr in coll.items():
            items.append('%s:%s:%s' % (n, arr.__class__.__name__,
                                       arr.get_c_type().replace(' ', '~')))
    return 'P name=%s props=%s' % (pa.name, ';'.join(items))


def analyse_program(spec, work, want_code=False):
    """build the real objects for a spec; returns dict with the generated
    source's parse, the wiring lines for the driver and oracle findings"""
    modules = {}
    if spec.get('mod'):
        modules['gen'] = import_generated(spec['mod'], work)
    from pysph.sph.acceleration_eval import AccelerationEval
    from pysph.sph.acceleration_eval_cython_helper import \
        AccelerationEvalCythonHelper
    # unnamed groups are numbered by a process-wide counter that ends up in the
    # generated text (profiling labels): every program starts it afresh, so the
    # text of a program does not depend on how many groups the process made
    EQ.group_counter = itertools.count()
    pas = build_arrays(spec)
    top_groups = build_equations(spec, modules, pas)
    kernel = get_kernel(spec)
    ae = AccelerationEval(pas, top_groups, kernel)
    helper = AccelerationEvalCythonHelper(ae)
    code = helper.get_code()
    P = parse_generated(code)
    res = {'parse': P, 'fail': [], 'lines': [], 'impl_canon': []}
    if want_code:
        res['code'] = code
    ptoks = ' '.join(parr_token(pa) for pa in pas)
    # the groups that hold equations (top-level groups and sub-groups), in order
    leaves = leaf_groups(top_groups)
    groups = [g for _, g in leaves]
    all_eqs = [e for g in groups for e in g.equations]
    # driver lines: one per group of equations, one for the whole program
    # (decl / scratch), one for the call sites of the group callables

    def uid(e):
        return next(i for i, x in enumerate(all_eqs) if x is e)
    for g in groups:
        res['lines'].append('wiring %s %s' % (
            ptoks, ' '.join(eqn_token(e, uid(e)) for e in g.equations)))
    res['lines'].append('wiring %s %s' % (
        ptoks, ' '.join(eqn_token(e, uid(e)) for e in all_eqs)))
    # ---- call sites of condition / pre / post ------------------------------
    # model input: the group tree with object identities (what _group_map is
    # keyed by: the index of the object among all group objects), the names,
    # and which callables are present
    objs = []
    for g in top_groups:
        objs.append(g)
        if g.has_subgroups:
            objs += list(g.equations)

    def gtok(kind, g):
        return 'G uid=%d kind=%s name=%s cond=%d pre=%d post=%d' % (
            next(i for i, x in enumerate(objs) if x is g), kind, g.name,
            g.condition is not None, g.pre is not None, g.post is not None)
    toks = []
    for g in top_groups:
        toks.append(gtok('parent' if g.has_subgroups else 'leaf', g))
        if g.has_subgroups:
            toks += [gtok('sub', sg) for sg in g.equations]
    res['lines'].append('callsites ' + ' '.join(toks))

    def pos_str(p):
        return '?' if p is None else ('%d' % p[0] if p[1] is None else '%d.%d' % p)
    res['impl_sites'] = ','.join(
        '%s@%s>%s' % (st['kind'], pos_str(st['at']), pos_str(st['target']))
        for st in P['sites']) or '_'
    # property oracle (independent of the model): the documented meaning of
    # condition / pre / post is per group -- "if THIS callable returns True the
    # group is executed", "called before anything in the group", "after the
    # group is completed" -- so the generated text must, inside the text of each
    # group (position taken from the template's structure comments), call the
    # callables of the object at THAT position of self.groups, each once, in
    # the order condition, pre, [sub-groups], post
    want_sites = []
    for i, g in enumerate(top_groups):
        here = (i, None)
        if g.condition is not None:
            want_sites.append(('cond', here))
        if g.pre is not None:
            want_sites.append(('pre', here))
        if g.has_subgroups:
            for k, sg in enumerate(g.equations):
                for kind, f in (('cond', sg.condition), ('pre', sg.pre), ('post', sg.post)):
                    if f is not None:
                        want_sites.append((kind, (i, k)))
        if g.post is not None:
            want_sites.append(('post', here))
    want_txt = ','.join('%s@%s>%s' % (k, pos_str(p), pos_str(p)) for k, p in want_sites) or '_'
    if want_txt != res['impl_sites']:
        bad = [st for st in P['sites'] if st['target'] != st['at']]
        res['fail'].append((
            'C02:group-callback-wiring',
            'call sites (kind@group-the-text-belongs-to>group-whose-callable-is-called): ' + want_txt,
            res['impl_sites'] + (
                ' -- e.g. the %s of group %s calls self.groups%s' % (
                    bad[0]['kind'], pos_str(bad[0]['at']),
                    '?' if bad[0]['target'] is None else
                    '[%d]' % bad[0]['target'][0] + ('' if bad[0]['target'][1] is None
                                                   else '.data[%d]' % bad[0]['target'][1]))
                if bad else '')))
    if P['gpos'] != [p for p, _ in leaves]:
        res['fail'].append(('C02:group-callback-wiring',
                            'one do_group per group of equations, at %s' % [p for p, _ in leaves],
                            repr(P['gpos'])))
    var2eq = {}
    for var, (cls, idx) in P['init'].items():
        var2eq[var] = all_eqs[idx] if idx < len(all_eqs) else None
    # canonical text of what the generated code does, per group
    for gi, g in enumerate(groups):
        blocks = P['groups'][gi] if gi < len(P['groups']) else []
        txt = []
        for db in blocks:
            def cls_of(v):
                e = var2eq.get(v)
                return e.__class__.__name__ if e is not None else '?' + v

            def eqnames(calls):
                return calls
            alle, nosrc = [], []
            for var, m, _ in db['calls']:
                if var not in alle:
                    alle.append(var)
            # equations of a destination in the order of the group
            dest_eqs = [e for e in g.equations if e.dest == db['dest']]
            seen = []
            for e in dest_eqs:
                if not any(e is x for x in seen):
                    seen.append(e)
            s = 'D %s assigns=%s nosrc=%s all=%s ' % (
                db['dest'],
                ','.join('%s<%s.%s' % (k, v[0], v[1])
                         for k, v in sorted(db['assigns'].items())) or '_',
                ','.join(e.__class__.__name__ for e in seen if e.no_source) or '_',
                ','.join(e.__class__.__name__ for e in seen) or '_')
            ss = []
            for sb in db['srcs']:
                loops = [cls_of(v) for v, m, _ in sb['calls'] if m == 'loop']
                members = [e.__class__.__name__ for e in dest_eqs
                           for so in (e.sources or []) if so == sb['source']]
                po = pre_order(sb['pre'])
                ss.append('S %s assigns=%s eqs=%s precomp=[ok %s]' % (
                    sb['source'],
                    ','.join('%s<%s.%s' % (k, v[0], v[1])
                             for k, v in sorted(sb['assigns'].items())) or '_',
                    ','.join(members) or '_', ','.join(po) or '_'))
                sb['loop_classes'] = loops
            txt.append(s + ' '.join(ss))
        res['impl_canon'].append(' | '.join(txt))
    decl = ','.join('%s:%s' % (k, v.replace(' ', '~'))
                    for k, v in sorted(P['decl'].items())) or '_'
    scr = sorted([(x, n) for x, n in P['vec'].items()] +
                 [(x, 0) for x in P['scal']])
    res['impl_decl'] = 'decl ' + decl
    res['impl_scratch'] = 'scratch ' + (','.join('%s:%d' % e for e in scr) or '_')
    # ---- property oracle on the generated source (independent of the model)
    doc = documented_statements(os.environ.get('PYSPH_VERIF_SCRATCH_REPO', '/repo'))
    by = {pa.name: pa for pa in pas}

    def ctype_of(arr, prop):
        pa = by[arr]
        if prop in pa.properties or prop in pa.constants:
            return pa.get_carray(prop).get_c_type() + '*'
        return None
    for gi, blocks in enumerate(P['groups']):
        for db in blocks:
            dname = db['dest']

            def check_call(var, m, args, sb):
                e = var2eq.get(var)
                if e is None:
                    res['fail'].append(('C02:equation-init', 'call of unknown equation object %s' % var, ''))
                    return
                if e.dest != dname:
                    res['fail'].append(('C02:pointer-wiring', '%s.%s runs for destination %s' % (var, m, e.dest), 'dst = self.%s' % dname))
                want = method_args(e, m)
                if m != 'reduce' and want is not None:
                    w2 = ['self.kernel' if a == 'SPH_KERNEL' else a for a in want]
                    if w2 != args:
                        res['fail'].append(('C02:call-arguments', '%s.%s(%s)' % (var, m, ', '.join(w2)), ', '.join(args)))
                for a in args:
                    if a.startswith('d_') and a != 'd_idx':
                        got = db['assigns'].get(a)
                        if got != ('dst', a[2:]):
                            res['fail'].append(('C02:pointer-wiring', '%s = dst.%s.data before %s.%s of destination %s' % (a, a[2:], var, m, dname), repr(got)))
                        ct = ctype_of(dname, a[2:])
                        if ct is not None and P['decl'].get(a) != ct:
                            res['fail'].append(('C02:pointer-type', 'cdef %s %s' % (ct, a), repr(P['decl'].get(a))))
                    if a.startswith('s_') and a != 's_idx':
                        if sb is None:
                            continue   # outside the documented subset
                        got = sb['assigns'].get(a)
                        if got != ('src', a[2:]):
                            res['fail'].append(('C02:pointer-wiring', '%s = src.%s.data before %s.%s of source %s' % (a, a[2:], var, m, sb['source']), repr(got)))
                        ct = ctype_of(sb['source'], a[2:])
                        if ct is not None and P['decl'].get(a) != ct:
                            res['fail'].append(('C02:pointer-type', 'cdef %s %s' % (ct, a), repr(P['decl'].get(a))))
                    if a in ALL_SYMS and m == 'loop' and sb is not None:
                        if a not in pre_order(sb['pre']):
                            res['fail'].append(('C02:precomputed-missing', '%s computed before %s.loop' % (a, var), ' ; '.join(sb['pre'])))
                if sb is not None and (e.sources is None or sb['source'] not in e.sources):
                    res['fail'].append(('C02:pointer-wiring', '%s.%s runs only for its sources %s' % (var, m, e.sources), 'src = self.%s' % sb['source']))
            for var, m, args in db['calls']:
                check_call(var, m, args, None)
            for sb in db['srcs']:
                for var, m, args in sb['calls']:
                    check_call(var, m, args, sb)
                # the precomputed preamble: documented formula, after its inputs
                done = []
                bysym = {}
                for t in sb['pre']:
                    tg = stmt_target(t)
                    bysym.setdefault(tg, []).append(t.replace(' ', ''))
                for t in sb['pre']:
                    tg = stmt_target(t)
                    rhs_names = set(re.findall(r'[A-Za-z_]\w*', t)) - {tg}
                    for n in rhs_names:
                        if n in ALL_SYMS and n not in done:
                            res['fail'].append(('C02:precomputed-order', '%s is computed before %s' % (n, tg), ' ; '.join(sb['pre'])))
                    for n in rhs_names:
                        if n.startswith('d_') and n != 'd_idx' and db['assigns'].get(n) != ('dst', n[2:]):
                            res['fail'].append(('C02:pointer-wiring', '%s = dst.%s.data before the formula of %s' % (n, n[2:], tg), repr(db['assigns'].get(n))))
                        if n.startswith('s_') and n != 's_idx' and sb['assigns'].get(n) != ('src', n[2:]):
                            res['fail'].append(('C02:pointer-wiring', '%s = src.%s.data before the formula of %s' % (n, n[2:], tg), repr(sb['assigns'].get(n))))
                    if tg not in done:
                        done.append(tg)
                for tg, got in bysym.items():
                    if doc.get(tg) != got:
                        res['fail'].append(('C02:precomputed-formula:%s' % tg, ' ; '.join(doc.get(tg) or ['<undocumented>']), ' ; '.join(got)))
                    if tg in P['vec']:
                        vs = sb['vecsetup'].get(tg)
                        if vs != (tg, P['vec'][tg]) or P['vec'][tg] != 3:
                            res['fail'].append(('C02:scratch-vector', '%s = &_%s.data[thread_id*aligned(3, 8)] in the block of source %s' % (tg, tg, sb['source']), repr(vs)))
                    elif tg not in P['scal']:
                        res['fail'].append(('C02:scratch-vector', 'declaration of %s' % tg, 'none'))
    # equation objects are rebuilt from the instance __dict__ of the right one
    for var, (cls, idx) in P['init'].items():
        e = all_eqs[idx] if idx < len(all_eqs) else None
        if e is None or e.__class__.__name__ != cls or e.var_name != var:
            res['fail'].append(('C02:equation-init', 'self.%s = %s(**equations[i].__dict__) with equations[i] that equation' % (var, cls), 'index %d' % idx))
    if sorted(P['init']) != sorted(getattr(e, 'var_name', '?') for e in all_eqs):
        res['fail'].append(('C02:equation-init', 'one self.<var> = <Class>(**equations[i].__dict__) per equation: %s'
                            % sorted(getattr(e, 'var_name', '?') for e in all_eqs), repr(sorted(P['init']))))
    # ---- destination loop limits (start_idx / stop_idx / real) --------------
    # model input: the options of each group of equations and its destinations
    res['ng'] = len(groups)
    res['impl_limits'] = []
    for gi, g in enumerate(groups):
        dests = []
        for e in g.equations:
            if e.dest not in dests:
                dests.append(e.dest)

        def opt(v):
            return 'r:%s' % v if isinstance(v, str) else 'n:%d' % v
        res['lines'].append('limits real=%d start=%s stop=%s dests=%s' % (
            bool(g.real), opt(g.start_idx),
            'all' if g.stop_idx is None else opt(g.stop_idx), ','.join(dests)))
        blocks = P['groups'][gi] if gi < len(P['groups']) else []
        canon = []
        for db in blocks:
            lim = {}
            for nm, text, _ in db['lims']:
                lim.setdefault(nm, []).append(limit_canon(text))
            canon.append('%s:%s..%s' % (db['dest'], '+'.join(lim.get('D_START_IDX', ['none'])),
                                        '+'.join(lim.get('NP_DEST', ['none']))))
            # property oracle (independent of the model): whatever text is
            # emitted, evaluated on the real arrays it must make every loop of
            # this destination run over the documented range(start, stop)
            want = documented_range(g, by[db['dest']]) if db['dest'] in by else None
            what = ('group %d (start_idx=%r, stop_idx=%r, real=%s), destination %s: every method runs for '
                    'd_idx in %r' % (gi, g.start_idx, g.stop_idx, g.real, db['dest'], want))
            obs = None
            if sorted(nm for nm, _, _ in db['lims']) != ['D_START_IDX', 'NP_DEST'] or \
                    any(k for _, _, k in db['lims']):
                obs = 'limits assigned %s' % ['%s = %s (after %d loops)' % x for x in db['lims']]
            else:
                badl = [x for x in db['loops']
                        if not re.fullmatch(r'range\(D_START_IDX, NP_DEST(, 1)?\)', x)]
                a = limit_value(lim['D_START_IDX'][0], by)
                b = limit_value(lim['NP_DEST'][0], by)
                if badl:
                    obs = 'loop over %s' % badl[0]
                elif a is None or b is None:
                    obs = 'D_START_IDX = %s ; NP_DEST = %s (not a form the documentation describes)' % (
                        db['lims'][0][1], db['lims'][1][1])
                elif want is None or list(range(a, b)) != list(want):
                    obs = 'D_START_IDX = %s ; NP_DEST = %s, i.e. range(%d, %d) on these arrays' % (
                        [t for n_, t, _ in db['lims'] if n_ == 'D_START_IDX'][0],
                        [t for n_, t, _ in db['lims'] if n_ == 'NP_DEST'][0], a, b)
            if obs is not None:
                res['fail'].append(('C02:destination-range', what, obs))
        res['impl_limits'].append(' '.join(canon))
    # ---- attribute declarations of the wrapper classes -----------------------
    by_cls = {}
    for e in all_eqs:
        by_cls.setdefault(e.__class__.__name__, []).append(e)
    res['lines'].append('wrappers ' + ' '.join(
        'I cls=%s attrs=%s' % (e.__class__.__name__, ';'.join(
            '%s:%s' % (a, py_tag(v)) for a, v in sorted(e.__dict__.items())) or '_')
        for e in all_eqs))
    W = parse_wrappers(code, set(by_cls))
    res['impl_wrappers'] = '|'.join(
        '%s{%s}' % (c, ';'.join('%s:%s' % (a, t.replace(' ', '~'))
                                for a, t in sorted(W[c]['attrs'].items())))
        for c in sorted(W)) or '_'
    res['flagged_instances_differ'] = False
    for cls, insts in sorted(by_cls.items()):
        w = W.get(cls)
        if w is None or w['count'] != 1:
            res['fail'].append(('C02:equation-wrapper', 'one cdef class %s' % cls,
                                '%d' % (0 if w is None else w['count'])))
            continue
        for e in insts:
            k = next(i for i, x in enumerate(all_eqs) if x is e)
            for a, v in sorted(e.__dict__.items()):
                tag = py_tag(v)
                ty = w['attrs'].get(a)
                if ty is None:
                    res['fail'].append(('C02:attribute-declaration', 'class %s declares the attribute %s of equations[%d]' % (cls, a, k), 'not declared'))
                elif (tag in ('bool', 'int', 'float') and not c_holds(ty, tag)) or \
                        (tag == 'str' and ty != 'str'):
                    differ = len({py_tag(x.__dict__.get(a)) for x in insts}) > 1
                    res['flagged_instances_differ'] = res['flagged_instances_differ'] or differ
                    res['fail'].append((
                        'C02:instances-differ-in-attribute-type' if differ else 'C02:attribute-declaration',
                        'class %s: attribute %s declared with a C type that holds %r, the value it has in '
                        'equations[%d] (%s; the object is re-created as %s(**equations[%d].__dict__))'
                        % (cls, a, v, k, e.var_name, cls, k),
                        'cdef public %s %s%s' % (ty, a, ' -- the instances of %s carry %s' % (
                            cls, [x.__dict__.get(a) for x in insts]) if differ else '')))
            for m in ARG_METHODS:
                want = method_args(e, m)
                if want is None:
                    continue
                got = w['methods'].get(m)
                if got != want:
                    res['fail'].append(('C02:wrapper-method', 'class %s has the method %s(%s) of the Python class' % (cls, m, ', '.join(want)),
                                        'none' if got is None else '%s(%s)' % (m, ', '.join(got))))
    # ---- iterated groups -------------------------------------------------------
    # model input: per iterated top-level group its equations (var_name, whether
    # `converged` is in the __dict__ of the object's own class); extra driver
    # lines, after the fixed ones
    its, nwhile = parse_iterations(code)
    res['extra'] = []
    by_at = {}
    for it in its:
        by_at.setdefault(it['at'], []).append(it)
    if nwhile != len(its):
        res['fail'].append(('C02:iterated-group:break-test', 'every `while True:` of compute belongs to one '
                            'iteration loop of the documented form', '%d `while True:` lines, %d loops' % (nwhile, len(its))))
    for i, g in enumerate(top_groups):
        subs = list(g.equations) if g.has_subgroups else [g]
        eqs_g = [e for sg in subs for e in sg.equations]
        mine_it = by_at.get(i, [])
        if not g.iterate:
            if mine_it:
                res['fail'].append(('C02:iterated-group:break-test', 'group %d (iterate=False) runs once' % i,
                                    'an iteration loop: %r' % mine_it))
            continue
        # property oracle (independent of the model): Group docstring -- the
        # group is repeated "until each equation's converged() ... returns with a
        # positive value", at least min_iterations, at most max_iterations times:
        # the break test asks EVERY equation object of the group, each once,
        # combined by `&` only, with the limits the user gave
        want_vars = sorted(e.var_name for e in eqs_g)
        what = ('group %d (iterate=True, min_iterations=%d, max_iterations=%d): one loop around the group '
                'whose break test asks every equation of the group: %s' % (
                    i, g.min_iterations, g.max_iterations,
                    ' & '.join('(self.%s.converged() > 0)' % v for v in want_vars)))
        if len(mine_it) != 1 or mine_it[0]['spans']:
            res['fail'].append(('C02:iterated-group:break-test', what, 'loops found in the text of the group: %r' % mine_it))
            continue
        it = mine_it[0]
        got_vars = re.findall(r'self\.(\w+)\.converged\(\)', it['cond'])
        plain = ' & '.join('(self.%s.converged() > 0)' % v for v in got_vars)
        if sorted(got_vars) != want_vars or it['cond'] != plain or \
                (it['min'], it['max']) != (g.min_iterations, g.max_iterations):
            missing = [('%s (%s%s)' % (e.var_name, type(e).__name__, '' if 'converged' in type(e).__dict__
                                       else ', converged() inherited from %s' % next(
                                           c.__name__ for c in type(e).__mro__ if 'converged' in c.__dict__)))
                       for e in eqs_g if e.var_name not in got_vars]
            res['fail'].append(('C02:iterated-group:break-test', what,
                                'min_iterations = %d ; max_iterations = %d ; break test factor: %s%s' % (
                                    it['min'], it['max'], it['cond'],
                                    ' -- not asked: %s' % ', '.join(missing) if missing else '')))
        res['lines'].append('iter kind=%s eqs=%s' % (
            'parent' if g.has_subgroups else 'leaf',
            ';'.join(','.join('%s:%d' % (e.var_name, 'converged' in type(e).__dict__)
                              for e in sg.equations) or '_' for sg in subs)))
        res['extra'].append(('break test of iterated group %d' % i,
                             'polled=%s cond=%s' % (','.join(got_vars) or '_', it['cond'].replace(' ', '~'))))
    # one finding is reported once per class of input
    seen_f = set()
    res['fail'] = [f for f in res['fail'] if not (f in seen_f or seen_f.add(f))]
    res['objs'] = (pas, top_groups, kernel, ae, helper, code)
    return res


# ===========================================================================
# worker: one program

def ulp_close(a, b, tol):
    a = np.asarray(a, dtype=float)
    b = np.asarray(b, dtype=float)
    if a.shape != b.shape:
        return False, 'shape'
    nan = np.isnan(a) & np.isnan(b)
    # Where the pure-Python reference itself is not finite the random data was
    # outside what the equation admits (numpy gives nan for a negative base to
    # a fractional power, C's pow may not be called with the same operands
    # after earlier nan-dependent branches): nothing is demanded there.
    same = (a == b) | nan | ~np.isfinite(b)
    if same.all():
        return True, 'exact'
    if tol == 0.0:
        i = int(np.argmin(same))
        return False, 'index %d: compiled %r python %r' % (i, a[i], b[i])
    with np.errstate(all='ignore'):
        fin = np.isfinite(b[~np.isnan(b)])
        scale = max(1.0, float(np.max(np.abs(b[np.isfinite(b)])))
                    if np.isfinite(b).any() else 1.0)
        bad = ~same & ~(np.abs(a - b) <= tol * np.maximum(np.abs(b), scale))
    if bad.any():
        i = int(np.argmax(bad))
        return False, 'index %d: compiled %r python %r' % (i, a[i], b[i])
    return True, 'close'


def run_program(arg):
    spec, work, mode = arg
    t0 = time.time()
    out = {'spec': spec, 'ok': True, 'fail': [], 'lines': [], 'err': None,
           'diff': None, 'exact': None, 'time': 0.0}
    try:
        A = analyse_program(spec, work, want_code=(mode == 'codetext'))
        out['lines'] = A['lines']
        out['ng'] = A['ng']
        out['impl_canon'] = A['impl_canon']
        out['impl_decl'] = A['impl_decl']
        out['impl_scratch'] = A['impl_scratch']
        out['impl_sites'] = A['impl_sites']
        out['impl_limits'] = A['impl_limits']
        out['impl_wrappers'] = A['impl_wrappers']
        out['fail'] = A['fail']
        out['extra'] = A['extra']
        if mode == 'codetext':
            out['code'] = A['code']
        out['nsyms'] = sorted({t for g in A['parse']['groups'] for db in g
                               for sb in db['srcs'] for t in pre_order(sb['pre'])})
        if not spec.get('compile') or mode in ('codeonly', 'codetext'):
            out['time'] = time.time() - t0
            return out
        pas, groups, kernel, ae, helper, code = A['objs']
        from pysph.sph.sph_compiler import SPHCompiler
        from pysph.base.nnps import LinkedListNNPS
        from cyarray.carray import UIntArray
        comp = SPHCompiler(ae, None)
        comp.compile()
        nnps = LinkedListNNPS(dim=spec['dim'], particles=pas, radius_scale=kernel.radius_scale)
        nnps.update()
        ae.set_nnps(nnps)
        # the reference: fresh arrays, fresh equation objects, Python kernel
        modules = {}
        if spec.get('mod'):
            modules['gen'] = import_generated(spec['mod'], work)
        pas_p = build_arrays(spec)
        groups_p = build_equations(spec, modules, pas_p)
        idx = {pa.name: i for i, pa in enumerate(pas)}
        nb = UIntArray()
        # "over the same neighbours": the same NNPS class over the reference
        # arrays, queried at the same logical time (an equation may change h)
        nnps_p = LinkedListNNPS(dim=spec['dim'], particles=pas_p,
                                radius_scale=kernel.radius_scale)
        nnps_p.update()

        def neighbours(sname, dname, di):
            nnps_p.set_context(idx[sname], idx[dname])
            nnps_p.get_nearest_particles(idx[sname], idx[dname], di, nb)
            return nb.get_npy_array().copy()
        for _, g in leaf_groups(groups_p):
            for e in g.equations:
                m = sys.modules[e.__class__.__module__]
                if not hasattr(m, 'declare') and 'declare(' in inspect.getsource(m):
                    # the module uses declare() without importing it: the
                    # method is not executable as Python as it stands
                    from compyle.api import declare as _decl
                    m.declare = _decl
                    out.setdefault('notes', []).append(
                        '%s calls declare() without importing it' % m.__name__)
        sweep_trace = []
        try:
            ae.compute(spec['t'], spec['dt'])
        except Exception as e:   # noqa
            # the compiled evaluation itself raised (e.g. the generated code
            # called a callable of a group that has none)
            out['fail'].append(('C02:compute-raises',
                                'AccelerationEval.compute(t, dt) returns, leaving the values of '
                                'the Python execution',
                                '%s: %s | %s' % (type(e).__name__, e, ' <- '.join(
                                    traceback.format_exc().strip().split('\n')[-4:-1]))))
            out['time'] = time.time() - t0
            return out
        try:
            with np.errstate(all='ignore'):
                py_execute(pas_p, groups_p, get_kernel(spec), neighbours,
                           spec['t'], spec['dt'], sweep_trace)
        except NameError as e:
            # the method body names something its module never imports (it
            # only exists in the generated Cython): not executable as Python
            out['unexecutable'] = '%s' % e
            out.setdefault('notes', []).append(
                'not executable as Python (%s): %s' % (e, spec.get('label')))
            out['time'] = time.time() - t0
            return out
        except (ZeroDivisionError, OverflowError, ValueError) as e:
            # CPython raises where C yields inf/nan: the data is outside what
            # the equation admits
            out['inadmissible'] = '%s: %s' % (type(e).__name__, e)
            out['time'] = time.time() - t0
            return out
        tol = spec.get('tol', 0.0)
        exact_all = True
        nn = 0
        for pc, pp in zip(pas, pas_p):
            for coll in ('properties', 'constants'):
                for n in getattr(pc, coll):
                    a = pc.get_carray(n).get_npy_array()
                    b = pp.get_carray(n).get_npy_array()
                    ok, why = ulp_close(a, b, tol)
                    if why != 'exact':
                        exact_all = False
                    if not ok:
                        out['fail'].append((
                            # (a value lost by an attribute declaration the
                            # analysis of the source flagged is that finding)
                            'C02:instances-differ-in-attribute-type'
                            if A['flagged_instances_differ'] else
                            'C02:values:%s' % spec.get('label', 'program'),
                            'array %s property %s equal to the Python execution '
                            '(tolerance %g)' % (pc.name, n, tol), why))
        for pa in pas:
            for di in range(min(3, pa.get_number_of_particles())):
                nn += len(neighbours(pa.name, pa.name, di))
        # ---- the history: further calls on the SAME evaluator ---------------
        # The statement is about what a compute() leaves in the arrays the
        # evaluator is evaluating: after update_particle_arrays(new arrays) those
        # are the NEW arrays -- every property and constant of them equals the
        # Python execution of the same (stateful) equation objects on the new
        # arrays, and the arrays of before hold what the Python execution
        # leaves in them (nothing changes there, except through the user's own
        # pre / post callables which keep acting on the arrays they were
        # written for).
        cur, cur_p = pas, pas_p
        retired = []
        sets = [pas]

        def observe_binding():
            """per array name: [(attribute, index of the array set whose carray
            the wrapper attribute IS)] for every property and constant"""
            obs = {}
            for j, pa in enumerate(sets[-1]):
                w = getattr(ae.c_acceleration_eval, pa.name)
                rows = []
                for n in sorted(pa.properties.keys()) + sorted(pa.constants.keys()):
                    held = getattr(w, n, None)
                    k_ = next((i for i, ss in enumerate(sets)
                               if held is ss[j].get_carray(n)), None)
                    rows.append((n, k_))
                obs[pa.name] = rows
            return obs
        for k, st in enumerate(spec.get('history') or []):
            where = 'history step %d (%s)' % (k + 1, json.dumps(st, sort_keys=True))
            if st['op'] == 'rebind':
                spec2 = dict(spec, data_seed=st['data_seed'])
                new, new_p = build_arrays(spec2), build_arrays(spec2)
                retired.append((cur, cur_p))
                try:
                    ae.update_particle_arrays(new)
                    nnps = LinkedListNNPS(dim=spec['dim'], particles=new,
                                          radius_scale=kernel.radius_scale)
                    nnps.update()
                    ae.set_nnps(nnps)
                except Exception as e:   # noqa
                    out['fail'].append(('C02:history:raises', where + ': update_particle_arrays / set_nnps '
                                        'accept arrays with the same properties', '%s: %s' % (type(e).__name__, e)))
                    break
                cur, cur_p = new, new_p
                sets.append(new)
                nnps_p = LinkedListNNPS(dim=spec['dim'], particles=cur_p,
                                        radius_scale=kernel.radius_scale)
                nnps_p.update()
                # the generated compute takes its pointers from the wrapper
                # attributes: each property AND constant must be the carray of
                # the array just passed
                stale = ['%s.%s -> %s' % (an, n, 'nothing' if k_ is None else
                                          'array set %d' % k_)
                         for an, rows in sorted(observe_binding().items())
                         for n, k_ in rows if k_ != len(sets) - 1]
                if stale:
                    out['fail'].append((
                        'C02:history:rebind:binding',
                        where + ': every property and constant attribute of the array wrappers holds the '
                        'carray of the array passed to update_particle_arrays (array set %d)' % (len(sets) - 1),
                        ', '.join(stale[:8])))
            try:
                ae.compute(st['t'], spec['dt'])
            except Exception as e:   # noqa
                out['fail'].append(('C02:history:raises', where + ': compute(t, dt) returns',
                                    '%s: %s' % (type(e).__name__, e)))
                break
            try:
                with np.errstate(all='ignore'):
                    py_execute(cur_p, groups_p, get_kernel(spec), neighbours, st['t'], spec['dt'],
                               sweep_trace)
            except (ZeroDivisionError, OverflowError, ValueError) as e:
                out['inadmissible'] = '%s: %s' % (type(e).__name__, e)
                break
            nbad = len(out['fail'])
            for role, pairs in (('evaluated', [(cur, cur_p)]), ('replaced', retired)):
                for pcs, pps in pairs:
                    for pc, pp in zip(pcs, pps):
                        for coll in ('properties', 'constants'):
                            for n in getattr(pc, coll):
                                ok, why = ulp_close(pc.get_carray(n).get_npy_array(),
                                                    pp.get_carray(n).get_npy_array(), tol)
                                if why != 'exact':
                                    exact_all = False
                                if not ok:
                                    out['fail'].append((
                                        'C02:history:%s:%s-arrays:%s' % (
                                            st['op'], role, coll),
                                        '%s: %s %s of the %s %s equal to the Python execution of '
                                        'the same history (tolerance %g)' % (
                                            where, coll[:-1].replace('ie', 'y'), n,
                                            'array being evaluated,' if role == 'evaluated' else
                                            'array replaced by update_particle_arrays,',
                                            pc.name, tol), why))
            out['history_steps'] = k + 1
            if len(out['fail']) > nbad:
                break
        out['exact'] = exact_all
        out['nbrs_sampled'] = nn
        # model ties of the history: the wrapper binding after the last step,
        # the sweeps of the documented loop on the observed convergence bits
        if len(sets) > 1:
            ob = observe_binding()
            for j, pa in enumerate(sets[-1]):
                out['lines'].append('binding names=%s %s' % (
                    ','.join(n for n, _ in ob[pa.name]),
                    ' '.join('A id=%d props=%s consts=%s' % (
                        i, ','.join(sorted(ss[j].properties.keys())) or '_',
                        ','.join(sorted(ss[j].constants.keys())) or '_')
                        for i, ss in enumerate(sets))))
                out['extra'].append(('wrapper binding after update_particle_arrays of array %s' % pa.name,
                                     ','.join('%s:%s' % (n, '-' if k_ is None else k_)
                                              for n, k_ in ob[pa.name])))
        for mn_, mx_, bits, cnt in sweep_trace[:8]:
            if mx_ >= 1 and 0 <= mn_ <= mx_:
                out['lines'].append('sweeps min=%d max=%d conv=%s' % (
                    mn_, mx_, ''.join('1' if b else '0' for b in bits) or '_'))
                out['extra'].append(('sweeps of the documented loop', '%d' % cnt))
    except BaseException as e:   # noqa  (compyle exits on a compile error)
        out['ok'] = False
        out['err'] = '%s: %s\n%s' % (type(e).__name__, e,
                                     traceback.format_exc()[-1500:])
    out['time'] = time.time() - t0
    return out


# ===========================================================================
# program generators

KERNELS = {1: ['CubicSpline', 'WendlandQuinticC2_1D', 'Gaussian', 'QuinticSpline',
               'WendlandQuinticC4_1D', 'WendlandQuinticC6_1D', 'SuperGaussian'],
           2: ['CubicSpline', 'WendlandQuintic', 'Gaussian', 'QuinticSpline',
               'SuperGaussian', 'WendlandQuinticC4', 'WendlandQuinticC6'],
           3: ['CubicSpline', 'WendlandQuintic', 'Gaussian', 'QuinticSpline',
               'SuperGaussian', 'WendlandQuinticC4', 'WendlandQuinticC6']}


def full_props():
    props = {p: {'type': 'double'} for p in DOUBLE_PROPS}
    props['ic'] = {'type': 'int'}
    props['A3'] = {'type': 'double', 'stride': 3}
    return props


CB_PROPS = ['m', 'rho', 'p', 'q0', 'q1', 'au', 'u']     # never x, y, z, h
GROUP_LABELS = ['correction', 'sweep', 'density', 'stage', 'outer']


def gen_callback(rng, names):
    cb = {'arr': rng.choice(names), 'prop': rng.choice(CB_PROPS)}
    if rng.random() < 0.5:
        cb['mul'] = rng.choice([2.0, 0.5, 10.0, -1.0])
    else:
        cb['add'] = rng.choice([1.0, -0.5, 3.0])
    return cb


def gen_condition(rng, t, outcome=None):
    """a condition on t with the wanted outcome at time t (None: either)"""
    v = rng.choice([0.1, 0.2, 1.0, 2.0])
    op = rng.choice(['lt', 'ge'])
    if outcome is not None and ((t < v) if op == 'lt' else (t >= v)) != outcome:
        op = 'ge' if op == 'lt' else 'lt'
    return {op: v}


def decorate_groups(rng, groups, names, t, mode=None):
    """group-level features of a list of groups of equations: one level of
    sub-groups, condition / pre / post callables, explicit `name=` labels --
    unique, or the SAME label on two or more groups (top-level and/or
    sub-groups, same or different parents); namesakes get callables of their
    own, two of them conditions of DIFFERENT outcome at this t"""
    mode = mode or rng.choice(['plain', 'plain', 'callables', 'unique-names',
                               'shared-names', 'shared-names'])
    if mode == 'plain':
        return groups, mode
    tops, i = [], 0
    while i < len(groups):
        if rng.random() < 0.4:
            k = rng.choice([1, 2, 2, 3])
            tops.append({'subs': groups[i:i + k]})
            i += k
        else:
            tops.append(groups[i])
            i += 1
    nodes = [g for _, g in spec_nodes({'groups': tops})]
    for g in nodes:
        if rng.random() < 0.35:
            g['cond'] = gen_condition(rng, t, rng.random() < 0.7)
        for k in ('pre', 'post'):
            if rng.random() < 0.35:
                g[k] = gen_callback(rng, names)
    if mode == 'unique-names':
        for k, g in enumerate(nodes):
            if rng.random() < 0.7:
                g['name'] = '%s_%d' % (rng.choice(GROUP_LABELS), k)
    elif mode == 'shared-names' and len(nodes) >= 2:
        labels = rng.sample(GROUP_LABELS, 2)
        pool = list(nodes)
        rng.shuffle(pool)
        n1 = rng.choice([2, 2, 3, len(pool)])
        classes = [(labels[0], pool[:n1])]
        rest = pool[n1:]
        if len(rest) >= 2 and rng.random() < 0.5:
            classes.append((labels[1], rest))
        for label, members in classes:
            for g in members:
                g['name'] = label
                for k in ('pre', 'post'):
                    if k not in g and rng.random() < 0.5:
                        g[k] = gen_callback(rng, names)
            # two namesakes with conditions of different outcome; a False one
            # on a group that holds equations, so that running it shows
            lo, hi = rng.sample(members, 2)
            lo['cond'] = gen_condition(rng, t, False)
            hi['cond'] = gen_condition(rng, t, True)
    return tops, mode


GROUP_MODES = ['plain', 'plain', 'callables', 'unique-names', 'shared-names', 'shared-names']
LIMIT_CONSTS = ('nlo', 'nhi')       # integer constants a limit may name
LIMIT_PROPS = ('plo', 'phi')        # integer properties a limit may name


def leaf_specs(groups):
    out = []
    for g in groups:
        out += g['subs'] if 'subs' in g else [g]
    return out


def gen_limit_values(rng, arrays, dim):
    """per array: the first values of the constants / properties a limit may
    name -- boundary values of THAT array (they differ between the arrays)"""
    for a in arrays:
        tot, real = array_sizes(a, dim)
        lo = [0, 0, 1, real // 3]
        hi = [0, 0, real, max(real - 1, 0), tot, real // 2, 1]
        a['iconsts'] = {'nlo': rng.choice(lo), 'nhi': rng.choice(hi)}
        a['ifirst'] = {'plo': rng.choice(lo), 'phi': rng.choice(hi)}


def gen_limits(rng, g, arrays, dim, p=0.45, force=False):
    """Group(start_idx=, stop_idx=) of one group of equations: None, integers
    around the boundaries (0, 1, n_real - 1, n_real, n, start == stop,
    stop < start) or the name of a constant / property; always within the
    smallest destination"""
    g.pop('start', None)
    g.pop('stop', None)
    if not force and rng.random() >= p:
        return
    sizes = {a['name']: array_sizes(a, dim) for a in arrays}
    dests = {e['dest'] for e in g['eqs']}
    tot = min(sizes[d][0] for d in dests)
    real = min(sizes[d][1] for d in dests)
    start = rng.choice([0, 0, 0, 1, real // 2, real, tot, 'nlo', 'plo'])
    stops = [None, None, 0, 0, 1, real, max(real - 1, 0), tot, real // 2, 'nhi', 'phi']
    if isinstance(start, int):
        stops += [start, max(start - 1, 0), min(start + 1, tot)]
    stop = rng.choice(stops)
    if force and start == 0 and stop is None:
        stop = rng.choice([0, real // 2, 'nhi'])
    if start != 0 or rng.random() < 0.3:
        g['start'] = start
    if stop is not None or rng.random() < 0.2:
        g['stop'] = stop


def gen_groups(rng, gen, names, arrays, dim, t, groups_mode=None, mixed=False):
    """groups of instances of the generated classes: wiring, attribute values,
    group-level features and loop limits"""
    groups_mode = groups_mode or rng.choice(GROUP_MODES)
    narr = len(names)
    groups = []
    ngroups = rng.choice([1, 1, 2]) if groups_mode == 'plain' else rng.choice([2, 3, 3, 4])
    for _ in range(ngroups):
        eqs = []
        for _ in range(rng.choice([1, 2, 3, 3] if groups_mode == 'plain' else [1, 1, 2])):
            cn = rng.choice(gen['names'])
            dest = rng.choice(names)
            srcs = rng.sample(names, rng.randrange(1, narr + 1))
            eqs.append({'cls': 'gen:' + cn, 'dest': dest, 'sources': srcs,
                        'kw': inst_kw(rng, gen['types'][cn], mixed)})
        groups.append({'real': rng.random() < 0.7, 'eqs': eqs})
    groups, groups_mode = decorate_groups(rng, groups, names, t, groups_mode)
    for g in leaf_specs(groups):
        gen_limits(rng, g, arrays, dim)
    if gen.get('conv') or gen.get('inherit'):
        gen_iterations(rng, groups, gen)
    return groups, groups_mode


def class_bases(src):
    """{class: base class} of a generated module"""
    return dict(re.findall(r'^class (\w+)\((\w+)\):', src or '', re.M))


def converged_kind(bases, conv_class, c):
    """where the converged() of class c comes from: 'own' (its class body),
    'inherited' (a base equation class of the module), 'default' (Equation)"""
    if conv_class is None:
        return 'default'
    if c == conv_class:
        return 'own'
    b = bases.get(c)
    while b is not None and b != 'Equation':
        if b == conv_class:
            return 'inherited'
        b = bases.get(b)
    return 'default'


def gen_iterations(rng, groups, gen):
    """Group(iterate=True, min_iterations=, max_iterations=) on top-level groups
    (groups of equations and parents of sub-groups): the number of sweeps is
    decided by the equations' converged() -- defined in the class itself, or
    INHERITED from a base equation class, or the default of Equation -- within
    [min_iterations, max_iterations]: convergence before, at and after either
    bound occurs (`nmax` of the destination is 1..4).  The group's own pre /
    post stay: equations.rst, "If the group is iterated, it should call those
    functions repeatedly" -- they belong to every sweep."""
    picked = False
    kinds = {c: converged_kind(gen.get('bases', {}), gen['names'][0] if gen.get('conv') else None, c)
             for c in gen['names']}
    inh = [c for c in gen['names'] if kinds[c] == 'inherited']
    dflt = [c for c in gen['names'] if kinds[c] == 'default']
    leaves = [g for g in groups if 'eqs' in g]
    if inh and leaves and rng.random() < 0.75:
        # ONE equation decides the number of sweeps, and it is one that inherits
        # converged(): beside it only equations with the default converged()
        g = rng.choice(leaves)
        first = g['eqs'][0]
        first['cls'] = 'gen:' + rng.choice(inh)
        first['kw'] = inst_kw(rng, gen['types'][first['cls'].split(':')[1]])
        rest = []
        for e in g['eqs'][1:]:
            if dflt:
                e['cls'] = 'gen:' + rng.choice(dflt)
                e['kw'] = inst_kw(rng, gen['types'][e['cls'].split(':')[1]])
                rest.append(e)
        g['eqs'] = [first] + rest
        rng.shuffle(g['eqs'])
        g['iter'] = {'min': rng.choice([0, 1, 1, 2]), 'max': rng.choice([5, 6])}
        picked = True
    for g in groups:
        if 'iter' not in g and rng.random() < 0.5:
            lo = rng.choice([0, 1, 1, 2, 3])
            g['iter'] = {'min': lo, 'max': max(lo, rng.choice([1, 2, 3, 5, 6]))}
            picked = True
    if not picked:
        g = rng.choice(groups)
        g['iter'] = {'min': rng.choice([0, 1, 2]), 'max': rng.choice([3, 5, 6])}


def gen_program(rng, compile_=True, big=False, groups_mode=None, small=False,
                mixed=False, bias=None, hier=None):
    """a program of generated equation classes in the documented subset;
    `hier` = (inherit, conv): class hierarchies / convergence hooks and
    iterated groups (drawn when None)"""
    libm = rng.random() < (0.2 if small else 0.35)
    ks = rng.random() < (0.4 if small else 0.6)
    if hier is None:
        hier = rng.choice([(False, False), (False, False), (True, True),
                           (True, True), (True, False), (False, True)])
    inherit, conv = hier
    ncls = rng.choice([1, 2, 2] if small else [2, 3, 3, 4])
    if inherit:
        ncls = max(ncls, 2)
    tag = '%06x' % rng.randrange(1 << 24)
    src, cnames = gen_module(rng, ncls, libm, ks, tag, inherit, conv)
    gen = {'tag': tag, 'ncls': ncls, 'libm': libm, 'ks': ks, 'names': cnames,
           'inherit': inherit, 'conv': conv, 'bases': class_bases(src),
           'types': {c: gen_attr_types(rng, bias) for c in cnames}}
    dim = rng.choice([1, 2, 2, 3])
    narr = rng.choice([1, 2, 2, 3 if big else 2])
    names = ['fluid', 'solid', 'wall'][:narr]
    n = {1: 14, 2: 30, 3: 40}[dim]
    arrays = [{'name': nm, 'n': n + rng.randrange(0, 8), 'props': full_props(),
               'consts': {'c0': 1, 'cv': 3},
               'cdraw': {'nmax': [1.0, 2.0, 3.0, 4.0]}, 'czero': {'nsw': 1, 'cacc': 2},
               'nghost': rng.choice([0, 0, 2, 4])} for nm in names]
    gen_limit_values(rng, arrays, dim)
    if small and groups_mode is None:
        groups_mode = rng.choice(['plain', 'plain', 'callables', 'shared-names'])
    t = rng.choice([0.0, 0.3, 1.5])
    groups, groups_mode = gen_groups(rng, gen, names, arrays, dim, t, groups_mode, mixed)
    spec = {'label': 'instances-differ-in-attribute-type' if mixed else
            'generated' + ('-libm' if libm else '-arith') + ('-kernel' if ks else ''),
            'groups_mode': groups_mode, 'gen': gen,
            'mod': src, 'arrays': arrays, 'groups': groups,
            'kernel': rng.choice(KERNELS[dim]), 'dim': dim,
            't': t, 'dt': rng.choice([0.01, 1e-4]),
            'data_seed': rng.randrange(1 << 30), 'compile': compile_,
            'tol': 1e-12 if (libm or ks) else 0.0}
    if compile_ and not mixed:
        spec['history'] = gen_history(rng, spec)
    return spec


def gen_history(rng, spec):
    """what happens to the evaluator AFTER its first compute(t, dt): further
    calls on the same object -- compute again (state kept by the equation
    objects and by the arrays), update_particle_arrays with NEW ParticleArray
    objects of the same names / properties / constants (other particle data,
    other values of the constants, other ghosts) followed by compute.  Every
    history has at least one re-binding."""
    other_t = [x for x in (0.0, 0.3, 1.5) if x != spec['t']]
    steps = []
    if rng.random() < 0.35:
        steps.append({'op': 'compute', 't': rng.choice(other_t + [spec['t']])})
    steps.append({'op': 'rebind', 'data_seed': rng.randrange(1 << 30),
                  't': rng.choice(other_t + [spec['t']] * 2)})
    if rng.random() < 0.25:
        steps.append({'op': 'rebind', 'data_seed': rng.randrange(1 << 30),
                      't': rng.choice(other_t)})
    return steps


# --- sessions: several evaluators, one after the other, in ONE process ----------
# Each member is a complete program.  A member is derived from its predecessor
# by a mutation that keeps every NAME a generator could key a memo by (class
# names, array names, property names, group names, kernel class) and changes
# what the generated code must depend on.

MUTATIONS = ('retype-attrs', 'redefine-classes', 'retype-arrays', 'rewire',
             'relimit', 'repeat')


def mutate(rng, spec, kind):
    s = copy.deepcopy(spec)
    gen = s['gen']
    names = [a['name'] for a in s['arrays']]
    if kind == 'retype-attrs':
        # the same classes, every attribute with ANOTHER Python type (the
        # direction int/bool -> float is the one in which a declaration made
        # for the predecessor loses information) and other values
        for c in gen['names']:
            old = gen['types'][c]
            gen['types'][c] = {
                a: ('float' if old[a] != 'float' and rng.random() < 0.7 else
                    rng.choice([x for x in ('float', 'int', 'bool') if x != old[a]]))
                for a in old}
        for g in leaf_specs(s['groups']):
            for e in g['eqs']:
                e['kw'] = inst_kw(rng, gen['types'][e['cls'].split(':')[1]])
    elif kind == 'redefine-classes':
        # the same class NAMES with other method bodies (an interactive
        # session, two scripts that both define `class Source`)
        s['mod'], _ = gen_module(random.Random(rng.randrange(1 << 30)), gen['ncls'],
                                 gen['libm'], gen['ks'], gen['tag'],
                                 gen.get('inherit', False), gen.get('conv', False))
        gen['bases'] = class_bases(s['mod'])
    elif kind == 'retype-arrays':
        # the same property names with another carray type
        old = s['arrays'][0]['props']['ic']['type']
        ty = rng.choice([x for x in ('int', 'long', 'double') if x != old])
        for a in s['arrays']:
            a['props']['ic'] = {'type': ty}
    elif kind == 'rewire':
        # the same classes in other groups: destinations, sources, real,
        # callables, names, limits; another kernel of the same dimension
        s['groups'], s['groups_mode'] = gen_groups(
            rng, gen, names, s['arrays'], s['dim'], s['t'],
            rng.choice(['plain', 'callables', 'shared-names']))
        s['kernel'] = rng.choice(KERNELS[s['dim']])
    elif kind == 'relimit':
        # the same groups with other start_idx / stop_idx (None <-> 0 <-> n <-> name)
        gen_limit_values(rng, s['arrays'], s['dim'])
        leaves = leaf_specs(s['groups'])
        forced = rng.randrange(len(leaves))
        for k, g in enumerate(leaves):
            gen_limits(rng, g, s['arrays'], s['dim'], p=0.6, force=(k == forced))
    elif kind == 'repeat':
        # the very same program on new particle data
        pass
    else:
        raise AssertionError(kind)
    s['data_seed'] = rng.randrange(1 << 30)
    s['mut'] = kind
    if s.get('history'):
        s['history'] = gen_history(rng, s)
    return s


def gen_session(rng, compile_, length, must=(), hier=None):
    """[program, mutation of it, mutation of that, ...]; `must`: mutation kinds
    that have to occur (the first members), the rest is drawn"""
    base = gen_program(rng, compile_=compile_, big=not compile_, small=compile_,
                       bias='narrow', hier=hier)
    base['mut'] = 'first'
    kinds = list(must) + [rng.choice(MUTATIONS) for _ in range(length)]
    members = [base]
    for kind in kinds[:max(length - 1, 0)]:
        members.append(mutate(rng, members[-1], kind))
    return members


_STRIDE_RE = re.compile(r'[ds]_idx\s*\*|\*\s*[ds]_idx|declare\(.matrix')


def shipped_ok(cls):
    """equations whose properties are all scalar per particle (a strided
    property would need its documented stride to be set up safely)"""
    try:
        src = inspect.getsource(cls)
    except (OSError, TypeError):
        return False
    return not re.search(r'[ds]_idx\s*\*|\*\s*[ds]_idx', src)


def shipped_program(rng, entries, dim=None, compile_=True):
    """a program of shipped equations (destination `fluid`, sources fluid+solid)"""
    dim = dim or rng.choice([1, 2, 3])
    names = ['fluid', 'solid']
    eqs = []
    libm = False
    for mod, cls, kw, lm in entries:
        kw = dict(kw)
        if 'dim' in kw:
            kw['dim'] = dim
        c = getattr(importlib.import_module(mod), cls)
        has_loop = any(hasattr(c, m) for m in ('loop', 'loop_all', 'initialize_pair'))
        eqs.append({'cls': '%s:%s' % (mod, cls), 'dest': 'fluid',
                    'sources': names if has_loop else None, 'kw': kw})
        libm = libm or lm
    tmp = build_equations({'groups': [{'eqs': eqs}]}, {})
    need = needed_props(tmp[0].equations)
    n = {1: 16, 2: 30, 3: 40}[dim]
    arrays = []
    for nm in names:
        props = {p: {'type': INT_PROPS.get(p, 'double')} for p in
                 sorted(need.get(nm, set()) | {'h', 'm', 'rho', 'u', 'v', 'w'})
                 if p not in ('tag', 'pid', 'gid')}
        arrays.append({'name': nm, 'n': n, 'props': props, 'consts': {},
                       'nghost': rng.choice([0, 3])})
    return {'label': 'shipped:' + '+'.join(e[1] for e in entries),
            'mod': None, 'arrays': arrays,
            'groups': [{'real': True, 'eqs': eqs}],
            'kernel': rng.choice(KERNELS[dim][:4]), 'dim': dim, 't': 0.2,
            'dt': 0.01, 'data_seed': rng.randrange(1 << 30),
            'compile': compile_, 'tol': 1e-12}


def distinct_names(entries):
    """the generated module has one class per class NAME: the classes of one
    evaluator have distinct names (several shipped modules define a
    `SummationDensity`; see ASSUMPTIONS)"""
    out, seen = [], set()
    for e in entries:
        if e[1] not in seen:
            seen.add(e[1])
            out.append(e)
    return out


def discover_shipped():
    """every Equation subclass defined under pysph.sph with scalar properties,
    with admissible constructor arguments (thorough tier)"""
    import pkgutil
    import pysph.sph as S
    table = {'rho0': 1.0, 'c0': 10.0, 'gamma': 1.4, 'alpha': 0.5, 'beta': 0.5,
             'nu': 0.01, 'dim': 2, 'hdx': 1.2, 'p0': 1.0, 'b': 1.0, 'eps': 0.3,
             'gx': 0.0, 'gy': -1.0, 'gz': 0.0, 'k': 1.2, 'n': 4, 'pb': 1.0,
             'rho_ref': 1.0, 'c_ref': 10.0, 'delta': 0.1, 'fx': 0.1, 'fy': 0.2,
             'fz': 0.3, 'mu': 0.01, 'sigma': 0.1, 'U': 1.0, 'V': 1.0}
    found = []
    skipped = {}
    for mi in pkgutil.walk_packages(S.__path__, 'pysph.sph.'):
        nm = mi.name
        if '.tests' in nm or 'gpu' in nm or 'opencl' in nm or 'cuda' in nm:
            continue
        try:
            mod = importlib.import_module(nm)
        except Exception as e:   # noqa
            skipped[nm] = 'import: %s' % type(e).__name__
            continue
        for cn, c in sorted(vars(mod).items()):
            if not (inspect.isclass(c) and issubclass(c, Equation) and
                    c is not Equation and c.__module__ == nm):
                continue
            if not shipped_ok(c):
                skipped['%s:%s' % (nm, cn)] = 'strided properties'
                continue
            if any(hasattr(c, m) for m in ('py_initialize', 'reduce', 'converged')
                   if getattr(c, m, None) is not getattr(Equation, m, None)):
                skipped['%s:%s' % (nm, cn)] = 'python-level hooks (C03)'
                continue
            try:
                sp = inspect.getfullargspec(c.__init__)
                args = sp.args[3:] if sp.args[:3] == ['self', 'dest', 'sources'] else None
                if args is None:
                    raise ValueError('constructor signature')
                defaults = dict(zip(reversed(sp.args), reversed(sp.defaults or ())))
                kw = {}
                for a in args:
                    if a in defaults and defaults[a] is not None:
                        continue
                    kw[a] = table.get(a, 0.5)
                c(dest='fluid', sources=['fluid'], **kw)
            except Exception as e:   # noqa
                skipped['%s:%s' % (nm, cn)] = 'constructor: %s' % e
                continue
            found.append((nm, cn, kw, True))
    return found, skipped


# ===========================================================================
# (a) sort_precomputed / _setup_precomputed vs the model

class _CB:
    def __init__(self, symbols):
        self.symbols = set(symbols)
        self.context = {}


def gen_table(rng):
    """random table name -> symbols; mostly DAGs, some cycles, non-key names"""
    n = rng.randrange(1, 10)
    names = ['S%s' % ''.join(rng.choice('ABCabc019_') for _ in range(rng.randrange(1, 4)))
             for _ in range(n)]
    names = list(dict.fromkeys(names))
    rng.shuffle(names)
    style = rng.choice(['dag', 'dag', 'dag', 'cyc', 'chain'])
    tab = {}
    for i, nm in enumerate(names):
        if style == 'chain':
            deps = names[i + 1:i + 2]
        elif style == 'dag':
            deps = [x for x in names[i + 1:] if rng.random() < 0.4]
        else:
            deps = [x for x in names if rng.random() < 0.3]
        extra = [rng.choice(['d_h', 's_x', 'sqrt', 'KERNEL', 'd_idx'])
                 for _ in range(rng.randrange(0, 3))]
        syms = [nm] * (rng.random() < 0.8) + deps + extra
        rng.shuffle(syms)
        tab[nm] = syms
    return tab


def table_tokens(tab):
    return ' '.join('E=%s:%s' % (k, ';'.join(v) if v else '_')
                    for k, v in tab.items())


def real_sort(tab, keys, timeout_passes=None):
    """run the real sort_precomputed; cyclic inputs would never return, so the
    harness only calls it when the key set is acyclic (checked independently)"""
    allp = {k: _CB(v) for k, v in tab.items()}
    pre = {k: allp[k] for k in keys}
    try:
        return 'ok ' + (','.join(EQ.sort_precomputed(pre, allp).keys()) or '_')
    except KeyError:
        return 'keyerror'


def has_cycle(tab, keys):
    ks = set(keys)
    deps = {k: [x for x in set(tab[k]) if x in tab and x != k and x in ks]
            for k in keys}
    state = {}

    def visit(k):
        if state.get(k) == 1:
            return True
        if state.get(k) == 2:
            return False
        state[k] = 1
        for d in deps[k]:
            if visit(d):
                return True
        state[k] = 2
        return False
    return any(visit(k) for k in keys)


def check_sort(R, rng, ncases, real_table):
    cases = []
    for i in range(ncases):
        if i % 4 == 3:
            tab = real_table
            keys = rng.sample(list(tab), rng.randrange(1, len(tab) + 1))
            if rng.random() < 0.7:      # close it the way the Group does
                ks = set(keys)
                ch = True
                while ch:
                    ch = False
                    for k in list(ks):
                        for x in tab[k]:
                            if x in tab and x not in ks:
                                ks.add(x)
                                ch = True
                keys = [k for k in tab if k in ks]
                rng.shuffle(keys)
            cases.append(('real', tab, keys))
        else:
            tab = gen_table(rng)
            keys = rng.sample(list(tab), rng.randrange(1, len(tab) + 1))
            cases.append(('rand', tab, keys))
    lines = []
    for kind, tab, keys in cases:
        lines.append('sort keys=%s %s' % (','.join(keys), 'T=real' if kind == 'real'
                                          else table_tokens(tab)))
    out = H.run_model('C02', lines)
    if len(out) != len(lines):
        raise SystemExit('driver answered %d lines for %d' % (len(out), len(lines)))
    for (kind, tab, keys), ln, m in zip(cases, lines, out):
        unclosed = any(x in tab and x != k and x not in keys
                       for k in keys for x in tab[k])
        cyc = has_cycle(tab, keys)
        if cyc and not unclosed:
            impl = 'diverges'     # the Python loop would spin for ever
            R.count('sort:cyclic (not run on the real code)')
        else:
            impl = real_sort(tab, keys)
        R.count('sort:%s:%s' % (kind, impl.split()[0]))
        if m != impl:
            R.disagree({'op': 'sort', 'line': ln}, m, impl, 'sort_precomputed')
        # the property's own demand on the real result: a permutation of the
        # keys in which every symbol follows the symbols its code mentions
        if impl.startswith('ok'):
            o = [] if impl == 'ok _' else impl[3:].split(',')
            bad = sorted(o) != sorted(keys)
            for i, k in enumerate(o):
                for x in tab[k]:
                    if x in tab and x != k and x in keys and x not in o[:i]:
                        bad = True
            if bad:
                R.prop_fail('C02:sort-order', {'kind': 'sort', 'table': tab, 'keys': keys},
                            'a permutation of the keys, dependencies first', impl)
        R.case('sort|' + ln, len(keys) > 1 and impl.startswith('ok'),
               {'line': ln, 'model': m, 'impl': impl} if len(R.d['samples']) < 2 else None)
        R.d['traces_validated_against_impl'] += 1


class _LoopEq(Equation):
    pass


def check_setup(R, rng, ncases):
    """Group._setup_precomputed on the real table for random loop signatures"""
    pre = EQ.Group.pre_comp
    lines, impls, argsl = [], [], []
    for _ in range(ncases):
        k = rng.randrange(0, 6)
        args = rng.sample(list(pre.keys()), k) + \
            rng.sample(['d_idx', 's_idx', 'd_x', 's_m', 't', 'dt', 'd_rho'], 3)
        rng.shuffle(args)
        ns = {}
        exec('def loop(self, %s):\n    pass' % ', '.join(args), ns)
        cls = type('LoopEq', (Equation,), {'loop': ns['loop']})
        g = Group(equations=[cls(dest='a', sources=['a'])])
        keys = list(g.precomputed.keys())
        impls.append('closure=%s ok %s' % (','.join(sorted(keys)) or '_',
                                           ','.join(keys) or '_'))
        lines.append('setup args=%s T=real' % ','.join(args))
        argsl.append(args)
    out = H.run_model('C02', lines)
    for ln, m, im, args in zip(lines, out, impls, argsl):
        if m != im:
            R.disagree({'op': 'setup', 'line': ln}, m, im, '_setup_precomputed')
        R.case('setup|' + ln, len(im) > 20, None)
        R.count('setup:%d-symbols' % (0 if im.endswith('ok _') else im.count(',') // 2 + 1))
        R.d['traces_validated_against_impl'] += 1


# ===========================================================================
# (v) translator validation

def fn_seed(f):
    return {'KERNEL': 1.0, 'DWDQ': 2.0, 'GRADH': 3.0, 'GRADIENT': 4.0}.get(f, 7.0)


def flat(args):
    o = []
    for a in args:
        if isinstance(a, (list, tuple, np.ndarray)):
            o += [float(x) for x in a]
        else:
            o.append(float(a))
    return o


def fn_stub(f, args):
    acc, c = fn_seed(f), 2.0
    for a in flat(args):
        acc = acc + c * a
        c = c + 1.0
    return acc


def check_translator(R, rng, nrounds):
    pre = EQ.precomputed_symbols()
    tables = H.run_model('C02', ['tables'])[0]
    kv = dict(t.split('=') for t in tables.split())
    gen_code = kv['code'].split(',')
    if gen_code != list(pre.keys()):
        R.disagree({'op': 'tables'}, gen_code, list(pre.keys()), 'symbols of the table')
    dflt = dict(x.split(':') for x in kv['defaults'].split(','))
    for s, cb in pre.items():
        d = cb.context[s]
        want = '0' if isinstance(d, float) else str(len(d))
        if dflt.get(s) != want:
            R.disagree({'op': 'defaults', 'sym': s}, dflt.get(s), want, 'default')
    # symbolsTable vs the real cb.symbols (through the sort on the real table)
    repo = os.environ.get('PYSPH_VERIF_SCRATCH_REPO', '/repo')
    doc = documented_statements(repo)
    which = {s: ('doc' if s in kv['doc'].split(',') else 'conv') for s in gen_code}
    lines, wants, metas = [], [], []
    for _ in range(nrounds):
        for s, cb in pre.items():
            dv = {p: rng.uniform(-2, 2) for p in 'xyzuvwh'}
            dv['rho'] = rng.uniform(0.5, 2)
            dv['h'] = rng.uniform(0.1, 0.3)
            sv = {p: rng.uniform(-2, 2) for p in 'xyzuvwh'}
            sv['rho'] = rng.uniform(0.5, 2)
            sv['h'] = rng.uniform(0.1, 0.3)
            st = {'HIJ': [rng.uniform(0.1, 0.3)], 'RIJ': [rng.uniform(0, 1)],
                  'R2IJ': [rng.uniform(0, 1)], 'RHOIJ': [rng.uniform(0.5, 2)],
                  'XIJ': [rng.uniform(-1, 1) for _ in range(3)],
                  'DELTAP': [rng.uniform(0.5, 1)]}
            toks = 'd=%s s=%s st=%s' % (
                ';'.join('%s:%s' % (p, H.fbits(v)) for p, v in dv.items()),
                ';'.join('%s:%s' % (p, H.fbits(v)) for p, v in sv.items()),
                ';'.join('%s:%d:%s' % (n, k, H.fbits(v)) for n, vs in st.items()
                         for k, v in enumerate(vs)))
            # the real code string, executed by CPython

            def run_text(text):
                ctx = {'d_idx': 0, 's_idx': 0, 'sqrt': math.sqrt}
                for p, v in dv.items():
                    ctx['d_' + p] = [v]
                for p, v in sv.items():
                    ctx['s_' + p] = [v]
                for n, vs in st.items():
                    ctx[n] = list(vs) if len(vs) > 1 else vs[0]
                d0 = cb.context[s]
                ctx[s] = list(d0) if isinstance(d0, list) else d0
                for f in ('KERNEL', 'DWDQ', 'GRADH'):
                    ctx[f] = (lambda f: lambda *a: fn_stub(f, a))(f)

                def grad(x, r, h, out):
                    v = fn_stub('GRADIENT', (x, r, h))
                    for k in range(3):
                        out[k] = v * (k + 2.0) + k
                ctx['GRADIENT'] = grad
                exec(text, {}, ctx)
                r = ctx[s]
                return ','.join(H.fbits(x) for x in r) if isinstance(r, list) \
                    else H.fbits(r)
            for w, text in (('code', cb.code),):
                lines.append('evalblock which=%s sym=%s %s' % (w, s, toks))
                wants.append(run_text(text))
                metas.append((w, s))
            # the documented text, executed the same way (its statements one
            # per line, blanks are immaterial)
            dtext = '\n'.join(doc[s]).replace('=', ' = ', 1) if s in doc else None
            if dtext is not None:
                dtext = '\n'.join(t.replace('=', ' = ', 1) for t in doc[s])
                lines.append('evalblock which=%s sym=%s %s' % (which[s], s, toks))
                wants.append(run_text(dtext))
                metas.append((which[s], s))
    out = H.run_model('C02', lines)
    for ln, m, w, meta in zip(lines, out, wants, metas):
        if m != w:
            R.disagree({'op': 'evalblock', 'line': ln}, m, w,
                       'generated %s block of %s vs CPython' % meta)
        R.count('translator-validation:%s' % meta[0])
        R.case('eval|' + ln, True, None)
        R.d['traces_validated_against_impl'] += 1
    # documented formula == code string, evaluated on the real table (the
    # property's "equal to their documented formulas", as text)
    for s, cb in pre.items():
        got = [t.replace(' ', '') for t in cb.code.strip().split('\n') if t.strip()]
        if doc.get(s) != got:
            R.prop_fail('C02:precomputed-formula:%s' % s,
                        {'kind': 'formula', 'sym': s},
                        ' ; '.join(doc.get(s) or ['<undocumented>']), ' ; '.join(got))


# ===========================================================================

def collect(R, results, tag):
    """driver comparison + verdicts for a batch of analysed programs"""
    lines = [ln for r in results for ln in r['lines']]
    out = H.run_model('C02', lines) if lines else []
    pos = 0
    for r in results:
        spec = r['spec']
        case = r.get('case') or {'kind': 'program', 'spec': spec}
        if not r['ok']:
            R.count('%s:error' % tag)
            R.note('program %s failed to build/run: %s' % (spec.get('label'), (r['err'] or '')[:400]))
            R.d.setdefault('errors', []).append({'label': spec.get('label'), 'err': r['err']})
            if not r['lines']:
                for key, demand, obs in r['fail']:
                    R.prop_fail(key, case, demand, obs)
                continue
            # the generated source was analysed before the build/run failed:
            # what the analysis found still counts
        mine = out[pos:pos + len(r['lines'])]
        pos += len(r['lines'])
        ng = r['ng']
        extra = r.get('extra') or []
        if len(mine) != 2 * ng + 3 + len(extra):
            raise SystemExit('driver answered %d lines for a program of %d groups' % (len(mine), ng))
        for (what_, impl_), model_ in zip(extra, mine[2 * ng + 3:]):
            if impl_ != model_:
                R.disagree({'label': spec.get('label'), 'case': case}, model_, impl_, what_)
            R.count('%s:tie:%s' % (tag, what_.split(' of ')[0].split(' after ')[0]))
        if mine[ng + 1] != r['impl_sites']:
            R.disagree({'label': spec.get('label'), 'case': case}, mine[ng + 1],
                       r['impl_sites'], 'call sites of condition/pre/post '
                       '(kind@enclosing-group>group-referred-to)')
        for gi in range(ng):
            parts = mine[gi].split(' | ')
            model_blocks = ' | '.join(p for p in parts if p.startswith('D '))
            if model_blocks != r['impl_canon'][gi]:
                R.disagree({'label': spec.get('label'), 'case': case, 'group': gi},
                           model_blocks, r['impl_canon'][gi], 'wiring of group %d' % gi)
            # the right-hand sides of D_START_IDX / NP_DEST per destination
            if mine[ng + 2 + gi] != r['impl_limits'][gi]:
                R.disagree({'label': spec.get('label'), 'case': case, 'group': gi},
                           mine[ng + 2 + gi], r['impl_limits'][gi],
                           'loop limits of group %d (%s)' % (gi, r['lines'][ng + 2 + gi]))
        # the attribute declarations of the wrapper classes: the existing
        # generator types a class from the last instance of its name, the
        # repaired one from the widened representative; they agree unless the
        # instances of a name differ in the type of an attribute
        wm = dict(x.split('=', 1) for x in mine[2 * ng + 2].split(' ')) \
            if mine[2 * ng + 2] != 'bad-op' else {}
        if r['impl_wrappers'] not in (wm.get('last'), wm.get('merge')):
            R.disagree({'label': spec.get('label'), 'case': case},
                       mine[2 * ng + 2], r['impl_wrappers'],
                       'attribute declarations of the equation wrapper classes')
        elif wm.get('last') != wm.get('merge'):
            R.count('%s:wrapper-policy:%s' % (tag, 'widened-representative'
                                              if r['impl_wrappers'] == wm.get('merge') else 'last-instance'))
        parts = mine[ng].split(' | ')
        md = [p for p in parts if p.startswith('decl ')]
        ms = [p for p in parts if p.startswith('scratch ')]
        if md != [r['impl_decl']]:
            R.disagree({'label': spec.get('label'), 'case': case}, md, r['impl_decl'], 'array declarations')
        if ms != [r['impl_scratch']]:
            R.disagree({'label': spec.get('label'), 'case': case}, ms, r['impl_scratch'], 'scratch variables')
        for key, demand, obs in r['fail']:
            R.prop_fail(key, case, demand, obs)
        lab = spec.get('label', '')
        R.d.setdefault('times', []).append((round(r.get('time', 0.0), 1), tag, lab, spec.get('mut', '')))
        for n_ in r.get('notes', []):
            if n_ not in R.d['notes']:
                R.note(n_)
        if r.get('unexecutable'):
            R.count('%s:python-unexecutable (NameError in the module)' % tag)
        if r.get('inadmissible'):
            R.count('%s:inadmissible-data (CPython raises, C gives inf/nan)' % tag)
        if r.get('crashed'):
            R.count('%s:worker-died' % tag)
        R.count('%s:%s' % (tag, lab.split(':')[0]))
        for c_ in group_feature_classes(spec):
            R.count('%s:%s' % (tag, c_))
        R.count('kernel:%s' % spec['kernel'])
        R.count('dim:%d' % spec['dim'])
        for s in r.get('nsyms', []):
            R.count('symbol-used:%s' % s)
        if r.get('exact') is not None:
            R.count('%s:%s' % (tag, 'bit-exact' if r['exact'] else 'within-tolerance'))
        R.case(json.dumps(spec, sort_keys=True), bool(r.get('nsyms')) or spec.get('compile'),
               {'label': lab, 'impl': r['impl_canon'][:1], 'model': mine[:1]}
               if len(R.d['samples']) < 5 else None)
        R.d['traces_validated_against_impl'] += 1


def group_feature_classes(spec):
    """what the program's groups exercise (for the input distribution)"""
    nodes = spec_nodes(spec)
    out = []
    if any('subs' in g for _, g in nodes):
        out.append('groups:with-sub-groups')
    ncb = sum(1 for _, g in nodes for k in ('cond', 'pre', 'post') if g.get(k))
    if ncb:
        out.append('groups:with-condition/pre/post')
        out.append('group-callables-checked-for-own-index', )
    by = {}
    for pos, g in nodes:
        if g.get('name') is not None:
            by.setdefault(g['name'], []).append((pos, g))
    if not by:
        out.append('group-names:default')
    elif all(len(v) == 1 for v in by.values()):
        out.append('group-names:explicit-unique')
    t = spec['t']
    for label, members in by.items():
        if len(members) < 2:
            continue
        tops = [p for p, _ in members if p[1] is None]
        subs = [p for p, _ in members if p[1] is not None]
        if len(tops) >= 2:
            out.append('group-names:shared:top+top')
        if tops and subs:
            out.append('group-names:shared:top+sub')
        if len(subs) >= 2:
            out.append('group-names:shared:sub+sub')
        outs = set()
        for _, g in members:
            c = g.get('cond')
            if c:
                outs.add((t < c['lt']) if 'lt' in c else (t >= c['ge']))
        if len(outs) == 2:
            out.append('group-names:shared:conditions-of-different-outcome')
        if sum(1 for _, g in members if any(g.get(k) for k in ('cond', 'pre', 'post'))) >= 2:
            out.append('group-names:shared:own-callables')
    # class hierarchies, convergence hooks, iterated groups, histories
    mod = spec.get('mod') or ''
    bases = dict(re.findall(r'^class (\w+)\((\w+)\):', mod, re.M))
    own_conv = set(re.findall(r'^class (\w+)\(\w+\):(?:\n(?!class ).*)*?\n    def converged\(', mod, re.M))

    def conv_kind(c):
        if c in own_conv:
            return 'own'
        b = bases.get(c)
        while b is not None and b != 'Equation':
            if b in own_conv:
                return 'inherited'
            b = bases.get(b)
        return 'default'
    for _, g in nodes:
        for e in g.get('eqs', []):
            c = e['cls'].split(':')[1]
            if bases.get(c, 'Equation') != 'Equation':
                out.append('class:subclass-of-a-generated-equation')
    for pos, g in nodes:
        if not g.get('iter'):
            continue
        out.append('iterated-group:%s' % ('parent-of-sub-groups' if 'subs' in g else 'of-equations'))
        kinds = {conv_kind(e['cls'].split(':')[1]) for sg in (g.get('subs') or [g])
                 for e in sg['eqs'] if e['cls'].startswith('gen:')}
        for k_ in kinds:
            out.append('iterated-group:converged():%s' % k_)
        if g['iter']['min'] > 1:
            out.append('iterated-group:min_iterations>1')
    for st in spec.get('history') or []:
        out.append('history:%s' % {'rebind': 'update_particle_arrays+compute',
                                   'compute': 'compute-again'}[st['op']])
    # loop limits
    sizes = {a['name']: array_sizes(a, spec['dim']) for a in spec['arrays']}
    for _, g in nodes:
        if 'eqs' not in g:
            continue
        if 'start' not in g and 'stop' not in g:
            out.append('limits:default')
            continue
        st, sp = g.get('start', 0), g.get('stop')
        out.append('limits:start:%s' % ('name' if isinstance(st, str) else
                                        '0' if st == 0 else 'positive'))
        real = min(sizes[e['dest']][1] for e in g['eqs'])
        tot = min(sizes[e['dest']][0] for e in g['eqs'])
        out.append('limits:stop:%s' % (
            'None' if sp is None else 'name' if isinstance(sp, str) else
            '0' if sp == 0 else 'n_real' if sp == real else 'n_all' if sp == tot else
            'start' if sp == st else 'below-start' if isinstance(st, int) and sp < st else 'inside'))
        for k in ('start', 'stop'):
            v = g.get(k)
            if isinstance(v, str):
                vals = {(a.get('iconsts', {}).get(v, a.get('ifirst', {}).get(v)))
                        for a in spec['arrays'] if a['name'] in {e['dest'] for e in g['eqs']}}
                if 0 in vals:
                    out.append('limits:%s:name-of-a-zero' % k)
    # instance attributes
    tags = {}
    for _, g in nodes:
        for e in g.get('eqs', []):
            for a, v in e['kw'].items():
                tags.setdefault((e['cls'], a), []).append(v)
    for (c, a), vs in tags.items():
        ts = {py_tag(v) for v in vs}
        for t_ in ts:
            out.append('attribute:%s' % t_)
        if len(ts) > 1:
            out.append('attribute:instances-differ-in-type')
        if len(vs) > 1 and len(set(map(repr, vs))) > 1:
            out.append('attribute:instances-differ-in-value')
        if any(v == 0 for v in vs):
            out.append('attribute:zero-or-False')
    return sorted(set(out))


def run_isolated(specs, work, mode, procs):
    """one subprocess per program: a crash of generated code (segmentation
    fault in the compiled module) must not take the harness down, and must be
    attributed to the program that crashed"""
    import subprocess
    pending = list(enumerate(specs))
    running = {}
    outs = [None] * len(specs)
    uid = '%d_%d' % (os.getpid(), int(time.time() * 1000) % 100000)
    while pending or running:
        while pending and len(running) < procs:
            k, spec = pending.pop(0)
            tf = os.path.join(work, 'task_%s_%d.json' % (uid, k))
            of = os.path.join(work, 'out_%s_%d.json' % (uid, k))
            with open(tf, 'w') as fh:
                json.dump([spec, work, mode], fh)
            lf = open(of + '.log', 'wb')
            pr = subprocess.Popen([sys.executable, os.path.abspath(__file__),
                                   '--worker-task', tf, '--worker-out', of],
                                  stdout=lf, stderr=subprocess.STDOUT,
                                  stdin=subprocess.DEVNULL)
            lf.close()
            running[k] = (pr, of, time.time())
        time.sleep(0.2)
        for k in list(running):
            pr, of, t0 = running[k]
            rc = pr.poll()
            if rc is None:
                if time.time() - t0 > 900:
                    pr.kill()
                    rc = 'timeout'
                else:
                    continue
            del running[k]
            if rc == 0 and os.path.exists(of):
                outs[k] = json.load(open(of))
                continue
            # the worker died: analyse the generated source here (nothing
            # compiled is executed for that) and report the death
            log = open(of + '.log', 'rb').read().decode(errors='replace')
            o = run_program((specs[k], work, 'codeonly'))
            o['fail'] = list(o['fail']) + [(
                'C02:compute-crashes:%s' % specs[k].get('label', 'program'),
                'the compiled program is built, AccelerationEval.compute(t, dt) returns and leaves '
                'the values of the Python execution',
                'the worker process died (exit code %s) while building / running the compiled '
                'program: %s' % (rc, log[-600:]))]
            o['crashed'] = True
            outs[k] = o
    return outs


def run_batch(specs, work, mode, procs):
    if not specs:
        return []
    if procs <= 1 or len(specs) == 1:
        return [run_program((s, work, mode)) for s in specs]
    from concurrent.futures.process import BrokenProcessPool
    try:
        with ProcessPoolExecutor(max_workers=procs) as ex:
            return list(ex.map(run_program, [(s, work, mode) for s in specs]))
    except BrokenProcessPool:
        # a worker died (generated code crashed): run every program of the
        # batch again, each in a process of its own (the builds are cached)
        return run_isolated(specs, work, mode, procs)


class Jobs:
    """programs run one after the other in ONE fresh process per job (a job of
    one program: that program alone in a fresh process).  Jobs are started with
    pump() and reaped with wait(); a job that dies (crash of generated code,
    time-out) is reported with the members completed before"""

    def __init__(self, work, procs):
        self.work, self.procs = work, max(1, procs)
        self.pending, self.running, self.done = [], {}, {}
        self.uid = '%d_%d' % (os.getpid(), int(time.time() * 1000) % 100000)
        self.n = 0

    def submit(self, specs, mode):
        jid = self.n
        self.n += 1
        self.pending.append((jid, specs, mode))
        return jid

    def pump(self):
        import subprocess
        while self.pending and len(self.running) < self.procs:
            jid, specs, mode = self.pending.pop(0)
            tf = os.path.join(self.work, 'job_%s_%d.json' % (self.uid, jid))
            of = os.path.join(self.work, 'jobout_%s_%d.jsonl' % (self.uid, jid))
            with open(tf, 'w') as fh:
                json.dump({'specs': specs, 'work': self.work, 'mode': mode}, fh)
            lf = open(of + '.log', 'wb')
            pr = subprocess.Popen([sys.executable, os.path.abspath(__file__),
                                   '--worker-task', tf, '--worker-out', of],
                                  stdout=lf, stderr=subprocess.STDOUT,
                                  stdin=subprocess.DEVNULL)
            lf.close()
            self.running[jid] = (pr, of, time.time(), specs)
        for jid in list(self.running):
            pr, of, t0, specs = self.running[jid]
            rc = pr.poll()
            if rc is None:
                if time.time() - t0 > 600 + 300 * len(specs):
                    pr.kill()
                    pr.wait()
                    rc = 'timeout'
                else:
                    continue
            del self.running[jid]
            outs = []
            if os.path.exists(of):
                for ln in open(of):
                    try:
                        outs.append(json.loads(ln))
                    except ValueError:
                        break
            died = None
            if rc != 0 or len(outs) != len(specs):
                log = open(of + '.log', 'rb').read().decode(errors='replace')
                died = {'rc': rc, 'at': len(outs), 'log': log[-600:]}
            self.done[jid] = {'outs': outs, 'died': died, 'specs': specs}

    def wait(self):
        while self.pending or self.running:
            self.pump()
            time.sleep(0.2)
        return self.done


def session_case(specs, k):
    return {'kind': 'session', 'specs': specs[:k + 1],
            'what': 'the programs are built and evaluated one after the other in one process; '
                    'the last one fails'}


def settle_sessions(R, sessions, results, work, procs, mode, tag):
    """verdicts for sessions: every member is a program (model tie, oracles); a
    member that fails is run again ALONE in a fresh process -- if it passes
    there, the failure is one of the history (key C02:process-history:...), and
    the failing input is the session up to that member"""
    alone = Jobs(work, procs)
    need = {}
    for si, (specs, res) in enumerate(zip(sessions, results)):
        died = res['died']
        for k, o in enumerate(res['outs']):
            if k > 0 and (o['fail'] or not o['ok']):
                need[(si, k)] = alone.submit([specs[k]], mode)
        if died is not None and died['at'] < len(specs) and died['at'] > 0:
            need[(si, died['at'])] = alone.submit([specs[died['at']]], mode)
    done = alone.wait() if need else {}
    flat = []
    for si, (specs, res) in enumerate(zip(sessions, results)):
        outs = list(res['outs'])
        died = res['died']
        if died is not None and died['at'] < len(specs):
            k = died['at']
            o = run_program((specs[k], work, 'codeonly'))
            o['fail'] = list(o['fail']) + [(
                'C02:compute-crashes:%s' % specs[k].get('label', 'program'),
                'the compiled program is built, AccelerationEval.compute(t, dt) returns and leaves '
                'the values of the Python execution',
                'the process died (exit code %s) while building / running member %d of the session: %s'
                % (died['rc'], k, died['log']))]
            o['crashed'] = True
            outs.append(o)
            R.count('%s:member-not-reached' % tag, len(specs) - len(outs))
        for k, o in enumerate(outs):
            R.count('%s:member:%s' % (tag, specs[k].get('mut', '?')))
            a = done.get(need.get((si, k)))
            if a is None:
                if k > 0 and (o['fail'] or not o['ok']):
                    o['case'] = session_case(specs, k)
                flat.append(o)
                continue
            ao = a['outs'][0] if a['outs'] else None
            passes_alone = ao is not None and ao['ok'] and not ao['fail'] and a['died'] is None
            if passes_alone:
                o['fail'] = [('C02:process-history:' + key.split(':', 1)[1], demand,
                              '%s -- the same program ALONE in a fresh process meets the demand'
                              % obs) for key, demand, obs in o['fail']]
                if not o['ok']:
                    o['fail'].append(('C02:process-history:build', 'the program builds and runs, as it does '
                                      'alone in a fresh process', (o['err'] or '')[:600]))
                    o['ok'] = True if o['lines'] else o['ok']
                o['case'] = session_case(specs, k)
                R.count('%s:member-fails-only-after-its-predecessors' % tag)
            else:
                R.count('%s:member-fails-alone-too' % tag)
            flat.append(o)
    collect(R, flat, tag)
    R.count('%s:sessions' % tag, len(sessions))


def check_history_independence(R, sessions, results, work, procs):
    """the generated source of a program is a function of the program: member k
    of a session (k >= 1) must get the text a fresh process generates for it"""
    jobs = Jobs(work, procs)
    ref = {}
    for si, (specs, res) in enumerate(zip(sessions, results)):
        for k in range(1, len(res['outs'])):
            ref[(si, k)] = jobs.submit([specs[k]], 'codetext')
    done = jobs.wait() if ref else {}
    for (si, k), jid in sorted(ref.items()):
        a = done[jid]
        o = results[si]['outs'][k]
        if not a['outs'] or 'code' not in a['outs'][0] or 'code' not in o:
            R.count('history-independence:not-comparable')
            continue
        c1, c2 = a['outs'][0]['code'], o['code']
        R.count('history-independence:compared')
        R.d['traces_validated_against_impl'] += 1
        if c1 != c2:
            l1, l2 = c1.split('\n'), c2.split('\n')
            j = next((i for i, (x, y) in enumerate(zip(l1, l2)) if x != y), min(len(l1), len(l2)))
            R.disagree(session_case(sessions[si], k),
                       'the source a fresh process generates for the last program (sha1 %s), line %d: %s'
                       % (hashlib.sha1(c1.encode()).hexdigest()[:10], j + 1,
                          l1[j].strip() if j < len(l1) else '<end>'),
                       'sha1 %s, line %d: %s' % (hashlib.sha1(c2.encode()).hexdigest()[:10], j + 1,
                                                  l2[j].strip() if j < len(l2) else '<end>'),
                       'generated source of a program built after others in the same process '
                       '(%s after %s)' % (sessions[si][k].get('mut'),
                                          [x.get('mut') for x in sessions[si][:k]]))
    for res in results:
        for o in res['outs']:
            o.pop('code', None)


def corpus_specs():
    """minimised programs that exercised past problems; always run first"""
    src = '\n\n'.join([
        'from pysph.sph.equation import Equation',
        'class C02CorpusA(Equation):\n'
        '    def initialize(self, d_idx, d_q0):\n'
        '        d_q0[d_idx] = 0.0\n\n'
        '    def loop(self, d_idx, s_idx, d_q0, d_q1, s_m, d_m, s_q1, WIJ, XIJ, VIJ, RIJ, EPS, RHOIJ1, DWIJ):\n'
        '        d_q0[d_idx] += s_m[s_idx]*WIJ - d_m[d_idx]*XIJ[0]*DWIJ[0] + VIJ[1]*RHOIJ1\n'
        '        d_q1[d_idx] += s_q1[s_idx]*RIJ + EPS\n']) + '\n'
    arrays = [{'name': nm, 'n': 16, 'props': full_props(), 'consts': {'c0': 1, 'cv': 3},
               'nghost': 2} for nm in ('fluid', 'solid')]
    # (minimised from a seeded defect) groups that share a user-given name: two
    # top-level groups labelled 'correction' (the first one's condition is False
    # at t = 0, the second one's True; different pre), two sub-groups labelled
    # 'sweep' in one parent (True / False, different pre), and the labels used
    # again across levels -- every group must be run under ITS OWN condition,
    # between ITS OWN pre and post.  Arithmetic only: exact comparison.
    src2 = '\n\n'.join([
        'from pysph.sph.equation import Equation',
        'class C02CorpusAdd(Equation):\n'
        '    def __init__(self, dest, sources, ca=1.0):\n'
        '        self.ca = ca\n'
        '        super(C02CorpusAdd, self).__init__(dest, sources)\n\n'
        '    def initialize(self, d_idx, d_q0, d_m):\n'
        '        d_q0[d_idx] += self.ca*d_m[d_idx]\n',
        'class C02CorpusSum(Equation):\n'
        '    def loop(self, d_idx, s_idx, d_q1, s_m):\n'
        '        d_q1[d_idx] += s_m[s_idx]\n']) + '\n'

    def cb(prop, **kw):
        d = {'arr': 'fluid', 'prop': prop}
        d.update(kw)
        return d
    summ = {'cls': 'gen:C02CorpusSum', 'dest': 'fluid', 'sources': ['fluid'], 'kw': {}}

    def add(ca):
        return {'cls': 'gen:C02CorpusAdd', 'dest': 'fluid', 'sources': None, 'kw': {'ca': ca}}
    same_names = [
        {'name': 'correction', 'cond': {'ge': 1.0}, 'pre': cb('m', add=1.0),
         'post': cb('q1', add=3.0), 'real': True, 'eqs': [summ]},
        {'name': 'correction', 'cond': {'lt': 1.0}, 'pre': cb('m', mul=10.0),
         'post': cb('q1', mul=2.0), 'real': True, 'eqs': [summ]},
        {'name': 'outer', 'pre': cb('q0', add=0.5), 'post': cb('q0', mul=-1.0), 'subs': [
            {'name': 'sweep', 'cond': {'lt': 1.0}, 'pre': cb('m', mul=2.0), 'real': True,
             'eqs': [add(100.0)]},
            {'name': 'sweep', 'cond': {'ge': 1.0}, 'pre': cb('m', add=5.0),
             'post': cb('q0', add=9.0), 'real': False, 'eqs': [add(1000.0)]}]},
        {'name': 'sweep', 'post': cb('q1', add=7.0), 'subs': [
            {'name': 'correction', 'cond': {'lt': 0.5}, 'post': cb('m', add=1.0), 'real': True,
             'eqs': [summ, add(1.0)]}]}]
    # (minimised from a seeded defect) the loop limits of a group at their
    # boundary values: the integer 0 as a stop, start == stop, a stop given by
    # a constant whose value is 0, by a property, the defaults, limits beyond
    # the real particles.  16 particles per array, 2 of them ghosts.
    lim_arrays = copy.deepcopy(arrays)
    lim_arrays[0].update(iconsts={'nlo': 1, 'nhi': 0}, ifirst={'plo': 2, 'phi': 13})
    lim_arrays[1].update(iconsts={'nlo': 0, 'nhi': 5}, ifirst={'plo': 0, 'phi': 0})

    def addto(dest, ca):
        return {'cls': 'gen:C02CorpusAdd', 'dest': dest, 'sources': None, 'kw': {'ca': ca}}

    def sumto(dest, srcs):
        return {'cls': 'gen:C02CorpusSum', 'dest': dest, 'sources': srcs, 'kw': {}}
    limit_groups = [
        {'real': True, 'stop': 0, 'eqs': [addto('fluid', 1.0), sumto('fluid', ['fluid', 'solid'])]},
        {'real': True, 'start': 0, 'stop': None, 'eqs': [addto('fluid', 2.0)]},
        {'real': True, 'start': 3, 'stop': 3, 'eqs': [addto('solid', 4.0), sumto('solid', ['fluid'])]},
        {'real': False, 'stop': 'nhi', 'eqs': [addto('fluid', 8.0), addto('solid', 16.0),
                                               sumto('solid', ['solid'])]},
        {'real': True, 'start': 'plo', 'stop': 'phi', 'eqs': [addto('fluid', 32.0), sumto('fluid', ['solid']),
                                                              addto('solid', 64.0)]},
        {'real': True, 'start': 'nlo', 'eqs': [sumto('fluid', ['fluid']), sumto('solid', ['fluid'])]},
        {'real': False, 'start': 14, 'stop': 16, 'eqs': [addto('fluid', 128.0)]},
        {'real': True, 'start': 5, 'stop': 2, 'eqs': [addto('solid', 256.0)]},
        {'subs': [{'real': True, 'stop': 0, 'eqs': [addto('solid', 512.0)]},
                  {'real': True, 'stop': 1, 'eqs': [addto('solid', 1024.0)]}]}]
    # (finding on the pinned tree) two instances of one class whose attribute
    # is a float in one and an int in the other (the class is typed from the
    # last instance of the whole program)
    differ_groups = [
        {'real': True, 'eqs': [addto('fluid', 0.5), addto('solid', 3)]},
        {'real': True, 'eqs': [addto('fluid', 0.25), addto('solid', 1)]}]
    # (minimised from a seeded defect) an iterated group whose only equation
    # INHERITS reduce / converged from a base equation class and specialises
    # the loop: the group is swept until the inherited converged() is positive
    # (nmax sweeps), within [min_iterations, max_iterations]; the base class
    # itself in a second iterated group, cut by max_iterations.  Arithmetic only.
    src3 = '\n\n'.join([
        'from pysph.sph.equation import Equation',
        'class C02CorpusRelax(Equation):\n'
        '    def __init__(self, dest, sources, ca=1.0):\n'
        '        self.ca = ca\n'
        '        self.left = 1.0\n'
        '        super(C02CorpusRelax, self).__init__(dest, sources)\n\n'
        '    def initialize(self, d_idx, d_q0):\n'
        '        d_q0[d_idx] = 0.0\n\n'
        '    def loop(self, d_idx, s_idx, d_q0, s_m, s_q1):\n'
        '        d_q0[d_idx] += s_m[s_idx]*s_q1[s_idx]\n\n'
        '    def post_loop(self, d_idx, d_q0, d_q1, d_cacc):\n'
        '        d_q1[d_idx] = 0.5*d_q1[d_idx] + self.ca*d_q0[d_idx]\n'
        '        d_cacc[0] += d_q1[d_idx]\n\n'
        '    def reduce(self, dst, t, dt):\n'
        '        dst.nsw[0] += 1.0\n'
        '        dst.cacc[1] = dst.cacc[1]*0.5 + dst.c0[0]\n'
        '        self.left = dst.nmax[0] - dst.nsw[0]\n\n'
        '    def converged(self):\n'
        '        if self.left > 0.5:\n'
        '            return -1.0\n'
        '        return 1.0\n',
        'class C02CorpusRelaxWeighted(C02CorpusRelax):\n'
        '    def loop(self, d_idx, s_idx, d_q0, s_m, s_rho, s_q1):\n'
        '        d_q0[d_idx] += s_m[s_idx]/s_rho[s_idx]*s_q1[s_idx]\n']) + '\n'
    conv_arrays = [dict(a, cdraw={'nmax': [3.0, 4.0]}, czero={'nsw': 1, 'cacc': 2})
                   for a in arrays]
    conv_groups = [
        {'real': True, 'iter': {'min': 1, 'max': 6}, 'eqs': [
            {'cls': 'gen:C02CorpusRelaxWeighted', 'dest': 'fluid', 'sources': ['fluid', 'solid'],
             'kw': {'ca': 0.25}}]},
        {'real': True, 'iter': {'min': 0, 'max': 2}, 'eqs': [
            {'cls': 'gen:C02CorpusRelax', 'dest': 'solid', 'sources': ['fluid'], 'kw': {'ca': 0.5}}]}]
    # (minimised from a seeded defect) one evaluator, then update_particle_arrays
    # with NEW arrays (other data, other values of the constants c0 / cv / nmax)
    # and compute again: constants read in loop / initialize_pair / reduce and
    # written in post_loop / reduce are those of the arrays being evaluated
    rebind_groups = [
        {'real': True, 'eqs': [
            {'cls': 'gen:C02CorpusRelax', 'dest': 'fluid', 'sources': ['fluid', 'solid'],
             'kw': {'ca': 2.0}},
            {'cls': 'gen:C02CorpusRelaxWeighted', 'dest': 'solid', 'sources': ['fluid'],
             'kw': {'ca': 0.5}}]}]
    return [{'label': 'corpus-iterated-group-inherited-converged', 'groups_mode': 'plain',
             'mod': src3, 'arrays': conv_arrays, 'groups': conv_groups,
             'kernel': 'CubicSpline', 'dim': 2, 't': 0.0, 'dt': 0.01, 'data_seed': 19,
             'compile': True, 'tol': 0.0,
             'history': [{'op': 'compute', 't': 0.0}]},
            {'label': 'corpus-update-particle-arrays', 'groups_mode': 'plain',
             'mod': src3, 'arrays': conv_arrays, 'groups': rebind_groups,
             'kernel': 'CubicSpline', 'dim': 2, 't': 0.0, 'dt': 0.01, 'data_seed': 23,
             'compile': True, 'tol': 0.0,
             'history': [{'op': 'rebind', 'data_seed': 29, 't': 0.0},
                         {'op': 'compute', 't': 0.3},
                         {'op': 'rebind', 'data_seed': 31, 't': 0.0}]},
            {'label': 'corpus-src-dst', 'mod': src, 'arrays': arrays,
             'groups': [{'real': True, 'eqs': [
                 {'cls': 'gen:C02CorpusA', 'dest': 'fluid', 'sources': ['solid'], 'kw': {}},
                 {'cls': 'gen:C02CorpusA', 'dest': 'solid', 'sources': ['fluid', 'solid'], 'kw': {}}]}],
             'kernel': 'CubicSpline', 'dim': 2, 't': 0.0, 'dt': 0.01, 'data_seed': 7,
             'compile': True, 'tol': 1e-12},
            {'label': 'corpus-groups-sharing-a-name', 'groups_mode': 'shared-names',
             'mod': src2, 'arrays': arrays, 'groups': same_names,
             'kernel': 'CubicSpline', 'dim': 2, 't': 0.0, 'dt': 0.01, 'data_seed': 11,
             'compile': True, 'tol': 0.0},
            {'label': 'corpus-loop-limits-at-the-boundaries', 'groups_mode': 'plain',
             'mod': src2, 'arrays': lim_arrays, 'groups': limit_groups,
             'kernel': 'Gaussian', 'dim': 2, 't': 0.0, 'dt': 0.01, 'data_seed': 13,
             'compile': True, 'tol': 0.0},
            {'label': 'instances-differ-in-attribute-type', 'groups_mode': 'plain',
             'mod': src2, 'arrays': arrays, 'groups': differ_groups,
             'kernel': 'CubicSpline', 'dim': 2, 't': 0.0, 'dt': 0.01, 'data_seed': 17,
             'compile': True, 'tol': 0.0}]


def corpus_sessions():
    """(minimised from a seeded defect) evaluators built one after the other in
    one process: the same class with an int attribute first and a float one
    next; a class re-defined under the same name with another loop; the first
    program again; bool after float"""
    def module(variant):
        return '\n\n'.join([
            'from pysph.sph.equation import Equation',
            'class C02SessScale(Equation):\n'
            '    def __init__(self, dest, sources, ca=1.0):\n'
            '        self.ca = ca\n'
            '        super(C02SessScale, self).__init__(dest, sources)\n\n'
            '    def initialize(self, d_idx, d_q0, d_m):\n'
            '        d_q0[d_idx] = self.ca*d_m[d_idx]\n',
            'class C02SessSource(Equation):\n'
            '    def loop(self, d_idx, s_idx, d_q1, s_m):\n'
            '        d_q1[d_idx] += %s\n' % (
                's_m[s_idx]' if variant == 0 else 's_m[s_idx]*s_m[s_idx] - 1.0')]) + '\n'
    arrays = [{'name': nm, 'n': 16, 'props': full_props(), 'consts': {'c0': 1, 'cv': 3},
               'nghost': 2} for nm in ('fluid', 'solid')]

    def member(variant, ca, seed, mut):
        return {'label': 'corpus-session', 'groups_mode': 'plain', 'mut': mut,
                'mod': module(variant), 'arrays': arrays,
                'groups': [{'real': True, 'eqs': [
                    {'cls': 'gen:C02SessScale', 'dest': 'fluid', 'sources': None, 'kw': {'ca': ca}},
                    {'cls': 'gen:C02SessSource', 'dest': 'fluid', 'sources': ['fluid', 'solid'], 'kw': {}}]}],
                'kernel': 'CubicSpline', 'dim': 2, 't': 0.0, 'dt': 0.01, 'data_seed': seed,
                'compile': True, 'tol': 0.0}
    # shipped equations: BodyForce with integer parameters first (gravity
    # (0, -10, 0) typed the way people type it), with float parameters next
    def shipped_member(kw, seed, mut):
        sp = shipped_program(random.Random(seed), [
            ('pysph.sph.basic_equations', 'BodyForce', kw, False),
            ('pysph.sph.basic_equations', 'SummationDensity', {}, False)], dim=2)
        sp.update(label='corpus-session-shipped', mut=mut, kernel='CubicSpline')
        return sp
    return [[member(0, 2, 21, 'first'), member(0, 0.5, 22, 'retype-attrs'),
             member(1, 0.5, 23, 'redefine-classes'), member(0, 2, 24, 'repeat'),
             member(1, True, 25, 'retype-attrs')],
            [shipped_member({'fx': 1, 'fy': -10, 'fz': 0}, 31, 'first'),
             shipped_member({'fx': 0.5, 'fy': -9.81, 'fz': 0.25}, 32, 'retype-attrs')]]


def main():
    if '--worker-task' in sys.argv:
        tf = sys.argv[sys.argv.index('--worker-task') + 1]
        of = sys.argv[sys.argv.index('--worker-out') + 1]
        task = json.load(open(tf))
        if isinstance(task, dict):
            # a job: the programs one after the other in THIS process; one
            # line of output per completed member
            with open(of, 'w') as fh:
                for spec in task['specs']:
                    o = run_program((spec, task['work'], task['mode']))
                    fh.write(json.dumps(o) + '\n')
                    fh.flush()
            sys.exit(0)
        spec, work, mode = task
        o = run_program((spec, work, mode))
        with open(of, 'w') as fh:
            json.dump(o, fh)
        sys.exit(0)
    a = H.args()
    R = H.Result(
        'cases = (v) block evaluations of every generated code/doc block on random '
        'inputs; (a) sort_precomputed on random tables / key sets and on the real '
        'table, Group._setup_precomputed on random loop signatures; (b) generated '
        'source of random programs (1-3 arrays, 1-4 groups, 1-3 equations each, '
        'generated classes in the documented subset or shipped equations; one level of '
        'sub-groups, condition/pre/post callables, explicit group names: unique or the '
        'SAME name on several groups / sub-groups with callables of their own and '
        'conditions of different outcome; start_idx / stop_idx: None, integers at the '
        'boundaries 0 / n_real / n / start, names of integer constants / properties; '
        'instance attributes of type float / int / bool with values per instance) parsed and '
        'compared with the model wiring, every condition/pre/post call site with the position '
        'of its own group, the loop limits of every destination block evaluated on the arrays, '
        'the attribute declarations of every wrapper class; SESSIONS of 3-5 programs built '
        'one after the other in one process (same class / array / group names; other attribute '
        'types, other method bodies, other array types, other wiring, other limits, the same '
        'program again), every member checked like a single program and its generated source '
        'compared with the one a fresh process generates; '
        '(c) the compiled programs among them '
        'executed and compared with the pure-Python executor. distinct = distinct '
        'driver line / program spec; non-trivial = sort of >1 key that succeeds, '
        'program with a precomputed symbol or compiled')
    work = os.path.abspath(a.work)
    os.makedirs(work, exist_ok=True)
    procs = min(14, os.cpu_count() or 4)
    if a.replay:
        rp = json.load(open(a.replay))
        case = rp['case']
        if case.get('kind') == 'program':
            # in a process of its own: the replayed program may crash
            r = run_isolated([case['spec']], work, 'full', 1)[0]
            fails = list(r['fail']) + ([] if r['ok'] else [('error', '', r['err'])])
            print(json.dumps(fails, indent=1))
            sys.exit(1 if fails else 0)
        if case.get('kind') == 'session':
            # the whole history in one fresh process; the verdict is the last member's
            J = Jobs(work, 1)
            jid = J.submit(case['specs'], 'full')
            res = J.wait()[jid]
            fails = []
            if res['outs'] and len(res['outs']) == len(case['specs']):
                r = res['outs'][-1]
                fails = list(r['fail']) + ([] if r['ok'] else [('error', '', r['err'])])
            if res['died'] is not None:
                fails.append(('died', '', json.dumps(res['died'])))
            print(json.dumps(fails, indent=1))
            sys.exit(1 if fails else 0)
        if case.get('kind') == 'sort':
            impl = real_sort(case['table'], case['keys'])
            print('demand: a permutation of the keys, dependencies first; observed:', impl)
            Rr = H.Result('')
            o = [] if impl in ('ok _', 'keyerror') else impl[3:].split(',')
            bad = sorted(o) != sorted(case['keys']) or any(
                x in case['table'] and x != k and x in case['keys'] and x not in o[:i]
                for i, k in enumerate(o) for x in case['table'][k])
            sys.exit(1 if bad else 0)
        if case.get('kind') == 'formula':
            check_translator(R, random.Random(1), 0)
            f = [x for x in R.d['property_failures']]
            print(json.dumps(f, indent=1))
            sys.exit(1 if f else 0)
        sys.exit(2)
    quick = a.tier == 'quick'
    rng = random.Random(a.seed * 7919 + 2)
    t0 = time.time()
    # (v)
    check_translator(R, rng, 3 if quick else 20)
    # (a)
    real_table = {k: sorted(cb.symbols) for k, cb in EQ.Group.pre_comp.items()}
    check_sort(R, rng, 400 if quick else 5000, real_table)
    check_setup(R, rng, 60 if quick else 600)
    R.note('ties (v),(a) took %.0fs' % (time.time() - t0))
    # (b) + (c)
    shipped = [e for e in SHIPPED
               if shipped_ok(getattr(importlib.import_module(e[0]), e[1]))]
    R.count('shipped-curated-usable', len(shipped))
    t1 = time.time()
    # every 4th program has groups / sub-groups that share an explicit name
    code_only = [gen_program(rng, compile_=False, big=True,
                             groups_mode='shared-names' if k % 4 == 1 else None)
                 for k in range(60 if quick else 400)]
    res = run_batch(code_only, work, 'codeonly', procs)
    collect(R, res, 'code-only')
    R.note('tie (b) on %d uncompiled programs took %.0fs' % (len(code_only), time.time() - t1))
    t2 = time.time()
    # (d) compiled sessions are started first and run beside the single programs
    musts = [('retype-attrs', 'redefine-classes'), ('redefine-classes', 'retype-attrs'),
             ('relimit', 'retype-attrs'), ('retype-arrays', 'rewire'), ('rewire', 'redefine-classes')]
    c_sessions = list(corpus_sessions())
    for k in range(3 if quick else 12):
        c_sessions.append(gen_session(rng, True, 4, musts[k % len(musts)],
                                      hier=(True, True) if k % 3 == 0 else None))
    nsess_procs = min(len(c_sessions), 5 if quick else 6)
    cj = Jobs(work, nsess_procs)
    c_ids = [cj.submit(ss, 'full') for ss in c_sessions]
    cj.pump()
    compiled = list(corpus_specs())
    ngen = 7 if quick else 60
    # every 3rd program: class hierarchies with inherited convergence hooks
    compiled += [gen_program(rng, compile_=True,
                             groups_mode='shared-names' if k % 6 == 1 else None,
                             hier=(True, True) if k % 3 == 0 else None)
                 for k in range(ngen)]
    pool = list(shipped)
    rng.shuffle(pool)
    nship = 6 if quick else 0
    for k in range(nship):
        grp = distinct_names(pool[k * 3:(k + 1) * 3] or pool[:3])
        compiled.append(shipped_program(rng, grp))
    if not quick:
        for e in shipped:
            for dim in (1, 2, 3):
                compiled.append(shipped_program(rng, [e], dim=dim))
        found, skipped = discover_shipped()
        R.note('thorough: %d shipped equation classes discovered, %d skipped (%s)' % (
            len(found), len(skipped),
            json.dumps(dict(list(skipped.items())[:40]))))
        for e in found:
            try:
                compiled.append(shipped_program(rng, [e], dim=2))
            except Exception as ex:   # noqa
                R.count('discovered:unbuildable')
    res = run_batch(compiled, work, 'full', max(2, procs - nsess_procs))
    collect(R, res, 'compiled')
    R.note('tie (c) on %d compiled programs took %.0fs' % (len(compiled), time.time() - t2))
    done = cj.wait()
    settle_sessions(R, c_sessions, [done[j] for j in c_ids], work, procs, 'full', 'compiled-session')
    R.note('(d) %d compiled sessions (%d programs) done after %.0fs' % (
        len(c_sessions), sum(len(x) for x in c_sessions), time.time() - t2))
    t3 = time.time()
    # (d) uncompiled sessions: many more histories, source level only
    u_sessions = [gen_session(rng, False, rng.choice([3, 3, 4, 5]),
                              (MUTATIONS[k % len(MUTATIONS)],))
                  for k in range(18 if quick else 150)]
    uj = Jobs(work, procs)
    u_ids = [uj.submit(ss, 'codetext') for ss in u_sessions]
    done = uj.wait()
    u_res = [done[j] for j in u_ids]
    check_history_independence(R, u_sessions, u_res, work, procs)
    settle_sessions(R, u_sessions, u_res, work, procs, 'codeonly', 'code-only-session')
    R.note('(d) %d uncompiled sessions (%d programs) took %.0fs' % (
        len(u_sessions), sum(len(x) for x in u_sessions), time.time() - t3))
    try:
        known = {e['key'] for e in H.vlib.known_findings('C02') if e.get('kind') == 'known'}
    except Exception:   # noqa
        known = set()
    if a.broken or R.d['disagreements'] or \
            any(f.get('key') not in known for f in R.d['property_failures']):
        # failing-input search on the real code: more compiled programs, every
        # precomputed symbol in use; more compiled sessions (not for a listed
        # known finding alone)
        rng2 = random.Random(a.seed + 4242)
        extra = []
        for k in range(12):
            s = gen_program(rng2, compile_=True,
                            groups_mode='shared-names' if k % 3 == 1 else None,
                            hier=(True, True) if k % 2 == 0 else None)
            extra.append(s)
        for k in range(4):
            extra.append(shipped_program(rng2, distinct_names(pool[k * 2:(k + 1) * 2] or pool[:2])))
        x_sessions = [gen_session(rng2, True, 4, musts[k % len(musts)]) for k in range(4)]
        xj = Jobs(work, 4)
        x_ids = [xj.submit(ss, 'full') for ss in x_sessions]
        xj.pump()
        res = run_batch(extra, work, 'full', max(2, procs - 4))
        collect(R, res, 'search')
        done = xj.wait()
        settle_sessions(R, x_sessions, [done[j] for j in x_ids], work, procs, 'full', 'search-session')
        R.d['search'] = {'extra_programs': len(extra), 'extra_sessions': len(x_sessions),
                         'found': len(R.d['property_failures'])}
    if R.d.get('errors') and len(R.d['errors']) > (2 if quick else 40):
        R.write(a.out)
        print('too many programs failed to build: %s' % R.d['errors'][:3])
        sys.exit(3)
    R.write(a.out)


if __name__ == '__main__':
    main()
