"""C13 correspondence + property oracle: small dense linear algebra.

impl : pysph.sph.wc.linalg  gj_solve / identity / dot / mat_mult / mat_vec_mult /
       augmented_matrix  (plain Python, scratch build of the repo) and the same
       functions transpiled by compyle inside a probe Equation (compiled path);
       pysph.base.linalg3  py_eigen_decompose_eispack / py_transform_diag_inv
model: lean PysphVerif.Model.GaussJordan at Float (bit-exact comparison) and at
       exact rationals (self-test of the exact-field reading the theorems use)
oracle: exact rational linear algebra (fractions.Fraction) written here,
       independent of model and code:  A non-singular and well away from the
       1e-12 guard  =>  gj_solve returns 0;  returned solutions satisfy
       |A x - b| <= C n^2 eps cond(A) |A| |x|;  helpers equal their definitions.
       The eigen-solver is MONITORED (a test, not carried by proof).
"""
import json
import math
import random
import sys
from fractions import Fraction as Fr

import numpy as np

import hcommon as H

H.assert_scratch_import()
from pysph.sph.wc import linalg as L  # noqa: E402

TOL = 1e-12          # the guard literal of gj_solve, as the statement quotes it
EPS = 2.0 ** -52
PAD = 7.25           # recognisable filler for cells the code must not touch
# residual bound  |A x - b|_inf <= RES_C * n^2 * eps * cond_inf(A) * |A|_inf * |x|_inf
RES_C = 64.0
# "well away from the guard": smallest singular value scale and conditioning
WELL_SINV = 1e-9
WELL_KAPPA = 1e8


# --------------------------------------------------------------------------
# exact linear algebra for the oracle

def fr_mat(A):
    return [[Fr(v) for v in row] for row in A]


def fr_inverse(A):
    """exact inverse by Gauss-Jordan with any non-zero pivot; None if singular"""
    n = len(A)
    M = [list(row) + [Fr(int(i == j)) for j in range(n)]
         for i, row in enumerate(A)]
    for c in range(n):
        p = None
        for r in range(c, n):
            if M[r][c] != 0:
                p = r
                break
        if p is None:
            return None
        M[c], M[p] = M[p], M[c]
        pv = M[c][c]
        M[c] = [v / pv for v in M[c]]
        for r in range(n):
            if r != c and M[r][c] != 0:
                f = M[r][c]
                M[r] = [a - f * b for a, b in zip(M[r], M[c])]
    return [row[n:] for row in M]


def norm_inf(A):
    return max(sum(abs(v) for v in row) for row in A) if A else Fr(0)


def needs_exchange(A):
    """does exact elimination WITHOUT row exchanges meet a pivot below the
    guard before the last column?  (classifies the failing input)"""
    n = len(A)
    M = [list(r) for r in A]
    for c in range(n - 1):
        if abs(M[c][c]) < Fr(TOL):
            return True
        for r in range(c + 1, n):
            f = M[r][c] / M[c][c]
            M[r] = [a - f * b for a, b in zip(M[r], M[c])]
    return False


# --------------------------------------------------------------------------
# generators

STYLES = ['random', 'random', 'int', 'int', 'zero-lead', 'tiny-lead',
          'perm-dd', 'scaled-all', 'scaled-rows', 'singular', 'near-singular',
          'triangular', 'zero-diag']


def rnd_entry(rng):
    return rng.uniform(-1.0, 1.0)


def gen_gj(rng, big=False):
    n = rng.choice([1, 2, 2, 3, 3, 3, 4, 4, 5, 6])
    nb = rng.choice([1, 1, 1, 2, 3, n])
    style = rng.choice(STYLES)
    A = [[rnd_entry(rng) for _ in range(n)] for _ in range(n)]
    if style == 'int':
        A = [[float(rng.randint(-3, 3)) for _ in range(n)] for _ in range(n)]
    elif style == 'zero-lead':
        A[0][0] = 0.0
        if n > 2 and rng.random() < 0.5:
            A[1][1] = 0.0
            A[1][0] = 0.0 if rng.random() < 0.3 else A[1][0]
    elif style == 'tiny-lead':
        k = rng.randrange(n)
        A[k][k] = rng.choice([-1, 1]) * 10 ** rng.uniform(-16, -7)
        if k == 0 and rng.random() < 0.5:
            A[0][0] = rng.choice([1e-13, 5e-13, 0.999e-12, 1e-12, 1.001e-12, 2e-12])
    elif style == 'perm-dd':
        for i in range(n):
            A[i][i] = rng.choice([-1, 1]) * (n + rng.uniform(0.5, 3.0))
        perm = list(range(n))
        rng.shuffle(perm)
        A = [A[p] for p in perm]
    elif style == 'scaled-all':
        s = 10 ** rng.uniform(-8, 8)
        A = [[v * s for v in row] for row in A]
    elif style == 'scaled-rows':
        rs = [10 ** rng.uniform(-4, 4) for _ in range(n)]
        cs = [10 ** rng.uniform(-4, 4) if rng.random() < 0.5 else 1.0
              for _ in range(n)]
        A = [[A[i][j] * rs[i] * cs[j] for j in range(n)] for i in range(n)]
    elif style in ('singular', 'near-singular'):
        A = [[float(rng.randint(-4, 4)) for _ in range(n)] for _ in range(n)]
        if n > 1:
            i = rng.randrange(n)
            others = [k for k in range(n) if k != i]
            co = [rng.randint(-2, 2) for _ in others]
            A[i] = [float(sum(c * A[k][j] for c, k in zip(co, others)))
                    for j in range(n)]
        else:
            A = [[0.0]]
        if style == 'near-singular':
            i, j = rng.randrange(n), rng.randrange(n)
            A[i][j] += rng.choice([-1, 1]) * 10 ** rng.uniform(-15, -6)
    elif style == 'triangular':
        up = rng.random() < 0.5
        for i in range(n):
            for j in range(n):
                if (j < i) if up else (j > i):
                    A[i][j] = 0.0
    elif style == 'zero-diag':
        for i in range(n):
            if rng.random() < 0.7:
                A[i][i] = 0.0
    if rng.random() < 0.1:
        B = [[float(i == j) for j in range(nb)] for i in range(n)]
    elif style == 'int' or rng.random() < 0.1:
        B = [[float(rng.randint(-3, 3)) for _ in range(nb)] for _ in range(n)]
    else:
        sb = 10 ** rng.uniform(-3, 3) if rng.random() < 0.3 else 1.0
        B = [[rnd_entry(rng) * sb for _ in range(nb)] for _ in range(n)]
    return {'kind': 'gj', 'style': style, 'n': n, 'nb': nb, 'A': A, 'B': B,
            'pad': rng.choice([0, 0, 1, 5])}


def gen_helper(rng):
    kind = rng.choice(['identity', 'dot', 'matmult', 'matvec', 'aug', 'aug'])
    n = rng.choice([1, 2, 3, 3, 4, 5, 6])

    def vals(k):
        z = rng.random()
        if z < 0.2:
            return [float(rng.randint(-3, 3)) for _ in range(k)]
        s = 10 ** rng.uniform(-8, 8) if z < 0.4 else 1.0
        return [rnd_entry(rng) * s for _ in range(k)]
    c = {'kind': kind, 'n': n}
    if kind == 'identity':
        c['a'] = vals(n * n + rng.choice([0, 2]))
    elif kind == 'dot':
        c['a'] = vals(n + rng.choice([0, 1]))
        c['b'] = vals(n + rng.choice([0, 1]))
    elif kind == 'matmult':
        c['a'] = vals(n * n)
        c['b'] = vals(n * n)
        c['r'] = vals(n * n + rng.choice([0, 3]))
    elif kind == 'matvec':
        c['a'] = vals(n * n)
        c['b'] = vals(n)
        c['r'] = vals(n + rng.choice([0, 2]))
    else:
        nmax = n + rng.choice([0, 0, 1, 2])
        na = rng.choice([1, 1, 2, 3, n])
        c.update(nmax=nmax, na=na, A=vals(nmax * nmax), b=vals(na * nmax),
                 r=[PAD] * ((nmax + na) * nmax))
    return c


def gen_sym(rng):
    style = rng.choice(['random', 'random', 'diagonal', 'rank1', 'rank2',
                        'repeated', 'repeated3', 'zero', 'int', 'near-diag',
                        'tiny-offdiag', 'sparsity', 'sparsity', 'zero-diag'])
    scale = rng.choice([1.0, 1.0, 10 ** rng.uniform(-8, 8), 1e-8, 1e8])

    def rot():
        q, _ = np.linalg.qr(np.array([[rng.gauss(0, 1) for _ in range(3)]
                                      for _ in range(3)]))
        return q
    if style == 'random':
        a = np.array([[rnd_entry(rng) for _ in range(3)] for _ in range(3)])
        a = a + a.T
    elif style == 'diagonal':
        a = np.diag([rnd_entry(rng) for _ in range(3)])
    elif style == 'rank1':
        v = np.array([rnd_entry(rng) for _ in range(3)])
        a = np.outer(v, v)
    elif style == 'rank2':
        v = np.array([rnd_entry(rng) for _ in range(3)])
        w = np.array([rnd_entry(rng) for _ in range(3)])
        a = np.outer(v, v) - np.outer(w, w)
    elif style == 'repeated':
        q = rot()
        lam = rnd_entry(rng)
        a = q @ np.diag([lam, lam, rnd_entry(rng)]) @ q.T
        a = (a + a.T) / 2
    elif style == 'repeated3':
        a = np.eye(3) * rnd_entry(rng)
    elif style == 'zero':
        a = np.zeros((3, 3))
    elif style in ('sparsity', 'zero-diag'):
        # every zero pattern of the six independent entries (pure shear =
        # zero diagonal, single off-diagonal pair, ...)
        pat = rng.randrange(64) if style == 'sparsity' else (rng.randrange(1, 8) << 3)
        ent = [(0, 0), (1, 1), (2, 2), (0, 1), (0, 2), (1, 2)]
        a = np.zeros((3, 3))
        for k, (i, j) in enumerate(ent):
            if pat >> k & 1:
                a[i][j] = a[j][i] = rnd_entry(rng)
    elif style == 'int':
        a = np.array([[float(rng.randint(-3, 3)) for _ in range(3)]
                      for _ in range(3)])
        a = a + a.T
    elif style == 'near-diag':
        a = np.diag([rnd_entry(rng) for _ in range(3)])
        e = np.array([[rnd_entry(rng) for _ in range(3)] for _ in range(3)])
        a = a + 10 ** rng.uniform(-16, -6) * (e + e.T)
    else:
        a = np.eye(3)
        i, j = rng.choice([(0, 1), (0, 2), (1, 2)])
        a[i][j] = a[j][i] = 10 ** rng.uniform(-12, -1)
    a = a * scale
    return {'kind': 'eig', 'style': style, 'A': [[float(v) for v in r] for r in a]}


# --------------------------------------------------------------------------
# implementation runs

def gj_arrays(case):
    n, nb = case['n'], case['nb']
    m = []
    for i in range(n):
        m += list(case['A'][i]) + list(case['B'][i])
    m += [PAD] * case.get('pad', 0)
    res = [PAD] * (n * nb + case.get('pad', 0))
    return m, res


def run_gj_impl(case, fn=None):
    m, res = gj_arrays(case)
    fn = fn or L.gj_solve
    try:
        ret = fn(m, case['n'], case['nb'], res)
    except Exception as e:      # noqa
        return {'raise': type(e).__name__}
    return {'ret': float(ret), 'res': [float(v) for v in res],
            'm': [float(v) for v in m]}


def gj_line(op, case):
    m, res = gj_arrays(case)
    return '%s tol=%s n=%d nb=%d m=%s r=%s' % (
        op, H.fbits(TOL), case['n'], case['nb'], H.flist(m), H.flist(res))


def gjq_line(case):
    m, res = gj_arrays(case)
    return 'gjq tol=%s n=%d nb=%d m=%s r=%s' % (
        H.qstr(TOL), case['n'], case['nb'], H.qlist(m), H.qlist(res))


def canon_gj(impl):
    if 'raise' in impl:
        return 'error', None
    return ('ret=%d res=%s' % (0 if impl['ret'] == 0.0 else 1,
                               H.flist(impl['res'])),
            '-' if impl['ret'] != 0.0 else H.flist(impl['m']))


def split_model_gj(line):
    """'ret=.. res=.. m=..' -> (L1 part, m part)"""
    toks = line.split(' ')
    if len(toks) != 3:
        return line, None
    return toks[0] + ' ' + toks[1], toks[2][2:]


# --------------------------------------------------------------------------
# the property's own predicate for gj_solve, on the real code

def gj_oracle(case, impl, R, stats=None):
    """evaluate the statement on what the implementation returned"""
    n, nb = case['n'], case['nb']
    A = fr_mat(case['A'])
    Ainv = fr_inverse(A)
    if 'raise' in impl:
        R.prop_fail('C13:gj:raises', case, 'gj_solve returns a value',
                    'raised ' + impl['raise'])
        return 'raise'
    ret = impl['ret']
    if Ainv is None:
        return 'singular:ret=%d' % (0 if ret == 0.0 else 1)
    nA = norm_inf(A)
    nAi = norm_inf(Ainv)
    kappa = float(nA * nAi)
    sinv = float(1 / nAi)
    well = sinv >= WELL_SINV and kappa <= WELL_KAPPA
    cls = 'needs-row-exchange' if needs_exchange(A) else 'no-exchange-needed'
    if ret != 0.0:
        if well:
            R.prop_fail('C13:gj:nonsingular-reported-singular:' + cls, case,
                        'A is non-singular (cond_inf=%.3g, 1/|A^-1|=%.3g, far '
                        'from the 1e-12 guard): gj_solve returns 0' % (kappa, sinv),
                        'returned %r' % ret)
            return 'well:ret=1'
        return 'grey:ret=1'
    # returned 0 on a non-singular matrix: residual bounded by conditioning
    worst = 0.0
    for c in range(nb):
        x = [Fr(impl['res'][nb * i + c]) if math.isfinite(impl['res'][nb * i + c])
             else None for i in range(n)]
        if any(v is None for v in x):
            R.prop_fail('C13:gj:non-finite-solution:' + cls, case,
                        'finite solution for non-singular A (cond_inf=%.3g)' % kappa,
                        'result=%r' % impl['res'])
            return 'nonfinite'
        b = [Fr(case['B'][i][c]) for i in range(n)]
        resid = max(abs(sum(A[i][j] * x[j] for j in range(n)) - b[i])
                    for i in range(n))
        nx = max(abs(v) for v in x)
        bound = Fr(RES_C * n * n * EPS) * Fr(kappa) * nA * nx
        if bound > 0:
            worst = max(worst, float(resid / bound))
        if resid > bound:
            R.prop_fail('C13:gj:residual-exceeds-conditioning-bound:' + cls, case,
                        '|A x - b|_inf <= %g*n^2*eps*cond*|A|*|x| = %.3g (cond_inf=%.3g)'
                        % (RES_C, float(bound), kappa),
                        'column %d: residual %.3g, x=%r' % (
                            c, float(resid), [float(v) for v in x]))
            return 'residual'
    if stats is not None:
        stats['worst_resid_ratio'] = max(stats.get('worst_resid_ratio', 0.0), worst)
    # cells beyond n*nb of result must be untouched
    if any(v != PAD for v in impl['res'][n * nb:]):
        R.prop_fail('C13:gj:writes-outside-result', case,
                    'result[n*nb:] untouched', repr(impl['res']))
    return ('well' if well else 'grey') + ':ret=0'


def check_gj_cases(cases, R, stats, sample_base=0, fn=None, label='py'):
    if not cases:
        return
    impls = [run_gj_impl(c, fn) for c in cases]
    lines = []
    for c in cases:
        lines += [gj_line('gj', c), gj_line('gjorig', c)]
    out = H.run_model('C13', lines)
    if len(out) != len(lines):
        raise SystemExit('model driver answered %d lines for %d' % (len(out), len(lines)))
    for k, (c, im) in enumerate(zip(cases, impls)):
        mod, modm = split_model_gj(out[2 * k])
        orig, _ = split_model_gj(out[2 * k + 1])
        got, gotm = canon_gj(im)
        if got != mod:
            R.disagree({'case': c, 'line': lines[2 * k], 'path': label}, mod, got,
                       'gj_solve return value / result (%s)' % label)
            if got == orig:
                R.count('impl-equals-pinned-algorithm-not-repaired')
        elif gotm != modm:
            R.count('L2:m-differs')
        if mod != orig:
            R.count('repair-matters')
        o = gj_oracle(c if label == 'py' else dict(c, path=label), im, R, stats)
        R.count('%s:%s' % (label, o))
        if label == 'py':
            R.count('style:' + c['style'])
            R.count('n=%d' % c['n'])
            R.count('nb=%d' % c['nb'])
        nontrivial = c['n'] >= 2
        R.case(label + json.dumps(c, sort_keys=True), nontrivial,
               {'case': c, 'impl': got, 'model': mod}
               if sample_base + k < 2 else None)
        R.d['traces_validated_against_impl'] += 1


def check_gjq(cases, R):
    """model at exact rationals against an exact solve: a self-test of the
    exact-field reading of the model (what the theorems are about)"""
    lines = [gjq_line(c) for c in cases]
    out = H.run_model('C13', lines)
    for c, ln, o in zip(cases, lines, out):
        toks = o.split(' ')
        if len(toks) != 2 or not toks[0].startswith('ret='):
            R.disagree({'case': c, 'line': ln}, o, 'ret=.. res=..', 'gjq malformed')
            continue
        ret = toks[0][4:]
        A = fr_mat(c['A'])
        Ainv = fr_inverse(A)
        if Ainv is None:
            R.count('gjq:singular:ret=' + ret)
            continue
        if ret != '0':
            R.count('gjq:nonsingular:ret=1(pivot below tol)')
            continue
        n, nb = c['n'], c['nb']
        want = []
        for i in range(n):
            for col in range(nb):
                want.append(sum(Ainv[i][j] * Fr(c['B'][j][col]) for j in range(n)))
        want += [Fr(PAD)] * c.get('pad', 0)
        if toks[1][4:] != H.qlist(want):
            R.disagree({'case': c, 'line': ln}, toks[1][4:], H.qlist(want),
                       'model at Q: returned 0 but result is not A^-1 b')
        R.count('gjq:exact-solution')


# --------------------------------------------------------------------------
# helpers

def run_helper_impl(c, mod=None):
    mod = mod or L
    k = c['kind']
    n = c['n']
    try:
        if k == 'identity':
            a = list(c['a'])
            mod.identity(a, n)
            return a
        if k == 'dot':
            return [float(mod.dot(list(c['a']), list(c['b']), n))]
        if k == 'matmult':
            r = list(c['r'])
            mod.mat_mult(list(c['a']), list(c['b']), n, r)
            return r
        if k == 'matvec':
            r = list(c['r'])
            mod.mat_vec_mult(list(c['a']), list(c['b']), n, r)
            return r
        r = list(c['r'])
        mod.augmented_matrix(list(c['A']), list(c['b']), n, c['na'], c['nmax'], r)
        return r
    except Exception as e:      # noqa
        return 'raise ' + type(e).__name__


def helper_line(c):
    k, n = c['kind'], c['n']
    if k == 'identity':
        return 'identity n=%d a=%s' % (n, H.flist(c['a']))
    if k == 'dot':
        return 'dot n=%d a=%s b=%s' % (n, H.flist(c['a']), H.flist(c['b']))
    if k == 'matmult':
        return 'matmult n=%d a=%s b=%s r=%s' % (n, H.flist(c['a']), H.flist(c['b']),
                                                H.flist(c['r']))
    if k == 'matvec':
        return 'matvec n=%d a=%s b=%s r=%s' % (n, H.flist(c['a']), H.flist(c['b']),
                                               H.flist(c['r']))
    return 'aug n=%d na=%d nmax=%d A=%s b=%s r=%s' % (
        n, c['na'], c['nmax'], H.flist(c['A']), H.flist(c['b']), H.flist(c['r']))


def sum_close(got, terms):
    """|got - sum(terms)| <= (len+1) eps sum|terms|  (exact arithmetic)"""
    ex = sum(terms)
    return abs(Fr(got) - ex) <= Fr((len(terms) + 1) * EPS) * sum(abs(t) for t in terms)


def helper_oracle(c, got, R):
    k, n = c['kind'], c['n']
    key = 'C13:helper:' + k
    if isinstance(got, str):
        R.prop_fail(key, c, 'returns', got)
        return
    if k == 'identity':
        want = [float(i == j) for i in range(n) for j in range(n)] + list(c['a'][n * n:])
        if got != want:
            R.prop_fail(key, c, 'a[:n*n] is the identity, the rest untouched: %r' % want,
                        repr(got))
    elif k == 'dot':
        if not sum_close(got[0], [Fr(c['a'][i]) * Fr(c['b'][i]) for i in range(n)]):
            R.prop_fail(key, c, 'sum a[i]*b[i] to rounding', repr(got))
    elif k == 'matmult':
        for i in range(n):
            for kk in range(n):
                t = [Fr(c['a'][n * i + j]) * Fr(c['b'][n * j + kk]) for j in range(n)]
                if not sum_close(got[n * i + kk], t):
                    R.prop_fail(key, c, '(a b)[%d][%d] = %r to rounding' % (
                        i, kk, float(sum(t))), repr(got[n * i + kk]))
                    return
        if got[n * n:] != list(c['r'][n * n:]):
            R.prop_fail(key, c, 'result[n*n:] untouched', repr(got))
    elif k == 'matvec':
        for i in range(n):
            t = [Fr(c['a'][n * i + j]) * Fr(c['b'][j]) for j in range(n)]
            if not sum_close(got[i], t):
                R.prop_fail(key, c, '(a b)[%d] = %r to rounding' % (i, float(sum(t))),
                            repr(got[i]))
                return
        if got[n:] != list(c['r'][n:]):
            R.prop_fail(key, c, 'result[n:] untouched', repr(got))
    else:
        na, nmax = c['na'], c['nmax']
        nt = n + na
        want = list(c['r'])
        for i in range(n):
            for j in range(n):
                want[nt * i + j] = c['A'][nmax * i + j]
            for j in range(na):
                want[nt * i + n + j] = c['b'][na * i + j]
        if got != want:
            R.prop_fail(key, c, '[A[:n,:n] | b[:n,:na]] row-major in the first (n+na)*n '
                        'cells, the rest untouched', repr(got))


def check_helpers(cases, R, mod=None, label='py'):
    if not cases:
        return
    impls = [run_helper_impl(c, mod) for c in cases]
    lines = [helper_line(c) for c in cases]
    out = H.run_model('C13', lines)
    if len(out) != len(lines):
        raise SystemExit('model driver answered %d lines for %d' % (len(out), len(lines)))
    for k, (c, got, ln, mo) in enumerate(zip(cases, impls, lines, out)):
        g = got if isinstance(got, str) else H.flist(got)
        if g != mo:
            R.disagree({'case': c, 'line': ln, 'path': label}, mo, g,
                       c['kind'] + ' (%s)' % label)
        helper_oracle(c if label == 'py' else dict(c, path=label), got, R)
        R.count('%s:helper:%s' % (label, c['kind']))
        R.case(label + json.dumps(c, sort_keys=True), c['n'] >= 2,
               {'case': c, 'impl': g, 'model': mo} if k < 1 and label == 'py' else None)
        R.d['traces_validated_against_impl'] += 1


# --------------------------------------------------------------------------
# transpiled path: the same functions compiled by compyle inside an Equation

_COMPILED = {}


def compiled_runner(work):
    """Build (once) an AccelerationEval around a probe equation whose
    `initialize` calls the linalg helpers on per-particle strided data."""
    if 'run' in _COMPILED:
        return _COMPILED['run']
    from compyle.api import declare
    from pysph.base.utils import get_particle_array
    from pysph.base.kernels import CubicSpline
    from pysph.base.nnps import LinkedListNNPS
    from pysph.sph.equation import Equation, Group
    from pysph.sph.acceleration_eval import AccelerationEval
    from pysph.sph.sph_compiler import SPHCompiler
    from pysph.sph.wc.linalg import (gj_solve, augmented_matrix, identity, dot,
                                     mat_mult, mat_vec_mult)

    class C13Probe(Equation):
        def _get_helpers_(self):
            return [gj_solve, augmented_matrix, identity, dot, mat_mult,
                    mat_vec_mult]

        def initialize(self, d_idx, d_op, d_n, d_nb, d_nmax, d_ma, d_mb, d_mr,
                       d_ret):
            i, n, nb, nmax, op = declare('int', 5)
            a = declare('matrix(80)')
            b = declare('matrix(64)')
            r = declare('matrix(112)')
            n = d_n[d_idx]
            nb = d_nb[d_idx]
            nmax = d_nmax[d_idx]
            op = d_op[d_idx]
            for i in range(80):
                a[i] = d_ma[80 * d_idx + i]
            for i in range(64):
                b[i] = d_mb[64 * d_idx + i]
            for i in range(112):
                r[i] = d_mr[112 * d_idx + i]
            if op == 0:
                d_ret[d_idx] = gj_solve(a, n, nb, r)
            elif op == 1:
                identity(a, n)
            elif op == 2:
                d_ret[d_idx] = dot(a, b, n)
            elif op == 3:
                mat_mult(a, b, n, r)
            elif op == 4:
                mat_vec_mult(a, b, n, r)
            elif op == 5:
                augmented_matrix(a, b, n, nb, nmax, r)
            for i in range(80):
                d_ma[80 * d_idx + i] = a[i]
            for i in range(112):
                d_mr[112 * d_idx + i] = r[i]

    def run(jobs):
        """jobs: list of (op, n, nb, nmax, a, b, r); returns list of
        (ret, a, r) after the call"""
        N = len(jobs)
        pa = get_particle_array(name='p', x=np.arange(N, dtype=float),
                                h=np.ones(N))
        for nm in ('op', 'n', 'nb', 'nmax'):
            pa.add_property(nm, type='int')
        pa.add_property('ma', stride=80)
        pa.add_property('mb', stride=64)
        pa.add_property('mr', stride=112)
        pa.add_property('ret')
        for k, (op, n, nb, nmax, a, b, r) in enumerate(jobs):
            pa.op[k], pa.n[k], pa.nb[k], pa.nmax[k] = op, n, nb, nmax
            pa.ma[80 * k:80 * k + len(a)] = a
            pa.mb[64 * k:64 * k + len(b)] = b
            pa.mr[112 * k:112 * k + len(r)] = r
            pa.ret[k] = -5.0
        if 'ae' not in _COMPILED:
            eqs = [Group(equations=[C13Probe(dest='p', sources=None)])]
            ae = AccelerationEval([pa], eqs, CubicSpline(dim=1))
            comp = SPHCompiler(ae, None)
            comp.compile()
            _COMPILED['ae'] = ae
        ae = _COMPILED['ae']
        ae.update_particle_arrays([pa])
        nn = LinkedListNNPS(dim=1, particles=[pa])
        ae.set_nnps(nn)
        ae.compute(0.0, 0.1)
        outs = []
        for k in range(N):
            outs.append((float(pa.ret[k]), [float(v) for v in pa.ma[80 * k:80 * k + 80]],
                         [float(v) for v in pa.mr[112 * k:112 * k + 112]]))
        return outs
    _COMPILED['run'] = run
    return run


def check_compiled(gj_cases, helper_cases, R, work, stats):
    """the transpiled functions against the model (bit-exact: the generated C
    performs the same IEEE operations) and against the oracle"""
    run = compiled_runner(work)
    jobs = []
    for c in gj_cases:
        m, res = gj_arrays(c)
        jobs.append((0, c['n'], c['nb'], 0, m, [], res))
    opn = {'identity': 1, 'dot': 2, 'matmult': 3, 'matvec': 4, 'aug': 5}
    for c in helper_cases:
        k = c['kind']
        if k == 'identity':
            jobs.append((1, c['n'], 0, 0, c['a'], [], []))
        elif k in ('dot',):
            jobs.append((2, c['n'], 0, 0, c['a'], c['b'], []))
        elif k in ('matmult', 'matvec'):
            jobs.append((opn[k], c['n'], 0, 0, c['a'], c['b'], c['r']))
        else:
            jobs.append((5, c['n'], c['na'], c['nmax'], c['A'], c['b'], c['r']))
    outs = run(jobs)
    gi = iter(outs[:len(gj_cases)])

    def fake_gj(m, n, nb, res):
        ret, a, r = next(gi)
        m[:] = a[:len(m)]
        res[:] = r[:len(res)]
        return ret
    check_gj_cases(gj_cases, R, stats, sample_base=99, fn=fake_gj, label='compiled')
    hi = iter(outs[len(gj_cases):])

    class FakeMod:
        @staticmethod
        def identity(a, n):
            ret, aa, r = next(hi)
            a[:] = aa[:len(a)]

        @staticmethod
        def dot(a, b, n):
            ret, aa, r = next(hi)
            return ret

        @staticmethod
        def mat_mult(a, b, n, r):
            ret, aa, rr = next(hi)
            r[:] = rr[:len(r)]

        mat_vec_mult = mat_mult

        @staticmethod
        def augmented_matrix(A, b, n, na, nmax, r):
            ret, aa, rr = next(hi)
            r[:] = rr[:len(r)]
    check_helpers(helper_cases, R, mod=FakeMod, label='compiled')


# --------------------------------------------------------------------------
# eigen-decomposition: monitored (a test, labelled as such)

EIG_TOL = 1e-13      # relative to |A|_max; orthonormality absolute


def run_eig(case):
    from pysph.base import linalg3
    a = np.array(case['A'], dtype=float)
    d, v = linalg3.py_eigen_decompose_eispack(a.copy())
    rec = linalg3.py_transform_diag_inv(np.array(d, dtype=float).copy(),
                                        np.array(v, dtype=float).copy())
    return np.array(d), np.array(v), np.array(rec)


def eig_oracle(case, R, stats):
    a = np.array(case['A'], dtype=float)
    try:
        d, v, rec = run_eig(case)
    except Exception as e:      # noqa
        R.prop_fail('C13:eig:raises', case, 'returns', type(e).__name__)
        return
    sc = float(np.max(np.abs(a)))
    key = 'C13:eig:' + case['style']
    if not (np.all(np.isfinite(d)) and np.all(np.isfinite(v))):
        R.prop_fail(key, case, 'finite d, V', 'd=%r V=%r' % (d.tolist(), v.tolist()))
        return
    orth = float(np.max(np.abs(v.T @ v - np.eye(3))))
    resid = float(np.max(np.abs(a @ v - v * d[None, :])))
    recon = float(np.max(np.abs(rec - a)))
    stats['eig_orth'] = max(stats.get('eig_orth', 0.0), orth)
    if sc > 0:
        stats['eig_resid'] = max(stats.get('eig_resid', 0.0), resid / sc)
        stats['eig_recon'] = max(stats.get('eig_recon', 0.0), recon / sc)
    if orth > EIG_TOL:
        R.prop_fail(key, case, 'V^T V = I within %g' % EIG_TOL,
                    'max|V^T V - I| = %.3g, V=%r' % (orth, v.tolist()))
    elif resid > EIG_TOL * sc:
        R.prop_fail(key, case, 'A V = V diag(d) within %g |A|' % EIG_TOL,
                    'max|A V - V d| = %.3g (|A| = %.3g), d=%r' % (resid, sc, d.tolist()))
    elif recon > EIG_TOL * sc:
        R.prop_fail('C13:eig:transform_diag_inv', case,
                    'py_transform_diag_inv(d, V) = A within %g |A|' % EIG_TOL,
                    'max diff %.3g' % recon)
    R.count('eig:' + case['style'])
    R.case(json.dumps(case, sort_keys=True), sc > 0, None)


# --------------------------------------------------------------------------

def corpus():
    """minimised past failures; always run first"""
    g = lambda A, B, style: {'kind': 'gj', 'style': style, 'n': len(A),  # noqa
                             'nb': len(B[0]), 'A': A, 'B': B, 'pad': 0}
    return [
        # F5: a zero leading pivot needs a row exchange
        g([[0.0, 1.0], [1.0, 0.0]], [[1.0], [2.0]], 'zero-lead'),
        g([[0.0, 2.0, 1.0], [1.0, 1.0, 0.0], [3.0, 0.0, 1.0]],
          [[1.0, 0.0], [0.0, 1.0], [2.0, 2.0]], 'zero-lead'),
        # a zero pivot that only appears after the first elimination step
        g([[1.0, 1.0, 0.0], [1.0, 1.0, 1.0], [0.0, 1.0, 1.0]],
          [[1.0], [2.0], [3.0]], 'int'),
        # tiny but accepted leading pivot: growth without a row exchange
        g([[1e-10, 1.0], [1.0, 1.0]], [[1.0], [2.0]], 'tiny-lead'),
        # singular
        g([[1.0, 1.0, 0.0], [1.0, 1.0, 0.0], [1.0, 1.0, 1.0]],
          [[1.0], [1.0], [1.0]], 'singular'),
        g([[2.0]], [[3.0, 4.0]], 'random'),
        g([[0.0]], [[1.0]], 'singular'),
    ]


def replay_case(case, R, work):
    stats = {}
    k = case.get('kind')
    compiled = case.get('path') == 'compiled'
    case = {kk: v for kk, v in case.items() if kk != 'path'}
    if k == 'eig':
        eig_oracle(case, R, stats)
    elif compiled:
        check_compiled([case] if k == 'gj' else [], [] if k == 'gj' else [case], R,
                       work, stats)
    elif k == 'gj':
        check_gj_cases([case], R, stats, 0)
    else:
        check_helpers([case], R)


def main():
    a = H.args()
    R = H.Result(
        'cases = gj_solve systems (n=1..6, nb=1..n, 13 styles: random, small-integer, '
        'zero/tiny leading pivot, permuted diagonally dominant, scaled 1e-8..1e8, '
        'row/column scaled, singular, near-singular, triangular, zero diagonal) run '
        'through the Python function and through the transpiled function; helper calls '
        '(identity, dot, mat_mult, mat_vec_mult, augmented_matrix with nmax>=n); '
        'symmetric 3x3 matrices for the monitored eigen-solver; distinct = distinct '
        'case JSON per path; non-trivial = n >= 2 (gj, helpers) / non-zero matrix (eig)')
    if a.replay:
        rp = json.load(open(a.replay))
        replay_case(rp['case'], R, a.work)
        print(json.dumps(R.d['property_failures'], indent=1)[:6000])
        sys.exit(1 if R.d['property_failures'] else 0)
    quick = a.tier == 'quick'
    stats = {}
    rng = random.Random(a.seed * 7919 + 13)
    check_gj_cases(corpus(), R, stats, 99)
    R.count('corpus', len(corpus()))
    ngj = 1500 if quick else 20000
    cases = [gen_gj(rng) for _ in range(ngj)]
    for i in range(0, ngj, 2000):
        check_gj_cases(cases[i:i + 2000], R, stats, i)
    # exact-rational run of the model (small cases keep the rationals short)
    qc = [c for c in corpus() + cases if c['n'] <= 4][:150 if quick else 1500]
    check_gjq(qc, R)
    hc = [gen_helper(rng) for _ in range(400 if quick else 5000)]
    check_helpers(hc, R)
    # transpiled path
    try:
        ncomp = 300 if quick else 4000
        check_compiled(corpus() + cases[:ncomp], hc[:200 if quick else 2000], R,
                       a.work, stats)
    except SystemExit:
        raise
    except Exception as e:      # noqa
        import traceback
        traceback.print_exc()
        raise SystemExit('transpiled path could not be built/run: %r' % (e,))
    # monitored eigen-solver
    rng3 = random.Random(a.seed * 104729 + 3)
    for _ in range(2000 if quick else 40000):
        eig_oracle(gen_sym(rng3), R, stats)
    if a.broken or R.d['disagreements']:
        rng2 = random.Random(a.seed + 12345)
        before = len(R.d['property_failures'])
        extra = [gen_gj(rng2) for _ in range(6000)]
        R2 = R
        for c in extra:
            im = run_gj_impl(c)
            gj_oracle(c, im, R2, stats)
        R.d['search'] = {'extra_cases': 6000, 'aimed_at': 'gj_solve on the real code',
                         'found': len(R.d['property_failures']) - before}
    R.note('measured on this run: %s' % json.dumps(stats))
    R.note('eigen-decomposition (linalg3.pyx) is MONITORED by test on generated '
           'symmetric matrices, not carried by proof')
    R.write(a.out)


if __name__ == '__main__':
    main()
