"""C13 correspondence + property oracle: small dense linear algebra.

impl : pysph.sph.wc.linalg  gj_solve / identity / dot / mat_mult / mat_vec_mult /
       augmented_matrix  (plain Python, scratch build of the repo) and the same
       functions transpiled by compyle inside a probe Equation (compiled path);
       pysph.base.linalg3  py_eigen_decompose_eispack (= eigen_decomposition, the
       routine solid_mech cimports), py_get_eigenvalues, py_get_eigenvalvec,
       py_transform_diag_inv, run in child processes (a hang or crash of the
       real code costs one case); tred2 / tql2 alone through a module that
       textually includes the tree's linalg3.pyx and adds two wrappers
model: lean PysphVerif.Model.GaussJordan at Float (bit-exact comparison) and at
       exact rationals (self-test of the exact-field reading the theorems use);
       lean PysphVerif.Model.Eigen3 at Float: eigen_decomposition, tred2, tql2,
       get_eigenvalvec (dispatch from the eigenvalue triple of the real
       py_get_eigenvalues), transform_diag_inv -- V and d compared BIT FOR BIT
oracle: exact rational linear algebra (fractions.Fraction) written here,
       independent of model and code:  A non-singular and well away from the
       1e-12 guard  =>  gj_solve returns 0;  returned solutions satisfy
       |A x - b| <= C n^2 eps cond(A) |A| |x|;  helpers equal their definitions.
       Eigen: finite, V^T V = I, A V = V diag d, V diag d V^T = A within 1e-13
       |A|, no exception, on what the REAL code returned.
replays: theorems tred2_orthogonal_tridiagonal, tql2_decomposition (with the
       dropped entries the model reports) and eig_scaling (c = 2^k) evaluated
       on the outputs of the real code.
"""
import json
import math
import random
import sys
from fractions import Fraction as Fr

import numpy as np

import hcommon as H

H.assert_scratch_import()
from pysph.sph.wc import linalg as L  # noqa: E402

TOL = 1e-12          # the guard literal of gj_solve, as the statement quotes it
EPS = 2.0 ** -52
PAD = 7.25           # recognisable filler for cells the code must not touch
# residual bound  |A x - b|_inf <= RES_C * n^2 * eps * cond_inf(A) * |A|_inf * |x|_inf
RES_C = 64.0
# "well away from the guard": smallest singular value scale and conditioning
WELL_SINV = 1e-9
WELL_KAPPA = 1e8


# --------------------------------------------------------------------------
# exact linear algebra for the oracle

def fr_mat(A):
    return [[Fr(v) for v in row] for row in A]


def fr_inverse(A):
    """exact inverse by Gauss-Jordan with any non-zero pivot; None if singular"""
    n = len(A)
    M = [list(row) + [Fr(int(i == j)) for j in range(n)]
         for i, row in enumerate(A)]
    for c in range(n):
        p = None
        for r in range(c, n):
            if M[r][c] != 0:
                p = r
                break
        if p is None:
            return None
        M[c], M[p] = M[p], M[c]
        pv = M[c][c]
        M[c] = [v / pv for v in M[c]]
        for r in range(n):
            if r != c and M[r][c] != 0:
                f = M[r][c]
                M[r] = [a - f * b for a, b in zip(M[r], M[c])]
    return [row[n:] for row in M]


def norm_inf(A):
    return max(sum(abs(v) for v in row) for row in A) if A else Fr(0)


def needs_exchange(A):
    """does exact elimination WITHOUT row exchanges meet a pivot below the
    guard before the last column?  (classifies the failing input)"""
    n = len(A)
    M = [list(r) for r in A]
    for c in range(n - 1):
        if abs(M[c][c]) < Fr(TOL):
            return True
        for r in range(c + 1, n):
            f = M[r][c] / M[c][c]
            M[r] = [a - f * b for a, b in zip(M[r], M[c])]
    return False


# --------------------------------------------------------------------------
# generators

STYLES = ['random', 'random', 'int', 'int', 'zero-lead', 'tiny-lead',
          'perm-dd', 'scaled-all', 'scaled-rows', 'singular', 'near-singular',
          'triangular', 'zero-diag']


def rnd_entry(rng):
    return rng.uniform(-1.0, 1.0)


def gen_gj(rng, big=False):
    n = rng.choice([1, 2, 2, 3, 3, 3, 4, 4, 5, 6])
    nb = rng.choice([1, 1, 1, 2, 3, n])
    style = rng.choice(STYLES)
    A = [[rnd_entry(rng) for _ in range(n)] for _ in range(n)]
    if style == 'int':
        A = [[float(rng.randint(-3, 3)) for _ in range(n)] for _ in range(n)]
    elif style == 'zero-lead':
        A[0][0] = 0.0
        if n > 2 and rng.random() < 0.5:
            A[1][1] = 0.0
            A[1][0] = 0.0 if rng.random() < 0.3 else A[1][0]
    elif style == 'tiny-lead':
        k = rng.randrange(n)
        A[k][k] = rng.choice([-1, 1]) * 10 ** rng.uniform(-16, -7)
        if k == 0 and rng.random() < 0.5:
            A[0][0] = rng.choice([1e-13, 5e-13, 0.999e-12, 1e-12, 1.001e-12, 2e-12])
    elif style == 'perm-dd':
        for i in range(n):
            A[i][i] = rng.choice([-1, 1]) * (n + rng.uniform(0.5, 3.0))
        perm = list(range(n))
        rng.shuffle(perm)
        A = [A[p] for p in perm]
    elif style == 'scaled-all':
        s = 10 ** rng.uniform(-8, 8)
        A = [[v * s for v in row] for row in A]
    elif style == 'scaled-rows':
        rs = [10 ** rng.uniform(-4, 4) for _ in range(n)]
        cs = [10 ** rng.uniform(-4, 4) if rng.random() < 0.5 else 1.0
              for _ in range(n)]
        A = [[A[i][j] * rs[i] * cs[j] for j in range(n)] for i in range(n)]
    elif style in ('singular', 'near-singular'):
        A = [[float(rng.randint(-4, 4)) for _ in range(n)] for _ in range(n)]
        if n > 1:
            i = rng.randrange(n)
            others = [k for k in range(n) if k != i]
            co = [rng.randint(-2, 2) for _ in others]
            A[i] = [float(sum(c * A[k][j] for c, k in zip(co, others)))
                    for j in range(n)]
        else:
            A = [[0.0]]
        if style == 'near-singular':
            i, j = rng.randrange(n), rng.randrange(n)
            A[i][j] += rng.choice([-1, 1]) * 10 ** rng.uniform(-15, -6)
    elif style == 'triangular':
        up = rng.random() < 0.5
        for i in range(n):
            for j in range(n):
                if (j < i) if up else (j > i):
                    A[i][j] = 0.0
    elif style == 'zero-diag':
        for i in range(n):
            if rng.random() < 0.7:
                A[i][i] = 0.0
    if rng.random() < 0.1:
        B = [[float(i == j) for j in range(nb)] for i in range(n)]
    elif style == 'int' or rng.random() < 0.1:
        B = [[float(rng.randint(-3, 3)) for _ in range(nb)] for _ in range(n)]
    else:
        sb = 10 ** rng.uniform(-3, 3) if rng.random() < 0.3 else 1.0
        B = [[rnd_entry(rng) * sb for _ in range(nb)] for _ in range(n)]
    return {'kind': 'gj', 'style': style, 'n': n, 'nb': nb, 'A': A, 'B': B,
            'pad': rng.choice([0, 0, 1, 5])}


def gen_helper(rng):
    kind = rng.choice(['identity', 'dot', 'matmult', 'matvec', 'aug', 'aug'])
    n = rng.choice([1, 2, 3, 3, 4, 5, 6])

    def vals(k):
        z = rng.random()
        if z < 0.2:
            return [float(rng.randint(-3, 3)) for _ in range(k)]
        s = 10 ** rng.uniform(-8, 8) if z < 0.4 else 1.0
        return [rnd_entry(rng) * s for _ in range(k)]
    c = {'kind': kind, 'n': n}
    if kind == 'identity':
        c['a'] = vals(n * n + rng.choice([0, 2]))
    elif kind == 'dot':
        c['a'] = vals(n + rng.choice([0, 1]))
        c['b'] = vals(n + rng.choice([0, 1]))
    elif kind == 'matmult':
        c['a'] = vals(n * n)
        c['b'] = vals(n * n)
        c['r'] = vals(n * n + rng.choice([0, 3]))
    elif kind == 'matvec':
        c['a'] = vals(n * n)
        c['b'] = vals(n)
        c['r'] = vals(n + rng.choice([0, 2]))
    else:
        nmax = n + rng.choice([0, 0, 1, 2])
        na = rng.choice([1, 1, 2, 3, n])
        c.update(nmax=nmax, na=na, A=vals(nmax * nmax), b=vals(na * nmax),
                 r=[PAD] * ((nmax + na) * nmax))
    return c


SYM_STYLES = ['random', 'random', 'diagonal', 'rank1', 'rank2',
              'repeated', 'repeated3', 'zero', 'int', 'near-diag',
              'tiny-offdiag', 'sparsity', 'sparsity', 'zero-diag',
              'shear-cancel', 'shear-cancel', 'tridiag', 'zero-row', 'block2',
              'block2b', 'pow2', 'extreme', 'graded', 'graded']


def gen_sym(rng, style=None):
    style = style or rng.choice(SYM_STYLES)
    scale = rng.choice([1.0, 1.0, 10 ** rng.uniform(-8, 8), 1e-8, 1e8])

    def rot():
        q, _ = np.linalg.qr(np.array([[rng.gauss(0, 1) for _ in range(3)]
                                      for _ in range(3)]))
        return q

    def sym_random():
        m = np.array([[rnd_entry(rng) for _ in range(3)] for _ in range(3)])
        return m + m.T
    if style == 'random':
        a = sym_random()
    elif style == 'diagonal':
        a = np.diag([rnd_entry(rng) for _ in range(3)])
    elif style == 'rank1':
        v = np.array([rnd_entry(rng) for _ in range(3)])
        a = np.outer(v, v)
    elif style == 'rank2':
        v = np.array([rnd_entry(rng) for _ in range(3)])
        w = np.array([rnd_entry(rng) for _ in range(3)])
        a = np.outer(v, v) - np.outer(w, w)
    elif style == 'repeated':
        q = rot()
        lam = rnd_entry(rng)
        a = q @ np.diag([lam, lam, rnd_entry(rng)]) @ q.T
        a = (a + a.T) / 2
    elif style == 'repeated3':
        a = np.eye(3) * rnd_entry(rng)
    elif style == 'zero':
        a = np.zeros((3, 3))
    elif style in ('sparsity', 'zero-diag'):
        # every zero pattern of the six independent entries (pure shear =
        # zero diagonal, single off-diagonal pair, ...)
        pat = rng.randrange(64) if style == 'sparsity' else (rng.randrange(1, 8) << 3)
        ent = [(0, 0), (1, 1), (2, 2), (0, 1), (0, 2), (1, 2)]
        a = np.zeros((3, 3))
        for k, (i, j) in enumerate(ent):
            if pat >> k & 1:
                a[i][j] = a[j][i] = rnd_entry(rng)
    elif style == 'int':
        a = np.array([[float(rng.randint(-3, 3)) for _ in range(3)]
                      for _ in range(3)])
        a = a + a.T
    elif style == 'near-diag':
        a = np.diag([rnd_entry(rng) for _ in range(3)])
        e = np.array([[rnd_entry(rng) for _ in range(3)] for _ in range(3)])
        a = a + 10 ** rng.uniform(-16, -6) * (e + e.T)
    elif style == 'tiny-offdiag':
        a = np.eye(3)
        i, j = rng.choice([(0, 1), (0, 2), (1, 2)])
        a[i][j] = a[j][i] = 10 ** rng.uniform(-12, -1)
    elif style == 'shear-cancel':
        # off-diagonal entries that cancel in a plain sum: A[2][0] == -A[2][1]
        # (tred2 forms scale = |A20| + |A21| from the last row), also with a
        # zero or arbitrary diagonal and with A[1][0] = -A[2][0]
        a = sym_random() if rng.random() < 0.6 else np.zeros((3, 3))
        t = rnd_entry(rng) or 0.5
        a[2][0] = a[0][2] = t
        a[2][1] = a[1][2] = -t
        k = rng.randrange(4)
        if k == 0:
            a[1][0] = a[0][1] = -t
        elif k == 1:
            a[1][0] = a[0][1] = 0.0
        elif k == 2:
            a[1][0] = a[0][1] = t
    elif style == 'tridiag':
        # already tridiagonal: A[2][0] = 0
        a = sym_random()
        a[2][0] = a[0][2] = 0.0
        if rng.random() < 0.3:
            a[1][0] = a[0][1] = 0.0
    elif style == 'zero-row':
        a = sym_random()
        k = rng.randrange(3)
        a[k, :] = 0.0
        a[:, k] = 0.0
    elif style == 'block2':
        # coupled leading 2x2 block, decoupled third direction (plane strain)
        a = sym_random()
        a[2][0] = a[0][2] = a[2][1] = a[1][2] = 0.0
    elif style == 'block2b':
        a = sym_random()
        a[1][0] = a[0][1] = a[2][0] = a[0][2] = 0.0
    elif style == 'pow2':
        a = np.array([[float(rng.randint(-9, 9)) for _ in range(3)]
                      for _ in range(3)])
        a = (a + a.T) * 2.0 ** rng.randint(-60, 60)
        scale = 1.0
    elif style == 'extreme':
        a = sym_random() if rng.random() < 0.7 else np.diag(
            [rnd_entry(rng) for _ in range(3)]) + 1e-3 * sym_random()
        scale = 10.0 ** rng.choice([-290, -200, -150, -100, -30, 30, 100, 150,
                                    200, 290])
    else:       # graded: entries of very different magnitude inside one matrix
        a = np.zeros((3, 3))
        for (i, j) in [(0, 0), (1, 1), (2, 2), (0, 1), (0, 2), (1, 2)]:
            r = rng.random()
            if r < 0.25:
                v = 0.0
            elif r < 0.5:
                v = rnd_entry(rng)
            else:
                v = rng.choice([-1.0, 1.0]) * rng.uniform(1, 9.99) * \
                    10.0 ** rng.randint(-290, -1)
            a[i][j] = a[j][i] = v
        scale = 1.0
    a = a * scale
    return {'kind': 'eig', 'style': style, 'A': [[float(v) for v in r] for r in a]}


# --------------------------------------------------------------------------
# implementation runs

def gj_arrays(case):
    n, nb = case['n'], case['nb']
    m = []
    for i in range(n):
        m += list(case['A'][i]) + list(case['B'][i])
    m += [PAD] * case.get('pad', 0)
    res = [PAD] * (n * nb + case.get('pad', 0))
    return m, res


def run_gj_impl(case, fn=None):
    m, res = gj_arrays(case)
    fn = fn or L.gj_solve
    try:
        ret = fn(m, case['n'], case['nb'], res)
    except Exception as e:      # noqa
        return {'raise': type(e).__name__}
    return {'ret': float(ret), 'res': [float(v) for v in res],
            'm': [float(v) for v in m]}


def gj_line(op, case):
    m, res = gj_arrays(case)
    return '%s tol=%s n=%d nb=%d m=%s r=%s' % (
        op, H.fbits(TOL), case['n'], case['nb'], H.flist(m), H.flist(res))


def gjq_line(case):
    m, res = gj_arrays(case)
    return 'gjq tol=%s n=%d nb=%d m=%s r=%s' % (
        H.qstr(TOL), case['n'], case['nb'], H.qlist(m), H.qlist(res))


def canon_gj(impl):
    if 'raise' in impl:
        return 'error', None
    return ('ret=%d res=%s' % (0 if impl['ret'] == 0.0 else 1,
                               H.flist(impl['res'])),
            '-' if impl['ret'] != 0.0 else H.flist(impl['m']))


def split_model_gj(line):
    """'ret=.. res=.. m=..' -> (L1 part, m part)"""
    toks = line.split(' ')
    if len(toks) != 3:
        return line, None
    return toks[0] + ' ' + toks[1], toks[2][2:]


# --------------------------------------------------------------------------
# the property's own predicate for gj_solve, on the real code

def gj_oracle(case, impl, R, stats=None):
    """evaluate the statement on what the implementation returned"""
    n, nb = case['n'], case['nb']
    A = fr_mat(case['A'])
    Ainv = fr_inverse(A)
    if 'raise' in impl:
        R.prop_fail('C13:gj:raises', case, 'gj_solve returns a value',
                    'raised ' + impl['raise'])
        return 'raise'
    ret = impl['ret']
    if Ainv is None:
        return 'singular:ret=%d' % (0 if ret == 0.0 else 1)
    nA = norm_inf(A)
    nAi = norm_inf(Ainv)
    kappa = float(nA * nAi)
    sinv = float(1 / nAi)
    well = sinv >= WELL_SINV and kappa <= WELL_KAPPA
    cls = 'needs-row-exchange' if needs_exchange(A) else 'no-exchange-needed'
    if ret != 0.0:
        if well:
            R.prop_fail('C13:gj:nonsingular-reported-singular:' + cls, case,
                        'A is non-singular (cond_inf=%.3g, 1/|A^-1|=%.3g, far '
                        'from the 1e-12 guard): gj_solve returns 0' % (kappa, sinv),
                        'returned %r' % ret)
            return 'well:ret=1'
        return 'grey:ret=1'
    # returned 0 on a non-singular matrix: residual bounded by conditioning
    worst = 0.0
    for c in range(nb):
        x = [Fr(impl['res'][nb * i + c]) if math.isfinite(impl['res'][nb * i + c])
             else None for i in range(n)]
        if any(v is None for v in x):
            R.prop_fail('C13:gj:non-finite-solution:' + cls, case,
                        'finite solution for non-singular A (cond_inf=%.3g)' % kappa,
                        'result=%r' % impl['res'])
            return 'nonfinite'
        b = [Fr(case['B'][i][c]) for i in range(n)]
        resid = max(abs(sum(A[i][j] * x[j] for j in range(n)) - b[i])
                    for i in range(n))
        nx = max(abs(v) for v in x)
        bound = Fr(RES_C * n * n * EPS) * Fr(kappa) * nA * nx
        if bound > 0:
            worst = max(worst, float(resid / bound))
        if resid > bound:
            R.prop_fail('C13:gj:residual-exceeds-conditioning-bound:' + cls, case,
                        '|A x - b|_inf <= %g*n^2*eps*cond*|A|*|x| = %.3g (cond_inf=%.3g)'
                        % (RES_C, float(bound), kappa),
                        'column %d: residual %.3g, x=%r' % (
                            c, float(resid), [float(v) for v in x]))
            return 'residual'
    if stats is not None:
        stats['worst_resid_ratio'] = max(stats.get('worst_resid_ratio', 0.0), worst)
    # cells beyond n*nb of result must be untouched
    if any(v != PAD for v in impl['res'][n * nb:]):
        R.prop_fail('C13:gj:writes-outside-result', case,
                    'result[n*nb:] untouched', repr(impl['res']))
    return ('well' if well else 'grey') + ':ret=0'


def check_gj_cases(cases, R, stats, sample_base=0, fn=None, label='py'):
    if not cases:
        return
    impls = [run_gj_impl(c, fn) for c in cases]
    lines = []
    for c in cases:
        lines += [gj_line('gj', c), gj_line('gjorig', c)]
    out = H.run_model('C13', lines)
    if len(out) != len(lines):
        raise SystemExit('model driver answered %d lines for %d' % (len(out), len(lines)))
    for k, (c, im) in enumerate(zip(cases, impls)):
        mod, modm = split_model_gj(out[2 * k])
        orig, _ = split_model_gj(out[2 * k + 1])
        got, gotm = canon_gj(im)
        if got != mod:
            R.disagree({'case': c, 'line': lines[2 * k], 'path': label}, mod, got,
                       'gj_solve return value / result (%s)' % label)
            if got == orig:
                R.count('impl-equals-pinned-algorithm-not-repaired')
        elif gotm != modm:
            R.count('L2:m-differs')
        if mod != orig:
            R.count('repair-matters')
        o = gj_oracle(c if label == 'py' else dict(c, path=label), im, R, stats)
        R.count('%s:%s' % (label, o))
        if label == 'py':
            R.count('style:' + c['style'])
            R.count('n=%d' % c['n'])
            R.count('nb=%d' % c['nb'])
        nontrivial = c['n'] >= 2
        R.case(label + json.dumps(c, sort_keys=True), nontrivial,
               {'case': c, 'impl': got, 'model': mod}
               if sample_base + k < 2 else None)
        R.d['traces_validated_against_impl'] += 1


def check_gjq(cases, R):
    """model at exact rationals against an exact solve: a self-test of the
    exact-field reading of the model (what the theorems are about)"""
    lines = [gjq_line(c) for c in cases]
    out = H.run_model('C13', lines)
    for c, ln, o in zip(cases, lines, out):
        toks = o.split(' ')
        if len(toks) != 2 or not toks[0].startswith('ret='):
            R.disagree({'case': c, 'line': ln}, o, 'ret=.. res=..', 'gjq malformed')
            continue
        ret = toks[0][4:]
        A = fr_mat(c['A'])
        Ainv = fr_inverse(A)
        if Ainv is None:
            R.count('gjq:singular:ret=' + ret)
            continue
        if ret != '0':
            R.count('gjq:nonsingular:ret=1(pivot below tol)')
            continue
        n, nb = c['n'], c['nb']
        want = []
        for i in range(n):
            for col in range(nb):
                want.append(sum(Ainv[i][j] * Fr(c['B'][j][col]) for j in range(n)))
        want += [Fr(PAD)] * c.get('pad', 0)
        if toks[1][4:] != H.qlist(want):
            R.disagree({'case': c, 'line': ln}, toks[1][4:], H.qlist(want),
                       'model at Q: returned 0 but result is not A^-1 b')
        R.count('gjq:exact-solution')


# --------------------------------------------------------------------------
# helpers

def run_helper_impl(c, mod=None):
    mod = mod or L
    k = c['kind']
    n = c['n']
    try:
        if k == 'identity':
            a = list(c['a'])
            mod.identity(a, n)
            return a
        if k == 'dot':
            return [float(mod.dot(list(c['a']), list(c['b']), n))]
        if k == 'matmult':
            r = list(c['r'])
            mod.mat_mult(list(c['a']), list(c['b']), n, r)
            return r
        if k == 'matvec':
            r = list(c['r'])
            mod.mat_vec_mult(list(c['a']), list(c['b']), n, r)
            return r
        r = list(c['r'])
        mod.augmented_matrix(list(c['A']), list(c['b']), n, c['na'], c['nmax'], r)
        return r
    except Exception as e:      # noqa
        return 'raise ' + type(e).__name__


def helper_line(c):
    k, n = c['kind'], c['n']
    if k == 'identity':
        return 'identity n=%d a=%s' % (n, H.flist(c['a']))
    if k == 'dot':
        return 'dot n=%d a=%s b=%s' % (n, H.flist(c['a']), H.flist(c['b']))
    if k == 'matmult':
        return 'matmult n=%d a=%s b=%s r=%s' % (n, H.flist(c['a']), H.flist(c['b']),
                                                H.flist(c['r']))
    if k == 'matvec':
        return 'matvec n=%d a=%s b=%s r=%s' % (n, H.flist(c['a']), H.flist(c['b']),
                                               H.flist(c['r']))
    return 'aug n=%d na=%d nmax=%d A=%s b=%s r=%s' % (
        n, c['na'], c['nmax'], H.flist(c['A']), H.flist(c['b']), H.flist(c['r']))


def sum_close(got, terms):
    """|got - sum(terms)| <= (len+1) eps sum|terms|  (exact arithmetic)"""
    ex = sum(terms)
    return abs(Fr(got) - ex) <= Fr((len(terms) + 1) * EPS) * sum(abs(t) for t in terms)


def helper_oracle(c, got, R):
    k, n = c['kind'], c['n']
    key = 'C13:helper:' + k
    if isinstance(got, str):
        R.prop_fail(key, c, 'returns', got)
        return
    if k == 'identity':
        want = [float(i == j) for i in range(n) for j in range(n)] + list(c['a'][n * n:])
        if got != want:
            R.prop_fail(key, c, 'a[:n*n] is the identity, the rest untouched: %r' % want,
                        repr(got))
    elif k == 'dot':
        if not sum_close(got[0], [Fr(c['a'][i]) * Fr(c['b'][i]) for i in range(n)]):
            R.prop_fail(key, c, 'sum a[i]*b[i] to rounding', repr(got))
    elif k == 'matmult':
        for i in range(n):
            for kk in range(n):
                t = [Fr(c['a'][n * i + j]) * Fr(c['b'][n * j + kk]) for j in range(n)]
                if not sum_close(got[n * i + kk], t):
                    R.prop_fail(key, c, '(a b)[%d][%d] = %r to rounding' % (
                        i, kk, float(sum(t))), repr(got[n * i + kk]))
                    return
        if got[n * n:] != list(c['r'][n * n:]):
            R.prop_fail(key, c, 'result[n*n:] untouched', repr(got))
    elif k == 'matvec':
        for i in range(n):
            t = [Fr(c['a'][n * i + j]) * Fr(c['b'][j]) for j in range(n)]
            if not sum_close(got[i], t):
                R.prop_fail(key, c, '(a b)[%d] = %r to rounding' % (i, float(sum(t))),
                            repr(got[i]))
                return
        if got[n:] != list(c['r'][n:]):
            R.prop_fail(key, c, 'result[n:] untouched', repr(got))
    else:
        na, nmax = c['na'], c['nmax']
        nt = n + na
        want = list(c['r'])
        for i in range(n):
            for j in range(n):
                want[nt * i + j] = c['A'][nmax * i + j]
            for j in range(na):
                want[nt * i + n + j] = c['b'][na * i + j]
        if got != want:
            R.prop_fail(key, c, '[A[:n,:n] | b[:n,:na]] row-major in the first (n+na)*n '
                        'cells, the rest untouched', repr(got))


def check_helpers(cases, R, mod=None, label='py'):
    if not cases:
        return
    impls = [run_helper_impl(c, mod) for c in cases]
    lines = [helper_line(c) for c in cases]
    out = H.run_model('C13', lines)
    if len(out) != len(lines):
        raise SystemExit('model driver answered %d lines for %d' % (len(out), len(lines)))
    for k, (c, got, ln, mo) in enumerate(zip(cases, impls, lines, out)):
        g = got if isinstance(got, str) else H.flist(got)
        if g != mo:
            R.disagree({'case': c, 'line': ln, 'path': label}, mo, g,
                       c['kind'] + ' (%s)' % label)
        helper_oracle(c if label == 'py' else dict(c, path=label), got, R)
        R.count('%s:helper:%s' % (label, c['kind']))
        R.case(label + json.dumps(c, sort_keys=True), c['n'] >= 2,
               {'case': c, 'impl': g, 'model': mo} if k < 1 and label == 'py' else None)
        R.d['traces_validated_against_impl'] += 1


# --------------------------------------------------------------------------
# transpiled path: the same functions compiled by compyle inside an Equation

_COMPILED = {}


def compiled_runner(work):
    """Build (once) an AccelerationEval around a probe equation whose
    `initialize` calls the linalg helpers on per-particle strided data."""
    if 'run' in _COMPILED:
        return _COMPILED['run']
    from compyle.api import declare
    from pysph.base.utils import get_particle_array
    from pysph.base.kernels import CubicSpline
    from pysph.base.nnps import LinkedListNNPS
    from pysph.sph.equation import Equation, Group
    from pysph.sph.acceleration_eval import AccelerationEval
    from pysph.sph.sph_compiler import SPHCompiler
    from pysph.sph.wc.linalg import (gj_solve, augmented_matrix, identity, dot,
                                     mat_mult, mat_vec_mult)

    class C13Probe(Equation):
        def _get_helpers_(self):
            return [gj_solve, augmented_matrix, identity, dot, mat_mult,
                    mat_vec_mult]

        def initialize(self, d_idx, d_op, d_n, d_nb, d_nmax, d_ma, d_mb, d_mr,
                       d_ret):
            i, n, nb, nmax, op = declare('int', 5)
            a = declare('matrix(80)')
            b = declare('matrix(64)')
            r = declare('matrix(112)')
            n = d_n[d_idx]
            nb = d_nb[d_idx]
            nmax = d_nmax[d_idx]
            op = d_op[d_idx]
            for i in range(80):
                a[i] = d_ma[80 * d_idx + i]
            for i in range(64):
                b[i] = d_mb[64 * d_idx + i]
            for i in range(112):
                r[i] = d_mr[112 * d_idx + i]
            if op == 0:
                d_ret[d_idx] = gj_solve(a, n, nb, r)
            elif op == 1:
                identity(a, n)
            elif op == 2:
                d_ret[d_idx] = dot(a, b, n)
            elif op == 3:
                mat_mult(a, b, n, r)
            elif op == 4:
                mat_vec_mult(a, b, n, r)
            elif op == 5:
                augmented_matrix(a, b, n, nb, nmax, r)
            for i in range(80):
                d_ma[80 * d_idx + i] = a[i]
            for i in range(112):
                d_mr[112 * d_idx + i] = r[i]

    def run(jobs):
        """jobs: list of (op, n, nb, nmax, a, b, r); returns list of
        (ret, a, r) after the call"""
        N = len(jobs)
        pa = get_particle_array(name='p', x=np.arange(N, dtype=float),
                                h=np.ones(N))
        for nm in ('op', 'n', 'nb', 'nmax'):
            pa.add_property(nm, type='int')
        pa.add_property('ma', stride=80)
        pa.add_property('mb', stride=64)
        pa.add_property('mr', stride=112)
        pa.add_property('ret')
        for k, (op, n, nb, nmax, a, b, r) in enumerate(jobs):
            pa.op[k], pa.n[k], pa.nb[k], pa.nmax[k] = op, n, nb, nmax
            pa.ma[80 * k:80 * k + len(a)] = a
            pa.mb[64 * k:64 * k + len(b)] = b
            pa.mr[112 * k:112 * k + len(r)] = r
            pa.ret[k] = -5.0
        if 'ae' not in _COMPILED:
            eqs = [Group(equations=[C13Probe(dest='p', sources=None)])]
            ae = AccelerationEval([pa], eqs, CubicSpline(dim=1))
            comp = SPHCompiler(ae, None)
            comp.compile()
            _COMPILED['ae'] = ae
        ae = _COMPILED['ae']
        ae.update_particle_arrays([pa])
        nn = LinkedListNNPS(dim=1, particles=[pa])
        ae.set_nnps(nn)
        ae.compute(0.0, 0.1)
        outs = []
        for k in range(N):
            outs.append((float(pa.ret[k]), [float(v) for v in pa.ma[80 * k:80 * k + 80]],
                         [float(v) for v in pa.mr[112 * k:112 * k + 112]]))
        return outs
    _COMPILED['run'] = run
    return run


def check_compiled(gj_cases, helper_cases, R, work, stats):
    """the transpiled functions against the model (bit-exact: the generated C
    performs the same IEEE operations) and against the oracle"""
    run = compiled_runner(work)
    jobs = []
    for c in gj_cases:
        m, res = gj_arrays(c)
        jobs.append((0, c['n'], c['nb'], 0, m, [], res))
    opn = {'identity': 1, 'dot': 2, 'matmult': 3, 'matvec': 4, 'aug': 5}
    for c in helper_cases:
        k = c['kind']
        if k == 'identity':
            jobs.append((1, c['n'], 0, 0, c['a'], [], []))
        elif k in ('dot',):
            jobs.append((2, c['n'], 0, 0, c['a'], c['b'], []))
        elif k in ('matmult', 'matvec'):
            jobs.append((opn[k], c['n'], 0, 0, c['a'], c['b'], c['r']))
        else:
            jobs.append((5, c['n'], c['na'], c['nmax'], c['A'], c['b'], c['r']))
    outs = run(jobs)
    gi = iter(outs[:len(gj_cases)])

    def fake_gj(m, n, nb, res):
        ret, a, r = next(gi)
        m[:] = a[:len(m)]
        res[:] = r[:len(res)]
        return ret
    check_gj_cases(gj_cases, R, stats, sample_base=99, fn=fake_gj, label='compiled')
    hi = iter(outs[len(gj_cases):])

    class FakeMod:
        @staticmethod
        def identity(a, n):
            ret, aa, r = next(hi)
            a[:] = aa[:len(a)]

        @staticmethod
        def dot(a, b, n):
            ret, aa, r = next(hi)
            return ret

        @staticmethod
        def mat_mult(a, b, n, r):
            ret, aa, rr = next(hi)
            r[:] = rr[:len(r)]

        mat_vec_mult = mat_mult

        @staticmethod
        def augmented_matrix(A, b, n, na, nmax, r):
            ret, aa, rr = next(hi)
            r[:] = rr[:len(r)]
    check_helpers(helper_cases, R, mod=FakeMod, label='compiled')


# --------------------------------------------------------------------------
# eigen-decomposition (linalg3.pyx): bit-exact tie of Model/Eigen3.lean to the
# real code + the property's own predicate evaluated on the real code

EIG_TOL = 1e-13      # relative to |A|_max; orthonormality absolute
EIG_FUEL = 200       # QL sweeps per eigenvalue the model allows (EISPACK: 30)
BIG = 1e8            # literal of _nearly_diagonal
HANG_S = 20.0        # no answer from the real code for this long = hang

HYPOT_BODIES = {
    # pinned
    'return sqrt(x*x+y*y)': 'naive',
    # proposed_fixes/C13-hypot2-overflow.diff
    'cdef double r|if fabs(x) > fabs(y):|r = y/x|r = fabs(x)*sqrt(1 + r*r)|'
    'elif y != 0:|r = x/y|r = fabs(y)*sqrt(1 + r*r)|else:|r = 0.0|return r': 'safe',
}


def hypot_variant():
    """which body of hypot2 does the tree under test have?  Read from the
    source that was compiled (comments and blank lines dropped); anything
    else is 'unknown' (reported as a disagreement, tied against 'naive')."""
    import pysph.base
    import os
    src = os.path.join(os.path.dirname(pysph.base.__file__), 'linalg3.pyx')
    lines = open(src).read().split('\n')
    body = []
    inside = False
    for ln in lines:
        t = ln.split('#')[0].rstrip()
        if t.startswith('cdef inline double hypot2('):
            inside = True
            continue
        if inside:
            if t and not t.startswith(' '):
                break
            if t.strip():
                body.append(t.strip())
    return HYPOT_BODIES.get('|'.join(body), 'unknown'), '|'.join(body)


PROBE_PYX = '''
# cython: language_level=3
# distutils: language=c++
include "%s"

def probe_tred2(double[:,:] a):
    cdef double[3][3] V
    cdef double[3] d
    cdef double[3] e
    cdef int i, j
    for i in range(3):
        d[i] = 0.0
        e[i] = 0.0
        for j in range(3):
            V[i][j] = a[i, j]
    tred2(V, &d[0], &e[0])
    return ([V[i][j] for i in range(3) for j in range(3)],
            [d[i] for i in range(3)], [e[i] for i in range(3)])

def probe_tql2(double[:,:] a, double[:] dd, double[:] ee):
    cdef double[3][3] V
    cdef double[3] d
    cdef double[3] e
    cdef int i, j
    for i in range(3):
        d[i] = dd[i]
        e[i] = ee[i]
        for j in range(3):
            V[i][j] = a[i, j]
    tql2(V, &d[0], &e[0])
    return ([V[i][j] for i in range(3) for j in range(3)], [d[i] for i in range(3)])
'''

PROBE_SETUP = '''
from setuptools import setup, Extension
from Cython.Build import cythonize
import numpy
setup(ext_modules=cythonize([Extension('c13probe', ['c13probe.pyx'],
      include_dirs=[numpy.get_include()], extra_compile_args=['-O3'],
      define_macros=[('NPY_NO_DEPRECATED_API', 'NPY_1_7_API_VERSION')])], quiet=True))
'''

_PROBE = {}


def build_probe(work):
    """`tred2` and `tql2` are cdef functions without a Python wrapper: compile the
    tree's own linalg3.pyx once more, textually `include`d into a module that adds
    two wrappers (same source text, same compiler flags), so that the two halves
    can be tied and replayed separately.  That this copy is the code of the
    compiled pysph.base.linalg3 is checked on every case:
    probe_tql2(probe_tred2(A/s)) * s == py_eigen_decompose_eispack(A), bit for bit."""
    import os
    import subprocess
    if 'dir' in _PROBE:
        return _PROBE['dir']
    import pysph.base
    src = os.path.join(os.path.dirname(pysph.base.__file__), 'linalg3.pyx')
    d = os.path.join(work, 'c13probe')
    os.makedirs(d, exist_ok=True)
    with open(os.path.join(d, 'c13probe.pyx'), 'w') as fh:
        fh.write(PROBE_PYX % src)
    with open(os.path.join(d, 'setup_probe.py'), 'w') as fh:
        fh.write(PROBE_SETUP)
    r = subprocess.run([sys.executable, 'setup_probe.py', 'build_ext', '--inplace'],
                       cwd=d, capture_output=True, text=True)
    if r.returncode != 0:
        raise SystemExit('cannot compile the tred2/tql2 probe from %s:\n%s' % (
            src, (r.stdout + r.stderr)[-3000:]))
    _PROBE['dir'] = d
    return d


def eig_worker(infile, outfile, start, probe_dir=None):
    """child process: run the real code on case `start`, `start+1`, ... of
    infile, one JSON answer per line (flushed), so that a hang or a crash of
    the real code costs one case, not the run"""
    from pysph.base import linalg3
    probe = None
    if probe_dir:
        sys.path.insert(0, probe_dir)
        import c13probe as probe
    events = []
    sys.unraisablehook = lambda u: events.append(type(u.exc_value).__name__)
    with open(outfile, 'a') as out:
        for idx, line in enumerate(open(infile)):
            if idx < start:
                continue
            a = np.array([H.bits2f(x) for x in line.split(',')],
                         dtype=float).reshape(3, 3)
            r = {}
            del events[:]
            try:
                d, v = linalg3.py_eigen_decompose_eispack(a.copy())
                r['d'] = [H.fbits(x) for x in d]
                r['v'] = [H.fbits(x) for x in np.asarray(v).ravel()]
            except Exception as e:      # noqa
                r['raise'] = type(e).__name__
            r['un'] = list(events)
            del events[:]
            try:
                r['ev'] = [H.fbits(x) for x in linalg3.py_get_eigenvalues(a.copy())]
                d2, v2 = linalg3.py_get_eigenvalvec(a.copy())
                r['d2'] = [H.fbits(x) for x in d2]
                r['v2'] = [H.fbits(x) for x in np.asarray(v2).ravel()]
            except Exception as e:      # noqa
                r['raise2'] = type(e).__name__
            r['un2'] = list(events)
            if 'd' in r:
                try:
                    rec = linalg3.py_transform_diag_inv(
                        np.array(d, dtype=float).copy(), np.array(v, dtype=float).copy())
                    r['rec'] = [H.fbits(x) for x in np.asarray(rec).ravel()]
                except Exception as e:  # noqa
                    r['raise3'] = type(e).__name__
            if probe is not None:
                # the two halves separately, on B = A / sum|a_ij| (what
                # eigen_decomposition hands to tred2)
                del events[:]
                sa = 0.0
                for x in a.ravel():
                    sa += abs(float(x))
                if sa != 0.0 and math.isfinite(sa):
                    try:
                        b = a / sa
                        r['B'] = [H.fbits(x) for x in b.ravel()]
                        tv, td, te = probe.probe_tred2(b.copy())
                        r['tV'] = [H.fbits(x) for x in tv]
                        r['td'] = [H.fbits(x) for x in td]
                        r['te'] = [H.fbits(x) for x in te]
                        qv, qd = probe.probe_tql2(np.array(tv, dtype=float).reshape(3, 3),
                                                  np.array(td, dtype=float),
                                                  np.array(te, dtype=float))
                        r['qV'] = [H.fbits(x) for x in qv]
                        r['qd'] = [H.fbits(x) for x in qd]
                        r['qds'] = [H.fbits(x * sa) for x in qd]
                    except Exception as e:      # noqa
                        r['raise4'] = type(e).__name__
                    r['un4'] = list(events)
            out.write(json.dumps(r) + '\n')
            out.flush()


def run_eig_impl(cases, work, tag='e', probe=True):
    """the real code on every case, in child processes; a case on which the
    child hangs (no answer for HANG_S seconds) or dies is marked and skipped"""
    import os
    import subprocess
    import time
    infile = os.path.join(work, 'eig-%s-in.txt' % tag)
    outfile = os.path.join(work, 'eig-%s-out.jsonl' % tag)
    with open(infile, 'w') as fh:
        for c in cases:
            fh.write(','.join(H.fbits(x) for r in c['A'] for x in r) + '\n')
    res = []
    while len(res) < len(cases):
        start = len(res)
        open(outfile, 'w').close()
        p = subprocess.Popen([sys.executable, os.path.abspath(__file__),
                              '--eig-worker', infile, outfile, str(start)] +
                             ([build_probe(work)] if probe else []),
                             stderr=subprocess.DEVNULL)
        last = time.time()
        size = 0
        while True:
            rc = p.poll()
            n = os.path.getsize(outfile)
            if n > size:
                size = n
                last = time.time()
            if rc is not None:
                break
            if time.time() - last > HANG_S:
                p.kill()
                p.wait()
                rc = 'hang'
                break
            time.sleep(0.02)
        for g in open(outfile).read().split('\n'):
            if not g:
                continue
            try:
                res.append(json.loads(g))
            except ValueError:      # line cut off by the kill
                break
        if len(res) < len(cases):
            if rc == 0:
                raise SystemExit('eigen worker stopped early without an error')
            res.append({'hang': True} if rc == 'hang' else {'crash': rc})
    return res


def f_eq(x, y):
    """bit patterns equal, any NaN equal to any NaN"""
    if x == y:
        return True
    fx, fy = H.bits2f(x), H.bits2f(y)
    return fx != fx and fy != fy


def fl_eq(xs, ys):
    return len(xs) == len(ys) and all(f_eq(x, y) for x, y in zip(xs, ys))


def parse_eig_model(line):
    """`ok V=.. d=.. log=..` | `err=..` -> dict"""
    t = line.split()
    if not t:
        return {'bad': line}
    if t[0] == 'ok':
        kv = dict(x.split('=', 1) for x in t[1:])
        return {'V': kv['V'].split(','), 'd': kv['d'].split(','),
                'log': [] if kv['log'] == '_' else [int(x) for x in kv['log'].split(',')],
                'drops': [] if kv.get('drops', '_') == '_' else kv['drops'].split(',')}
    if t[0].startswith('err='):
        return {'err': ' '.join(t)}
    return {'bad': line}


def finite_bits(xs):
    return all(math.isfinite(H.bits2f(x)) for x in xs)


def log_counts(R, log):
    """distribution of the paths the model (= the code, bit for bit) took"""
    for code in log:
        if code in (400, 401, 500):
            R.count({400: 'eigpath:zero_matrix_case', 401: 'eigpath:scaled+tred2+tql2',
                     500: 'eigpath:diagonal-fast'}[code])
        elif 100 <= code < 200:
            R.count('tred2:i=%d:%s' % ((code - 100) // 10,
                                       'householder' if code % 10 else 'scale==0'))
        elif 200 <= code < 300:
            R.count('tred2:accumulate i=%d:%s' % ((code - 200) // 10,
                                                  'h!=0' if code % 10 else 'h==0'))
        elif 300 <= code < 400:
            R.count('tql2:sort swap')
        elif code >= 100000:
            c = code - 100000
            l, m, it = c // 10000, (c // 1000) % 10, c % 1000
            R.count('tql2:l=%d m=%d sweeps=%s' % (l, m, it if it < 6 else '6+'))


def eig_property(case, r, R, stats):
    """the property's own predicate on what the REAL code returned
    (independent of the model): finite, V^T V = I, A V = V diag(d),
    V diag(d) V^T = A (through py_transform_diag_inv), no exception"""
    a = np.array(case['A'], dtype=float)
    key = 'C13:eig:' + case['style']
    sc = float(np.max(np.abs(a)))
    R.count('eig:' + case['style'])
    R.case(json.dumps(case, sort_keys=True), sc > 0, None)
    if r.get('hang'):
        R.prop_fail(key, case, 'returns', 'no answer within %gs (killed)' % HANG_S)
        return
    if 'crash' in r:
        R.prop_fail(key, case, 'returns', 'process died, exit code %r' % (r['crash'],))
        return
    if 'raise' in r:
        R.prop_fail(key, case, 'returns', r['raise'])
        return
    d = np.array([H.bits2f(x) for x in r['d']])
    v = np.array([H.bits2f(x) for x in r['v']]).reshape(3, 3)
    if r['un']:
        R.prop_fail(key, case, 'no exception inside eigen_decomposition',
                    'unraisable %s; d=%r V=%r' % (r['un'], d.tolist(), v.tolist()))
        return
    if not (np.all(np.isfinite(d)) and np.all(np.isfinite(v))):
        R.prop_fail(key, case, 'finite d, V', 'd=%r V=%r' % (d.tolist(), v.tolist()))
        return
    if 'raise3' in r:
        R.prop_fail('C13:eig:transform_diag_inv', case, 'returns', r['raise3'])
        return
    rec = np.array([H.bits2f(x) for x in r['rec']]).reshape(3, 3)
    with np.errstate(all='ignore'):
        orth = float(np.max(np.abs(v.T @ v - np.eye(3))))
        # residuals relative to |A|: computed on A/|A| so that |A| near the
        # ends of the double range does not overflow the test itself
        an = a / sc if sc > 0 else a
        dn = d / sc if sc > 0 else d
        resid = float(np.max(np.abs(an @ v - v * dn[None, :])))
        recon = float(np.max(np.abs((rec / sc if sc > 0 else rec) - an)))
    stats['eig_orth'] = max(stats.get('eig_orth', 0.0), orth)
    if sc > 0:
        stats['eig_resid'] = max(stats.get('eig_resid', 0.0), resid)
        stats['eig_recon'] = max(stats.get('eig_recon', 0.0), recon)
    if not orth <= EIG_TOL:
        R.prop_fail(key, case, 'V^T V = I within %g' % EIG_TOL,
                    'max|V^T V - I| = %.3g, V=%r' % (orth, v.tolist()))
    elif not resid <= EIG_TOL:
        R.prop_fail(key, case, 'A V = V diag(d) within %g |A|' % EIG_TOL,
                    'max|A V - V d| = %.3g |A| (|A| = %.3g), d=%r' % (resid, sc, d.tolist()))
    elif not recon <= EIG_TOL:
        R.prop_fail('C13:eig:transform_diag_inv', case,
                    'py_transform_diag_inv(d, V) = A within %g |A|' % EIG_TOL,
                    'max diff %.3g |A|' % recon)
    elif not (d[0] <= d[1] <= d[2]):
        # not demanded by the property; the docstring of tql2 promises it
        R.note('eigenvalues not ascending for %r: %r' % (case['A'], d.tolist()))
    # get_eigenvalvec is not the routine the equations use: monitored only
    if 'd2' in r:
        d2 = np.array([H.bits2f(x) for x in r['d2']])
        v2 = np.array([H.bits2f(x) for x in r['v2']]).reshape(3, 3)
        with np.errstate(all='ignore'):
            bad = not (np.all(np.isfinite(d2)) and np.all(np.isfinite(v2))) or \
                not float(np.max(np.abs(v2.T @ v2 - np.eye(3)))) <= EIG_TOL or \
                not float(np.max(np.abs(an @ v2 - v2 * (d2 / sc if sc > 0 else d2)[None, :]))) <= EIG_TOL
        if bad:
            stats['get_eigenvalvec_not_a_decomposition'] = \
                stats.get('get_eigenvalvec_not_a_decomposition', 0) + 1
    elif 'raise2' in r:
        stats['get_eigenvalvec_raises'] = stats.get('get_eigenvalvec_raises', 0) + 1


def check_eig(cases, R, stats, work, tag='e', hyp=None):
    """tie + property on a list of symmetric matrices"""
    if hyp is None:
        hyp, body = hypot_variant()
        if hyp == 'unknown':
            R.disagree({'hypot2': body}, 'hypotNaive | hypotSafe', body,
                       'body of hypot2 in linalg3.pyx is neither the pinned nor the repaired one')
            hyp = 'naive'
        R.count('hypot2 body in the tree: ' + hyp)
    impl = run_eig_impl(cases, work, tag)
    eps = H.fbits(EPS)
    lines = []
    idx = []
    for k, (c, r) in enumerate(zip(cases, impl)):
        flat = H.flist([x for row in c['A'] for x in row])
        lines.append('eig hyp=%s eps=%s fuel=%d A=%s' % (hyp, eps, EIG_FUEL, flat))
        idx.append((k, 'eig'))
        if 'ev' in r:
            lines.append('eigvv hyp=%s eps=%s big=%s fuel=%d A=%s ev=%s' % (
                hyp, eps, H.fbits(BIG), EIG_FUEL, flat, ','.join(r['ev'])))
            idx.append((k, 'eigvv'))
        if 'rec' in r:
            lines.append('tdi d=%s P=%s' % (','.join(r['d']), ','.join(r['v'])))
            idx.append((k, 'tdi'))
        if 'tV' in r:
            lines.append('tred2 V=%s' % ','.join(r['B']))
            idx.append((k, 'tred2'))
        if 'qV' in r and finite_bits(r['tV'] + r['td'] + r['te']):
            lines.append('tql2 hyp=%s eps=%s fuel=%d V=%s d=%s e=%s' % (
                hyp, eps, EIG_FUEL, ','.join(r['tV']), ','.join(r['td']), ','.join(r['te'])))
            idx.append((k, 'tql2'))
    out = H.run_model('C13', lines)
    if len(out) != len(lines):
        raise SystemExit('model driver answered %d of %d lines' % (len(out), len(lines)))
    for (k, what), o in zip(idx, out):
        c, r = cases[k], impl[k]
        if what == 'eig':
            eig_property(c, r, R, stats)
            m = parse_eig_model(o)
            if 'bad' in m:
                R.disagree(c, o, None, 'eig: model line not understood')
                continue
            if 'log' in m:
                log_counts(R, m['log'])
            if r.get('hang'):
                if 'err' in m and 'noconv' in m['err']:
                    R.count('tie: code hangs, model runs out of fuel')
                else:
                    R.disagree(c, o, 'hang', 'eig: the code does not return, the model does')
            elif 'crash' in r or 'raise' in r:
                R.disagree(c, o, r, 'eig: the code died/raised')
            elif r['un']:
                # Cython's checked division aborted tql2: the model divides
                # as IEEE does and must then show a non-finite result
                if 'err' in m or not (finite_bits(m['V']) and finite_bits(m['d'])):
                    R.count('tie: ZeroDivisionError in the code, non-finite in the model')
                else:
                    R.disagree(c, o, r, 'eig: the code reported %s, the model result is finite' % r['un'])
            elif 'err' in m and 'mout' in m['err'] and not (finite_bits(r['d']) and finite_bits(r['v'])):
                # a NaN makes every `fabs(e[m]) <= eps*tst1` false: the code
                # then reads d[n] (out of bounds), the model reports m = n
                R.count('tie: NaN in the code, search for m runs off the end in the model')
            elif 'err' in m:
                R.disagree(c, o, r, 'eig: the model reports %s, the code returned' % m['err'])
            elif not (fl_eq(m['V'], r['v']) and fl_eq(m['d'], r['d'])):
                R.disagree(c, {'V': m['V'], 'd': m['d']}, {'V': r['v'], 'd': r['d']},
                           'eig: V, d differ bit for bit (eigen_decomposition)')
            else:
                R.count('tie: eigen_decomposition bit-exact')
        elif what == 'eigvv':
            if 'd2' not in r:
                R.count('eigvv: get_eigenvalvec raised (not tied)')
                continue
            t = o.split()
            if t and t[0] == 'path=diag':
                kv = dict(x.split('=', 1) for x in t[1:])
                if fl_eq(kv['V'].split(','), r['v2']) and fl_eq(kv['d'].split(','), r['d2']):
                    R.count('tie: get_eigenvalvec diagonal fast path bit-exact')
                else:
                    R.disagree(c, o, {'V': r['v2'], 'd': r['d2']}, 'eigvv: diagonal fast path')
                log_counts(R, [500])
            elif t and t[0] == 'path=iter':
                m = parse_eig_model(' '.join(t[1:]))
                if r['un2'] or 'err' in m or 'bad' in m:
                    if 'V' in m and finite_bits(m['V']) and finite_bits(m['d']):
                        R.disagree(c, o, r, 'eigvv: the code reported %s' % r['un2'])
                    else:
                        R.count('eigvv: iterative path, not finite / exception on both sides')
                elif fl_eq(m['V'], r['v2']) and fl_eq(m['d'], r['d2']):
                    R.count('tie: get_eigenvalvec iterative path bit-exact (dispatch from py_get_eigenvalues)')
                else:
                    R.disagree(c, {'V': m['V'], 'd': m['d']}, {'V': r['v2'], 'd': r['d2']},
                               'eigvv: iterative path / use_iter decision')
            elif t and t[0] == 'path=closed':
                dm = t[1].split('=', 1)[1].split(',')
                if fl_eq(dm, r['d2']):
                    R.count('tie: get_eigenvalvec closed-form path, eigenvalues only (vectors not modelled)')
                else:
                    R.disagree(c, o, {'d': r['d2']}, 'eigvv: closed-form path returns other eigenvalues')
            else:
                R.disagree(c, o, None, 'eigvv: model line not understood')
        elif what == 'tdi':
            if fl_eq(o.split(','), r['rec']):
                R.count('tie: transform_diag_inv bit-exact')
            else:
                R.disagree(c, o, r['rec'], 'tdi: transform_diag_inv')
        elif what == 'tred2':
            kv = dict(x.split('=', 1) for x in o.split())
            if fl_eq(kv['V'].split(','), r['tV']) and fl_eq(kv['d'].split(','), r['td']) \
                    and fl_eq(kv['e'].split(','), r['te']):
                R.count('tie: tred2 alone bit-exact (probe)')
            else:
                R.disagree(c, o, {'V': r['tV'], 'd': r['td'], 'e': r['te']},
                           'tred2: V, d, e differ bit for bit')
            replay_tred2(c, r, R, stats)
        elif what == 'tql2':
            m = parse_eig_model(o)
            if r.get('un4'):
                if 'V' in m and finite_bits(m['V']) and finite_bits(m['d']):
                    R.disagree(c, o, r['un4'], 'tql2: the code reported an exception')
                else:
                    R.count('tie: tql2 alone, exception in the code / non-finite in the model')
            elif 'V' in m and fl_eq(m['V'], r['qV']) and fl_eq(m['d'], r['qd']):
                R.count('tie: tql2 alone bit-exact (probe)')
                replay_tql2(c, r, m, R, stats)
            elif 'err' in m and not (finite_bits(r['qV']) and finite_bits(r['qd'])):
                R.count('tie: tql2 alone, NaN in the code / error in the model')
            else:
                R.disagree(c, o, {'V': r['qV'], 'd': r['qd']}, 'tql2: V, d differ bit for bit')
            # the probe is the same code as the compiled module
            if 'd' in r and not r['un'] and not r.get('un4'):
                if fl_eq(r['qV'], r['v']) and fl_eq(r['qds'], r['d']):
                    R.count('probe == compiled module: tql2(tred2(A/s))*s == eigen_decomposition(A)')
                else:
                    R.disagree(c, {'V': r['qV'], 'd': r['qds']}, {'V': r['v'], 'd': r['d']},
                               'the include-probe of linalg3.pyx and the compiled '
                               'pysph.base.linalg3 disagree')
    return impl


REPLAY_TOL = 2e-14


def replay_tred2(c, r, R, stats):
    """theorem `tred2_orthogonal_tridiagonal` replayed on what the REAL tred2
    returned for B = A/s (|B|_1 = 1): V^T V = I, V T V^T = B up to rounding"""
    if not finite_bits(r['tV'] + r['td'] + r['te']):
        return
    b = np.array([H.bits2f(x) for x in r['B']]).reshape(3, 3)
    v = np.array([H.bits2f(x) for x in r['tV']]).reshape(3, 3)
    d = [H.bits2f(x) for x in r['td']]
    e = [H.bits2f(x) for x in r['te']]
    t = np.array([[d[0], e[1], 0.0], [e[1], d[1], e[2]], [0.0, e[2], d[2]]])
    orth = float(np.max(np.abs(v.T @ v - np.eye(3))))
    sim = float(np.max(np.abs(v @ t @ v.T - b)))
    stats['replay_tred2_orth'] = max(stats.get('replay_tred2_orth', 0.0), orth)
    stats['replay_tred2_sim'] = max(stats.get('replay_tred2_sim', 0.0), sim)
    if orth <= REPLAY_TOL and sim <= REPLAY_TOL and e[0] == 0.0:
        R.count('replay tred2_orthogonal_tridiagonal on the code: V^T V = I, V T V^T = A/s')
    else:
        R.disagree(c, 'V^T V = I and V T V^T = A/s within %g' % REPLAY_TOL,
                   {'orth': orth, 'sim': sim, 'V': v.tolist(), 'd': d, 'e': e},
                   'theorem tred2_orthogonal_tridiagonal replayed on the code (tred2 alone)')


def replay_tql2(c, r, m, R, stats):
    """theorem `tql2_decomposition` replayed on what the REAL tql2 returned:
    V0 T0 V0^T = V diag(d) V^T + sum of the dropped entries (taken from the model,
    which agreed bit for bit), each of which contributes at most |x| to an entry"""
    if not (finite_bits(r['qV']) and finite_bits(r['qd'])):
        return
    v0 = np.array([H.bits2f(x) for x in r['tV']]).reshape(3, 3)
    d0 = [H.bits2f(x) for x in r['td']]
    e0 = [H.bits2f(x) for x in r['te']]
    t0 = np.array([[d0[0], e0[1], 0.0], [e0[1], d0[1], e0[2]], [0.0, e0[2], d0[2]]])
    v = np.array([H.bits2f(x) for x in r['qV']]).reshape(3, 3)
    d = np.array([H.bits2f(x) for x in r['qd']])
    drops = sum(abs(H.bits2f(x)) for x in m['drops'])
    lhs = v0 @ t0 @ v0.T
    rhs = (v * d[None, :]) @ v.T
    err = float(np.max(np.abs(lhs - rhs)))
    orth = float(np.max(np.abs(v.T @ v - np.eye(3))))
    stats['replay_tql2_excess'] = max(stats.get('replay_tql2_excess', 0.0), err - 2 * drops)
    stats['replay_tql2_drops'] = max(stats.get('replay_tql2_drops', 0.0), drops)
    if err <= 2 * drops + REPLAY_TOL and orth <= REPLAY_TOL and d[0] <= d[1] <= d[2]:
        R.count('replay tql2_decomposition on the code: V0 T0 V0^T = V diag d V^T + dropped')
    else:
        R.disagree(c, 'reconstruction error <= 2*sum|dropped| + %g, V^T V = I, d ascending' % REPLAY_TOL,
                   {'err': err, 'drops': drops, 'orth': orth, 'd': d.tolist()},
                   'theorem tql2_decomposition replayed on the code (tql2 alone)')



def check_scaling_replay(cases, impl, R, stats, work):
    """theorem-side replay of `eig_scaling` on the REAL code: for c = 2^k
    (no over/underflow) eigen_decomposition(c A) returns the same V bit for
    bit and d scaled by c exactly."""
    rng = random.Random(len(cases))
    sel = [k for k, r in enumerate(impl) if 'd' in r and not r['un']
           and finite_bits(r['d']) and finite_bits(r['v'])]
    sel = [k for k in sel if 1e-100 < max(abs(x) for row in cases[k]['A'] for x in row) < 1e100
           and min([abs(x) for row in cases[k]['A'] for x in row if x != 0.0] or [1.0]) > 1e-100]
    sel = sel[:600]
    scaled = []
    for k in sel:
        c = 2.0 ** rng.randint(-40, 40)
        scaled.append({'kind': 'eig', 'style': cases[k]['style'], 'c': c,
                       'A': [[x * c for x in row] for row in cases[k]['A']]})
    res = run_eig_impl(scaled, work, 'scal', probe=False)
    for k, sc_case, r in zip(sel, scaled, res):
        c = sc_case['c']
        base = impl[k]
        want_d = [H.fbits(H.bits2f(x) * c) for x in base['d']]
        if 'd' in r and fl_eq(r['v'], base['v']) and fl_eq(r['d'], want_d):
            R.count('replay eig_scaling on the code: V equal, d scaled (2^k)')
        else:
            R.disagree({'A': cases[k]['A'], 'c': c}, {'V': base['v'], 'd': want_d},
                       {'V': r.get('v'), 'd': r.get('d')},
                       'theorem eig_scaling replayed on the code: eigen_decomposition(c A) '
                       '!= (V, c d) for c = 2^k')


def eig_corpus():
    """minimised past failures / the shapes past seeded defects needed"""
    z = lambda A, style: {'kind': 'eig', 'style': style,  # noqa
                          'A': [[float(x) for x in r] for r in A]}
    t = 0.3
    return [
        z([[0, t, 0], [t, 0, 0], [0, 0, 0]], 'zero-diag'),          # seed B: hollow
        z([[1, 2, 0], [2, -1, 0], [0, 0, 3]], 'block2'),            # seed B2: l=0, m=1
        z([[1, 0.5, t], [0.5, 2, -t], [t, -t, 3]], 'shear-cancel'),  # seed B3
        z([[0, 0, t], [0, 0, -t], [t, -t, 0]], 'shear-cancel'),
        z([[2, 1, 0], [1, 2, 1], [0, 1, 2]], 'tridiag'),
        z([[0, 0, 0], [0, 0, 0], [0, 0, 0]], 'zero'),
        z([[1, 0, 0], [0, 1, 0], [0, 0, 1]], 'repeated3'),
        z([[1e-169, 1e-169, 0], [1e-169, 1e-169, 0], [0, 0, 1e-169]], 'extreme'),
        # finding C13:eig:graded (proposed_fixes/C13-hypot2-overflow.diff)
        z([[0, 1e-155, 0], [1e-155, 1, 0], [0, 0, 1]], 'graded'),
        z([[0, 1e-170, 0], [1e-170, 0, 0], [0, 0, 1]], 'graded'),
    ]


# --------------------------------------------------------------------------

def corpus():
    """minimised past failures; always run first"""
    g = lambda A, B, style: {'kind': 'gj', 'style': style, 'n': len(A),  # noqa
                             'nb': len(B[0]), 'A': A, 'B': B, 'pad': 0}
    return [
        # F5: a zero leading pivot needs a row exchange
        g([[0.0, 1.0], [1.0, 0.0]], [[1.0], [2.0]], 'zero-lead'),
        g([[0.0, 2.0, 1.0], [1.0, 1.0, 0.0], [3.0, 0.0, 1.0]],
          [[1.0, 0.0], [0.0, 1.0], [2.0, 2.0]], 'zero-lead'),
        # a zero pivot that only appears after the first elimination step
        g([[1.0, 1.0, 0.0], [1.0, 1.0, 1.0], [0.0, 1.0, 1.0]],
          [[1.0], [2.0], [3.0]], 'int'),
        # tiny but accepted leading pivot: growth without a row exchange
        g([[1e-10, 1.0], [1.0, 1.0]], [[1.0], [2.0]], 'tiny-lead'),
        # singular
        g([[1.0, 1.0, 0.0], [1.0, 1.0, 0.0], [1.0, 1.0, 1.0]],
          [[1.0], [1.0], [1.0]], 'singular'),
        g([[2.0]], [[3.0, 4.0]], 'random'),
        g([[0.0]], [[1.0]], 'singular'),
    ]


def replay_case(case, R, work):
    stats = {}
    k = case.get('kind')
    compiled = case.get('path') == 'compiled'
    case = {kk: v for kk, v in case.items() if kk != 'path'}
    if k == 'eig':
        check_eig([case], R, stats, work, 'replay')
        for d in R.d['disagreements']:
            print('disagreement:', json.dumps(d)[:1500])
    elif compiled:
        check_compiled([case] if k == 'gj' else [], [] if k == 'gj' else [case], R,
                       work, stats)
    elif k == 'gj':
        check_gj_cases([case], R, stats, 0)
    else:
        check_helpers([case], R)


def main():
    if sys.argv[1:2] == ['--eig-worker']:
        eig_worker(sys.argv[2], sys.argv[3], int(sys.argv[4]),
                   sys.argv[5] if len(sys.argv) > 5 else None)
        return
    a = H.args()
    R = H.Result(
        'cases = gj_solve systems (n=1..6, nb=1..n, 13 styles: random, small-integer, '
        'zero/tiny leading pivot, permuted diagonally dominant, scaled 1e-8..1e8, '
        'row/column scaled, singular, near-singular, triangular, zero diagonal) run '
        'through the Python function and through the transpiled function; helper calls '
        '(identity, dot, mat_mult, mat_vec_mult, augmented_matrix with nmax>=n); '
        'symmetric 3x3 matrices (24 styles incl. sign-cancelling off-diagonals, tridiagonal, '
        'zero rows, 2x2 blocks, graded, scaled 1e-290..1e290) through eigen_decomposition / '
        'get_eigenvalvec / transform_diag_inv and the Lean model, bit for bit; distinct = distinct '
        'case JSON per path; non-trivial = n >= 2 (gj, helpers) / non-zero matrix (eig)')
    if a.replay:
        rp = json.load(open(a.replay))
        replay_case(rp['case'], R, a.work)
        print(json.dumps(R.d['property_failures'], indent=1)[:6000])
        sys.exit(1 if R.d['property_failures'] else 0)
    quick = a.tier == 'quick'
    stats = {}
    rng = random.Random(a.seed * 7919 + 13)
    check_gj_cases(corpus(), R, stats, 99)
    R.count('corpus', len(corpus()))
    ngj = 1500 if quick else 20000
    cases = [gen_gj(rng) for _ in range(ngj)]
    for i in range(0, ngj, 2000):
        check_gj_cases(cases[i:i + 2000], R, stats, i)
    # exact-rational run of the model (small cases keep the rationals short)
    qc = [c for c in corpus() + cases if c['n'] <= 4][:150 if quick else 1500]
    check_gjq(qc, R)
    hc = [gen_helper(rng) for _ in range(400 if quick else 5000)]
    check_helpers(hc, R)
    # transpiled path
    try:
        ncomp = 300 if quick else 4000
        check_compiled(corpus() + cases[:ncomp], hc[:200 if quick else 2000], R,
                       a.work, stats)
    except SystemExit:
        raise
    except Exception as e:      # noqa
        import traceback
        traceback.print_exc()
        raise SystemExit('transpiled path could not be built/run: %r' % (e,))
    # eigen-solver: bit-exact tie + the property's predicate on the real code
    rng3 = random.Random(a.seed * 104729 + 3)
    neig = 4000 if quick else 60000
    ecases = eig_corpus() + [gen_sym(rng3) for _ in range(neig)]
    R.count('eig corpus', len(eig_corpus()))
    eimpl = []
    for i in range(0, len(ecases), 10000):
        eimpl += check_eig(ecases[i:i + 10000], R, stats, a.work, 'e%d' % i)
    check_scaling_replay(ecases, eimpl, R, stats, a.work)
    if a.broken or R.d['disagreements']:
        rng2 = random.Random(a.seed + 12345)
        before = len(R.d['property_failures'])
        extra = [gen_gj(rng2) for _ in range(6000)]
        R2 = R
        for c in extra:
            im = run_gj_impl(c)
            gj_oracle(c, im, R2, stats)
        found_gj = len(R.d['property_failures']) - before
        # eigen-solver: the property's predicate alone on many more matrices
        before = len(R.d['property_failures'])
        extra_e = [gen_sym(rng2) for _ in range(20000)]
        for c, r in zip(extra_e, run_eig_impl(extra_e, a.work, 'search', probe=False)):
            eig_property(c, r, R, stats)
        R.d['search'] = {'extra_cases': 6000 + len(extra_e),
                         'aimed_at': 'gj_solve and eigen_decomposition on the real code '
                                     '(property predicate only)',
                         'found': found_gj + len(R.d['property_failures']) - before}
    R.note('measured on this run: %s' % json.dumps(stats))
    R.note('get_eigenvalvec (not used by the equations) is monitored only: see '
           'get_eigenvalvec_* in the measured stats')
    R.write(a.out)


if __name__ == '__main__':
    main()
